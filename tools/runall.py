#!/venv/bin/python
"""Run every claimed quick check in parallel against the current /repo tree (no evidence written).

    tools/runall.py            prints one line per check that does not exit 0
Importable: ``run_all() -> {pid: {"exit": rc, "report": [...]}}`` for the checks that fired.
"""
from __future__ import annotations

import json
import os
import subprocess
import sys
from concurrent.futures import ThreadPoolExecutor

VERIF = "/verif"
PY = "/venv/bin/python"


def _one(pid: str):
    p = subprocess.run(
        [PY, "-m", "sa.check", pid, "--tier", "quick", "--no-evidence"],
        cwd=VERIF, capture_output=True, text=True, timeout=600,
    )
    out = p.stdout + p.stderr
    lines = [
        l for l in out.splitlines()
        if l.startswith("  ") or l.startswith("VIOLATION") or l.startswith("ANALYSIS-ERROR")
    ]
    return pid, p.returncode, lines, out


def run_all(full: bool = False) -> dict:
    man = json.load(open(os.path.join(VERIF, "MANIFEST.json")))
    pids = [c["property_id"] for c in man["checks"]]
    fired = {}
    with ThreadPoolExecutor(max_workers=14) as ex:
        for pid, rc, lines, out in ex.map(_one, pids):
            if rc != 0:
                fired[pid] = {"exit": rc, "report": [l.strip()[:400] for l in (lines if full else lines[:6])]}
                if full:
                    fired[pid]["output"] = out[-6000:]
    return fired


if __name__ == "__main__":
    res = run_all(full="--full" in sys.argv)
    for pid, r in sorted(res.items()):
        print(pid, "exit", r["exit"])
        for l in r["report"]:
            print("   ", l)
    print("fired:", sorted(res))
    sys.exit(1 if res else 0)
