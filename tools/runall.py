#!/venv/bin/python
"""Run every claimed quick check in parallel against the current /repo tree (no evidence written).

    tools/runall.py            prints one line per check that does not exit 0
Importable: ``run_all() -> {pid: {"exit": rc, "report": [...]}}`` for the checks that fired.
"""
from __future__ import annotations

import json
import os
import subprocess
import sys
from concurrent.futures import ThreadPoolExecutor

VERIF = "/verif"
PY = "/venv/bin/python"


_ROOT = [None]


def _one(pid: str):
    env = dict(os.environ)
    if _ROOT[0]:
        env["VERIF_REPO"] = _ROOT[0]
    p = subprocess.run(
        [PY, "-m", "sa.check", pid, "--tier", "quick", "--no-evidence"],
        cwd=VERIF, capture_output=True, text=True, timeout=600, env=env,
    )
    out = p.stdout + p.stderr
    lines = [
        l for l in out.splitlines()
        if l.startswith("  ") or l.startswith("VIOLATION") or l.startswith("ANALYSIS-ERROR")
    ]
    if _ROOT[0]:
        lines = [l.replace(_ROOT[0] + "/", "") for l in lines]
    _KNOWN_SEEN.setdefault(pid, set()).update(l.split(" :: ")[0].split(" ", 2)[2] for l in out.splitlines() if l.startswith("KNOWN-FINDING:"))
    return pid, p.returncode, lines, out


_KNOWN_SEEN: dict = {}


def absent_known_findings() -> list:
    """open rows of known_findings.jsonl that the last ``run_all`` on the unchanged tree did not
    reproduce — on the unchanged tree that means a rule lost its grip (development-time check)"""
    out = []
    for line in open(os.path.join(VERIF, "known_findings.jsonl")):
        line = line.strip()
        if not line.startswith("{"):
            continue
        row = json.loads(line)
        if row.get("status") == "open" and row["property"] in _KNOWN_SEEN and row["key"] not in _KNOWN_SEEN[row["property"]]:
            out.append(f"{row['property']} {row['key']}")
    return out


def run_all(full: bool = False, root: str | None = None, only: list | None = None) -> dict:
    """``root``: analyse this tree instead of /repo (a scratch worktree with a patch applied)."""
    _ROOT[0] = root
    man = json.load(open(os.path.join(VERIF, "MANIFEST.json")))
    pids = [c["property_id"] for c in man["checks"] if not only or c["property_id"] in only]
    fired = {}
    with ThreadPoolExecutor(max_workers=14) as ex:
        for pid, rc, lines, out in ex.map(_one, pids):
            if rc != 0:
                fired[pid] = {"exit": rc, "report": [l.strip()[:400] for l in (lines if full else lines[:6])]}
                if full:
                    fired[pid]["output"] = out[-6000:]
    return fired


class Scratch:
    """A detached scratch worktree of /repo HEAD with an optional patch applied; removed on exit."""

    def __init__(self, patch: str | None = None, prefix: str = "verifscratch_"):
        import tempfile

        self.patch = patch
        self.dir = tempfile.mkdtemp(prefix=prefix, dir="/tmp")
        os.rmdir(self.dir)
        self.applied = None

    def __enter__(self):
        subprocess.run(["git", "-C", "/repo", "worktree", "add", "-q", "--detach", self.dir, "HEAD"], check=True)
        if self.patch:
            r = subprocess.run(["git", "apply", self.patch], cwd=self.dir, capture_output=True, text=True)
            self.applied = r.returncode == 0
            self.apply_error = r.stderr[-400:]
        return self

    def __exit__(self, *a):
        subprocess.run(["git", "-C", "/repo", "worktree", "remove", "--force", self.dir])
        return False


if __name__ == "__main__":
    res = run_all(full="--full" in sys.argv)
    for pid, r in sorted(res.items()):
        print(pid, "exit", r["exit"])
        for l in r["report"]:
            print("   ", l)
    print("fired:", sorted(res))
    gone = absent_known_findings()
    for g in gone:
        print("OPEN FINDING NOT REPRODUCED (rule regression?):", g)
    sys.exit(1 if res or gone else 0)

