#!/venv/bin/python
"""Confirm a seeded change and run the checks against it.

    tools/seed_eval.py <name> <property-id> [--from /tmp/seed/<dir>]

1. Takes ``git diff -- liquid`` and ``demo_seed.py`` from the agent's worktree and stores them in
   /verif/seeded/<name>/ (patch.diff, demo_seed.py).
2. Confirms, in a *fresh* scratch worktree of /repo HEAD (removed afterwards): the patch applies,
   the pinned test-suite still passes, the demonstration exits 0 without the patch and non-zero
   with it.
3. Applies the patch to /repo, runs every claimed quick check, records which raise a VIOLATION,
   and undoes the patch (git checkout -- .).
4. Writes meta.json.
"""

from __future__ import annotations

import json
import os
import subprocess
import sys
import tempfile
import shutil

sys.path.insert(0, os.path.dirname(os.path.abspath(__file__)))
from runall import Scratch, run_all  # noqa: E402

VERIF = "/verif"
REPO = "/repo"
PY = "/venv/bin/python"


def sh(cmd, cwd=None, env=None, timeout=900):
    p = subprocess.run(cmd, shell=True, cwd=cwd, env=env, capture_output=True, text=True, timeout=timeout)
    return p.returncode, (p.stdout + p.stderr)


def main():
    name, pid = sys.argv[1], sys.argv[2]
    src = sys.argv[4] if len(sys.argv) > 4 and sys.argv[3] == "--from" else f"/tmp/seed/{pid}"
    out = os.path.join(VERIF, "seeded", name)
    os.makedirs(out, exist_ok=True)
    patch = os.path.join(out, "patch.diff")
    if os.path.isdir(src):
        rc, diff = sh("git diff -- liquid", cwd=src)
        if not diff.strip():
            print("no diff in", src)
            return 2
        open(patch, "w").write(diff)
        shutil.copy(os.path.join(src, "demo_seed.py"), os.path.join(out, "demo_seed.py"))
    meta = {"name": name, "property": pid, "source_worktree": src}
    try:
        prev = json.load(open(os.path.join(out, "meta.json")))
        for k in ("needs_to_manifest", "change", "history"):
            if k in prev:
                meta[k] = prev[k]
    except (OSError, ValueError):
        pass
    # -- 2. confirm in a fresh worktree
    wt = tempfile.mkdtemp(prefix="seedverify_", dir="/tmp")
    os.rmdir(wt)
    rc, o = sh(f"git -C {REPO} worktree add -q --detach {wt} HEAD")
    try:
        shutil.copy(os.path.join(out, "demo_seed.py"), os.path.join(wt, "demo_seed.py"))
        env = dict(os.environ, PYTHONPATH=wt)
        rc0, o0 = sh(f"{PY} demo_seed.py", cwd=wt, env=env)
        rc, o = sh(f"git apply {patch}", cwd=wt)
        if rc != 0:
            # the agent's worktree may be based on an older HEAD: try 3-way
            rc, o = sh(f"git apply --3way {patch}", cwd=wt)
        meta["applies"] = rc == 0
        if rc != 0:
            meta["apply_error"] = o[-400:]
        rct, ot = sh(f"{PY} -m pytest -q -p no:cacheprovider --continue-on-collection-errors 2>&1 | tail -1", cwd=wt)
        rc1, o1 = sh(f"{PY} demo_seed.py", cwd=wt, env=env)
        meta["tests_with_patch"] = ot.strip()
        meta["demo_without_patch"] = {"exit": rc0, "tail": o0.strip()[-200:]}
        meta["demo_with_patch"] = {"exit": rc1, "tail": o1.strip()[-600:]}
        meta["confirmed"] = bool(meta["applies"] and "1385 passed" in ot and rc0 == 0 and rc1 != 0)
    finally:
        sh(f"git -C {REPO} worktree remove --force {wt}")
    # -- 3. run every quick check against a scratch worktree of /repo HEAD with the patch applied
    base = run_all()
    if base:
        print("checks not silent on the unchanged tree; fix that first:", sorted(base))
        return 2
    with Scratch(patch) as sc:
        if not sc.applied:
            print("the patch does not apply to /repo HEAD any more (rebase it by hand):", sc.apply_error)
            return 2
        caught = run_all(root=sc.dir)
    meta["checks_that_fire"] = caught
    meta["caught_by_own_property_check"] = pid in caught
    meta["ran"] = "tools/seed_eval.py (fresh worktree confirmation: suite + demo; every quick check with VERIF_REPO=<scratch worktree of /repo HEAD + patch>)"
    json.dump(meta, open(os.path.join(out, "meta.json"), "w"), indent=1)
    print(json.dumps({k: meta[k] for k in ("name", "property", "confirmed", "caught_by_own_property_check")}, indent=0), "fired:", sorted(caught))
    return 0


if __name__ == "__main__":
    sys.exit(main())
