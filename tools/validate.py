#!/usr/bin/env python3-vt
"""Validate MANIFEST.json and evidence/*.json against the schemas in /root/.vp."""
import glob, json, sys
import jsonschema

def load(p):
    with open(p) as fd:
        return json.load(fd)

bad = 0
m = load("/verif/MANIFEST.json")
try:
    jsonschema.validate(m, load("/root/.vp/MANIFEST.schema.json"))
    print("MANIFEST.json ok:", len(m["checks"]), "checks")
except jsonschema.ValidationError as e:
    bad += 1
    print("MANIFEST.json INVALID:", e.message)
es = load("/root/.vp/EVIDENCE.schema.json")
for p in sorted(glob.glob("/verif/evidence/*.json")):
    try:
        jsonschema.validate(load(p), es)
    except jsonschema.ValidationError as e:
        bad += 1
        print(p, "INVALID:", e.message)
print("evidence files checked:", len(glob.glob("/verif/evidence/*.json")))
ids = {json.loads(l)["id"] for l in open("/verif/properties.jsonl")}
claimed = {c["property_id"] for c in m["checks"]}
na = {c["property_id"] for c in m.get("not_applicable", [])}
if claimed & na or (claimed | na) != ids:
    bad += 1
    print("claimed/not_applicable do not partition the properties:", sorted(ids - claimed - na), sorted(claimed & na))
sys.exit(1 if bad else 0)
