#!/venv/bin/python
"""Run every quick check against each behaviour-preserving patch of a benign round.

    tools/benign_eval.py <name> [--from /tmp/benign/<name>]

Copies benign{1,2,3}.diff + benign.json to /verif/benign/<name>/, confirms each applies to /repo HEAD
and keeps the pinned suite green (fresh scratch worktree), applies it to /repo, runs all quick
checks, reverts, and writes /verif/benign/<name>/meta.json with the checks that fired.  A check that
fires on a patch that really preserves the property is a false alarm to be corrected in the rule.
"""
from __future__ import annotations

import json
import os
import shutil
import subprocess
import sys
import tempfile

sys.path.insert(0, os.path.dirname(os.path.abspath(__file__)))
from runall import Scratch, run_all  # noqa: E402

VERIF, REPO, PY = "/verif", "/repo", "/venv/bin/python"


def sh(cmd, cwd=None, timeout=900):
    p = subprocess.run(cmd, shell=True, cwd=cwd, capture_output=True, text=True, timeout=timeout)
    return p.returncode, p.stdout + p.stderr


def main():
    name = sys.argv[1]
    src = sys.argv[3] if len(sys.argv) > 3 and sys.argv[2] == "--from" else f"/tmp/benign/{name}"
    out = os.path.join(VERIF, "benign", name)
    os.makedirs(out, exist_ok=True)
    if os.path.isdir(src):
        for f in os.listdir(src):
            if f.startswith("benign") and (f.endswith(".diff") or f.endswith(".json")):
                shutil.copy(os.path.join(src, f), os.path.join(out, f))
    try:
        desc = {d["file"]: d for d in json.load(open(os.path.join(out, "benign.json")))}
    except (OSError, ValueError, KeyError, TypeError):
        desc = {}
    meta = {"name": name, "patches": {}}
    for f in sorted(x for x in os.listdir(out) if x.endswith(".diff")):
        patch = os.path.join(out, f)
        rec = dict(desc.get(f, {}))
        wt = tempfile.mkdtemp(prefix="benignverify_", dir="/tmp")
        os.rmdir(wt)
        sh(f"git -C {REPO} worktree add -q --detach {wt} HEAD")
        try:
            rc, o = sh(f"git apply {patch}", cwd=wt)
            rec["applies"] = rc == 0
            rct, ot = sh(f"{PY} -m pytest -q -p no:cacheprovider --continue-on-collection-errors 2>&1 | tail -1", cwd=wt)
            rec["tests_with_patch"] = ot.strip()
        finally:
            sh(f"git -C {REPO} worktree remove --force {wt}")
        if not rec["applies"] or "1385 passed" not in rec["tests_with_patch"]:
            rec["usable"] = False
            meta["patches"][f] = rec
            continue
        rec["usable"] = True
        with Scratch(patch) as sc:
            rec["checks_that_fire"] = run_all(root=sc.dir) if sc.applied else {"apply": {"exit": 2}}
        meta["patches"][f] = rec
        print(name, f, rec.get("kind"), "fired:", sorted(rec["checks_that_fire"]))
    json.dump(meta, open(os.path.join(out, "meta.json"), "w"), indent=1)
    return 0


if __name__ == "__main__":
    sys.exit(main())
