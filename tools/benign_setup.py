#!/venv/bin/python
"""Prepare scratch worktrees and prompts for a *benign-change* round (false-alarm testing).

    tools/benign_setup.py <suffix> [Cxx ...]

For each property creates /tmp/benign/<Cxx>-<suffix> (detached worktree of /repo HEAD) and a prompt
asking a fresh sub-agent — which sees only the property text — for three independent,
behaviour-preserving changes a maintainer might make to the code that implements the property.
The checks must stay silent on each of them (tools/benign_eval.py).
"""
import json
import os
import subprocess
import sys

PROMPT = """You are a maintainer of the Python library "python-liquid" (jg-rp/liquid, a pure-Python Liquid template engine). You have your own scratch git worktree of it at {WT}. Work ONLY inside {WT} (never touch /repo or /verif, and do not read anything under /verif).

The library guarantees this property:

{PROP}

Your task: produce THREE independent, realistic, BEHAVIOUR-PRESERVING changes to the library code that implements or is closely involved in this property (files under {WT}/liquid/). Each change must leave the property fully intact for every input, and must not change any behaviour observable through the public API (outputs, exception types, analysis results), except where noted below. They should be the kind of commit a careful maintainer really makes, touching the interesting code paths rather than the periphery. Mix the kinds, for example:
  - a refactor: extract a helper function/method (and call it from both the sync and the async twin if there are twins), inline a single-use helper, rename local variables or a private helper, reorder independent statements, restructure an if/elif chain or early returns, replace a loop by a comprehension or vice versa, hoist a repeated sub-expression into a local;
  - a non-functional improvement: better wording of an error message, added/updated type annotations and docstrings, an added debug-level logging call, dead-code removal, a performance tweak (caching a bound method in a local, avoiding a repeated attribute lookup, `frozenset` instead of a tuple for a membership test of constants);
  - an additive feature done correctly, following the conventions of the surrounding code so that the property still holds for it too (for example a new small filter or tag registered like its neighbours with proper argument validation and error conversion, a new optional keyword parameter with a default that keeps current behaviour, a new loader subclass option). 
Each change should be small to medium (5-40 changed lines). Do not edit tests. Do not "fix bugs": if you think you see a defect, leave it alone.

Each change must be made separately against the ORIGINAL code (not stacked): make change 1, run the test suite, save it with `git -C {WT} diff -- liquid > {WT}/benign1.diff`, then `git -C {WT} checkout -- liquid` and start change 2 from the original code; likewise benign2.diff and benign3.diff. The test suite must pass for each:
      cd {WT} && /venv/bin/python -m pytest -q -p no:cacheprovider --continue-on-collection-errors 2>&1 | tail -3
      (expected: "1385 passed, 1 error ..." — the 1 collection error about tests/golden-liquid is pre-existing and must remain the only error).
For each change also convince yourself that behaviour is really preserved on edge cases (unusual inputs, async as well as sync, lax/warn/strict modes, custom configuration) — exercise a few with a scratch script run as `cd {WT} && PYTHONPATH={WT} /venv/bin/python script.py` before and after.

Finally write {WT}/benign.json: a JSON list of three objects {{"file": "benign1.diff", "kind": "refactor|nonfunctional|feature", "summary": "<one sentence>", "why_preserving": "<one or two sentences>"}} and leave the worktree with the original code (`git checkout -- liquid`). Reply with the three summaries. Do not commit anything.
"""


def main():
    suffix = sys.argv[1]
    props = {json.loads(l)["id"]: json.loads(l) for l in open("/verif/properties.jsonl")}
    ids = sys.argv[2:] or sorted(props)
    os.makedirs("/tmp/benign/_props", exist_ok=True)
    for pid in ids:
        p = props[pid]
        name = f"{pid}-{suffix}"
        wt = f"/tmp/benign/{name}"
        if not os.path.isdir(wt):
            subprocess.run(["git", "-C", "/repo", "worktree", "add", "-q", "--detach", wt, "HEAD"], check=True)
        text = f"{p['id']} — {p['title']}\n\nStatement: {p['statement']}\n\nQuantified over: {p['quantifier']['text']}\n"
        # what earlier rounds already did for this property: ask for something else
        import glob

        earlier = []
        for mp in sorted(glob.glob(f"/verif/benign/{pid}-*/meta.json")):
            for pf, rec in sorted(json.load(open(mp)).get("patches", {}).items()):
                if rec.get("summary"):
                    earlier.append(f"  - ({rec.get('kind', '?')}) {rec['summary'][:220]}")
        if earlier:
            text += "\nOther maintainers have ALREADY made the following changes (do not repeat them; choose different functions, files and kinds of edit — e.g. restructure control flow, rename locals/private helpers, change how a condition or a comparison is written, split or merge functions, convert between loop/comprehension/generator, move code between sync and async twins consistently, replace a dict dispatch by if/elif or vice versa):\n" + "\n".join(earlier) + "\n"
        open(f"/tmp/benign/_props/{name}.prompt", "w").write(PROMPT.format(WT=wt, PROP=text, NAME=name))
        print(name, wt)


main()
