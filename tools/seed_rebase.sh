#!/bin/sh
# Rebase a kept seed patch onto /repo HEAD (after a fix: commit touched the same file):
#   tools/seed_rebase.sh <seed-name>
# 3-way applies seeded/<name>/patch.diff in a scratch worktree, rewrites the patch, removes the worktree.
set -e
n=$1
wt=/tmp/seedrebase_$n
git -C /repo worktree add -q --detach $wt HEAD
cd $wt
if git apply --3way /verif/seeded/$n/patch.diff; then
  git diff HEAD -- liquid > /verif/seeded/$n/patch.diff.new
  mv /verif/seeded/$n/patch.diff.new /verif/seeded/$n/patch.diff
  echo "rebased $n"
else
  echo "CONFLICT $n"; git diff | head -50
fi
cd /; git -C /repo worktree remove --force $wt
