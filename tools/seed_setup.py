#!/venv/bin/python
"""Prepare scratch worktrees and prompts for a seeding round.

    tools/seed_setup.py <suffix> [Cxx ...]

For each property creates /tmp/seed/<Cxx>-<suffix> (a detached worktree of /repo HEAD) and writes
/tmp/seed/_props/<Cxx>-<suffix>.prompt: the prompt for a fresh sub-agent.  The prompt contains only the
property text (id, title, statement, quantifier) and one line per earlier seeded change for that
property ("already tried") so that a new round looks elsewhere; nothing about /verif's checks.
"""
import glob
import json
import os
import subprocess
import sys

PROMPT = """You are testing how robust a software library's guarantees are. You have your own scratch git worktree of the Python library "python-liquid" (jg-rp/liquid, a pure-Python Liquid template engine) at {WT}. Work ONLY inside {WT} (never touch /repo or /verif, and do not read anything under /verif).

The property the library is supposed to guarantee:

{PROP}

Your task: produce ONE realistic source change to the library (files under {WT}/liquid/) that BREAKS this property while
  (a) the code still imports/compiles, and
  (b) the existing test suite still passes: run it with
      cd {WT} && /venv/bin/python -m pytest -q -p no:cacheprovider --continue-on-collection-errors 2>&1 | tail -3
      (expected: "1385 passed, 1 error ..." — the 1 collection error about tests/golden-liquid is pre-existing and must remain the only error), and
  (c) the breakage needs something specific to manifest — a particular unusual input, a multi-step sequence of operations, a specific configuration, a particular interleaving, or two cooperating sites that each look fine alone — NOT something ordinary use would expose at once. Think of the kind of subtle regression a hurried maintainer could plausibly commit (an off-by-one, a dropped guard on one path only, a swapped argument in the async twin, a widened/narrowed except clause, a cache key missing a component, a condition inverted for an edge case, a refactor that moves a check after the thing it protects, a helper that is "simplified"...). Keep the diff small (typically 1-15 changed lines). Do not edit tests.
{AVOID}
Also write a demonstration: a small standalone Python script {WT}/demo_seed.py that exits 0 (prints PASS) on the ORIGINAL code and exits 1 (prints FAIL with an explanation) on your CHANGED code. It must import the library from the worktree: run it as
      cd {WT} && PYTHONPATH={WT} /venv/bin/python demo_seed.py
Verify both directions yourself: `git diff -- liquid > /tmp/{NAME}.diff; git checkout -- liquid` to run the demo on the original code, then `git apply /tmp/{NAME}.diff` to re-apply your change and run it again (remove /tmp/{NAME}.diff afterwards).

When done, leave your change applied (uncommitted) in the worktree together with demo_seed.py, and reply with: (1) the unified diff of your change (`git -C {WT} diff -- liquid`), (2) one paragraph on what exactly is needed for the breakage to manifest, (3) the output of the test-suite run with your change, (4) the demo output on original and on changed code. Do not commit anything.
"""


def main():
    suffix = sys.argv[1]
    props = {json.loads(l)["id"]: json.loads(l) for l in open("/verif/properties.jsonl")}
    ids = sys.argv[2:] or sorted(props)
    tried = {}
    for f in sorted(glob.glob("/verif/seeded/*/meta.json")):
        m = json.load(open(f))
        if m.get("change"):
            tried.setdefault(m["property"], []).append(m["change"])
    os.makedirs("/tmp/seed/_props", exist_ok=True)
    for pid in ids:
        p = props[pid]
        name = f"{pid}-{suffix}"
        wt = f"/tmp/seed/{name}"
        if not os.path.isdir(wt):
            subprocess.run(["git", "-C", "/repo", "worktree", "add", "-q", "--detach", wt, "HEAD"], check=True)
        text = f"{p['id']} — {p['title']}\n\nStatement: {p['statement']}\n\nQuantified over: {p['quantifier']['text']}\n"
        avoid = ""
        if tried.get(pid):
            avoid = (
                "\nEarlier testers already tried the following changes for this property; choose a DIFFERENT "
                "place and mechanism (a different function, a different sentence of the property):\n"
                + "".join(f"  - {c}\n" for c in tried[pid])
            )
        open(f"/tmp/seed/_props/{name}.prompt", "w").write(
            PROMPT.format(WT=wt, PROP=text, AVOID=avoid, NAME=name)
        )
        print(name, wt)


main()
