#!/venv/bin/python
"""Exploratory metamorphic sweep: run one property's rules on automatic behaviour-preserving
rewrites (sa/metamorph.py) of every function in the property's anchor files and list the variants
on which the check raises a new finding (= brittle rules).

    tools/meta_sweep.py Cxx [--cap N] [--transforms rename,hoist,...]
"""
import json
import multiprocessing as mp
import os
import sys

sys.path.insert(0, "/verif")
from sa import selftest as st  # noqa: E402
from sa.check import run_rules  # noqa: E402
from sa.metamorph import TRANSFORMS, variants  # noqa: E402
from sa.model import Repo  # noqa: E402


def main():
    pid = sys.argv[1].upper()
    cap = 10**9
    transforms = TRANSFORMS
    for i, a in enumerate(sys.argv):
        if a == "--cap":
            cap = int(sys.argv[i + 1])
        if a == "--transforms":
            transforms = tuple(sys.argv[i + 1].split(","))
    props = {json.loads(l)["id"]: json.loads(l) for l in open("/verif/properties.jsonl")}
    files = [f for f in props[pid]["anchors"]["files"] if f.endswith(".py")]
    repo = Repo()
    base = run_rules(pid, repo)
    vs = []
    for name, overlay in variants(repo, files, transforms):
        vs.append(st.Variant(name, overlay, "", silent=True))
        if len(vs) >= cap:
            break
    st._G.update(pid=pid, variants=vs, base_keys={f.key for f in base.findings}, root=repo.root)
    ctx = mp.get_context("fork")
    with ctx.Pool(16) as pool:
        results = pool.map(st._work, range(len(vs)), chunksize=4)
    bad = [r for r in results if r[1] != "silent-ok"]
    print(f"{pid}: {len(vs)} variants over {len(files)} anchor files; {len(bad)} noisy")
    for r in bad:
        print("  ", r[0], r[1], [x[:110] for x in r[2][:2]])


main()
