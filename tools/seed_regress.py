#!/venv/bin/python
"""Re-run the checks against every kept seed (seeded/*/patch.diff) and every benign patch
(benign/*/benign*.diff).  Prints a table; exits 1 if a seed is no longer caught by its own
property's check or a benign patch (not marked genuine_change) raises an alarm.

    tools/seed_regress.py [--seeds] [--benign] [name-prefix ...]
"""
from __future__ import annotations

import glob
import json
import os
import subprocess
import sys

sys.path.insert(0, os.path.dirname(os.path.abspath(__file__)))
from runall import Scratch, run_all  # noqa: E402

REPO = "/repo"


def sh(cmd, cwd=None):
    p = subprocess.run(cmd, shell=True, cwd=cwd, capture_output=True, text=True)
    return p.returncode, p.stdout + p.stderr


ONLY: list = []


def with_patch(patch):
    """checks that fire on a scratch worktree of /repo HEAD with ``patch`` applied (None: does not apply)."""
    with Scratch(patch) as sc:
        if not sc.applied:
            return None
        return run_all(root=sc.dir, only=ONLY or None)


def main():
    args = [a for a in sys.argv[1:] if not a.startswith("--")]
    for a in sys.argv[1:]:
        if a.startswith("--only="):
            ONLY.extend(a.split("=", 1)[1].split(","))
    do_seeds = "--benign" not in sys.argv or "--seeds" in sys.argv
    do_benign = "--seeds" not in sys.argv or "--benign" in sys.argv
    base = run_all(only=ONLY or None)
    if base:
        print("unchanged tree is not silent:", sorted(base))
        return 2
    bad = 0
    if do_seeds:
        for d in sorted(glob.glob("/verif/seeded/*/")):
            name = os.path.basename(d.rstrip("/"))
            if args and not any(name.startswith(a) for a in args):
                continue
            meta = json.load(open(d + "meta.json"))
            fired = with_patch(d + "patch.diff")
            if fired is None:
                print(f"SEED {name}: patch no longer applies")
                bad += 1
                continue
            if ONLY and meta["property"] not in ONLY:
                print(f"SEED {name}: fired={sorted(fired)} (own property not selected)")
                continue
            own = meta["property"] in fired
            print(f"SEED {name}: own={'CAUGHT' if own else 'MISSED'} fired={sorted(fired)}")
            bad += 0 if own else 1
    if do_benign:
        for d in sorted(glob.glob("/verif/benign/*/")):
            name = os.path.basename(d.rstrip("/"))
            if args and not any(name.startswith(a) for a in args):
                continue
            try:
                meta = json.load(open(d + "meta.json"))
            except OSError:
                meta = {"patches": {}}
            for patch in sorted(glob.glob(d + "*.diff")):
                f = os.path.basename(patch)
                rec = meta.get("patches", {}).get(f, {})
                if rec.get("usable") is False or rec.get("verdict") == "not-preserving":
                    continue
                fired = with_patch(patch)
                if fired is None:
                    print(f"BENIGN {name}/{f}: patch no longer applies")
                    continue
                print(f"BENIGN {name}/{f}: {'silent' if not fired else 'ALARM ' + str(sorted(fired))}")
                bad += 1 if fired else 0
    return 1 if bad else 0


if __name__ == "__main__":
    sys.exit(main())
