# Claims table consumed by tools/gen_manifest.py (claim(...) / na(...) are defined there).
# One entry per property; properties without an entry are listed as not_applicable
# with a "not built yet" reason so that MANIFEST.json is valid at all times.

claim(
    "C01",
    "SIB",
    "static sibling-equivalence: ast normal forms of every sync/async pair compared; MRO pairing rule",
    "Full structural decision under stated assumptions: each of the 79 m/m_async pairs in liquid/ "
    "(methods, module functions, nested defs) has identical normal forms after erasing the async "
    "surface (and two reviewed axioms with machine-checked side conditions: StringLiteral.evaluate is .value under isinstance, the `is None`/isinstance arms of one chain are order-free), is in delegation form, or is one of 5 reviewed-equivalence rows pinned by diff digest; "
    "no class takes m and m_async from different MRO owners; no built-in implements the optional "
    "async data protocols. Identical code modulo await => identical result or exception for every "
    "template, data and loader (induction on call depth). Holds for all inputs, which sampling "
    "tests cannot give; an edit to one sibling only is reported with the diff.",
    "Trusted: the normaliser (sa/engines/sib.py) erases only await/async/_async-suffix, "
    "docstrings, annotations, local names, keyword order, eager-consumer comprehension kind, "
    "single-use temporaries, run_in_executor wrappers; the 5 reviewed rows and 2 reviewed axioms (reasons in "
    "sa/props/c01.py); single-task execution; render data without __getitem_async__/filter_async.",
    "DESIGN.md section 4 (SIB), section 5 C01",
)

claim(
    "C25",
    "TBL+KINDS",
    "static: delegation-form and operator tables over the registered filter implementations (ast), a two-exit length argument on truncate_chars, path-sensitive kind inference on `default`",
    "Clauses only — the sentences of the property that say 'this filter IS that operation' (the rest "
    "relates returned values to argument values and is not decided): upcase/downcase/capitalize/strip/"
    "lstrip/rstrip are exactly val.upper()/lower()/capitalize()/strip()/lstrip()/rstrip() behind the "
    "string coercion; size is len(obj), and 0 on TypeError only; plus/minus/times/modulo/divided_by/abs/"
    "ceil/floor/at_least/at_most apply the operator of their name to (num, other) in that order, with "
    "integer arithmetic for two ints and decimal.Decimal(str(x)) arithmetic otherwise (no binary float "
    "operation), // vs / for divided_by, the argument converted by num_arg(default=0), all behind "
    "math_filter; truncate_chars returns val iff len(val) <= num and otherwise "
    "val[:max(num - len(end), 0)] + end, so the result ends in the ellipsis and is no longer than "
    "max(num, len(end)); first/last select getitem(x, 0)/getitem(x, -1); `default` with a nil left value "
    "can only return its argument. Each holds for every input by the shape of the implementation, "
    "given Python's str/len/min/max/abs/math/decimal as the meaning of 'the corresponding operation'.",
    "Not decided (value level): split/join round trip, membership/order of the array filters (that they "
    "return new lists is C17-INPUT), slice, truncatewords, round and the rounding of float results, "
    "`default` for false/undefined/empty. A filter re-implemented without delegating (e.g. a hand-written "
    "upper-casing loop) would be reported for review: the rule decides the delegation form, not equivalence.",
    "DESIGN.md section 5 C25 (revised in section 10)",
)

claim(
    "C23",
    "SIB+FLOW",
    "static: sibling equivalence of the caching mixin + parameter-binding/flow rules on its AST",
    "Clauses only (the behaviour over request histories is not decided): (1) load/load_async and "
    "_check_cache/_check_cache_async are one program modulo await; (2) the value of "
    "cache_key(name, context, kwargs) is the only cache key and the requested name is what reaches "
    "the wrapped loader, with globals/context/kwargs forwarded; (3) _check_cache* reads/writes the "
    "cache only under its key, stores and returns exactly what load_func() returned or returns the "
    "object read, consults is_up_to_date* iff auto_reload, and gives a hit exactly the current "
    "request's globals; (4) a namespaced key contains both namespace and name, keyword before "
    "context; (5) every Caching* class takes load* from the mixin; (6) every uptodate kind a wrapped "
    "loader stores is consumable by both the sync and the async freshness check (interleaving); "
    "(7) every freshness callable handed out with a template source answers by EQUALITY of the "
    "recorded and the current modification time (an ordering test misses a source replaced by an "
    "older file). "
    "Each is a necessary condition of 'same name, source and behaviour as the non-caching loader, "
    "namespaces never substituted, changed source picked up, request globals apply'.",
    "Not decided: LRU order/eviction interplay and reload timing over histories (value level). "
    "Shape rules are anchored on CachingLoaderMixin's current structure; a restructured but "
    "equivalent _check_cache would be reported for review.",
    "DESIGN.md section 5 C23",
)

claim(
    "C03",
    "HND+OWN",
    "static: exception-handler discipline, dispatcher shape, who-may rule on every tolerance-mode read",
    "Clauses (not the whole behaviour): (a) every construct whose failure must be tolerated — "
    "Tag.parse via Tag.get_node, every get_node dispatch in Parser._parse/parse_block, every "
    "node.render* in render_with_context*, the if/unless elsif recovery — is wrapped by a handler "
    "that catches LiquidError and hands it to Environment.error without re-raising, and no Tag "
    "subclass overrides get_node; (b) Environment.error and RenderContext.error raise iff STRICT, "
    "warn iff WARN, nothing else; (c) every other read of the tolerance mode is a strict-only "
    "raise guard with no else and no other effect, so a run that raises nothing in strict mode "
    "executes the same statements in lax and warn (identical output, no warnings) — for every "
    "template and data, which sampling cannot show; (d) every handler that silently swallows a "
    "LiquidError-family exception is one of 5 reviewed rows; a new one is reported."
    ' Warn mode also *formats* every error it suppresses: C03-FORMAT decides that the formatter cannot raise for a token of the lexer (line lengths added up from splitlines(keepends=True), once per line, first total exceeding the index).',
    "Not decided: that eat_block resynchronises at the right token; non-Liquid exceptions that "
    "from_string converts (C02/C09). Lexer errors are outside the property.",
    "DESIGN.md section 5 C03",
)

claim(
    "C07",
    "FLOW+OWN",
    "static: counted-before-written flow rule on LimitedStringIO.write; who-may rules for buffers and locals",
    "Clauses: bytes are counted as len(s.encode('utf-8')) of the very string written and the "
    "size > limit raise is reached before super().write on every path; text buffers are "
    "constructed only by BoundTemplate._get_buffer and RenderContext.get_buffer, the child "
    "buffer's limit is output_stream_limit minus the parent's bytes, and every get_buffer call in "
    "a tag passes the buffer it renders into; render/render_async return the getvalue() of the "
    "limited buffer; locals are stored only in RenderContext.assign with the limit test after the "
    "store, get_size_of_locals adds the carry and every copy() passes "
    "local_namespace_size_carry=self.get_size_of_locals(). These are necessary conditions of "
    "'never more than L bytes' and 'never held more than M', for all templates and limits."
    ' An unlimited buffer is handed out exactly when no limit is configured: in both buffer owners every plain StringIO() sits under `output_stream_limit is None` and every LimitedStringIO under its negation (path conditions).',
    "Not decided: that sys.getsizeof measures anything meaningful (the property says 'measured "
    "size'); value-level accounting over whole renders.",
    "DESIGN.md section 5 C07",
)

claim(
    "C08",
    "OWN+HND",
    "static: who-may rule over every read of a resource limit + handler discipline for ResourceLimitError",
    "Full structural decision in strict mode: each of the 16 reads of the five limits is (i) the "
    "limit side of `measure > limit` in an if that only raises a ResourceLimitError subclass, "
    "(ii) a None/falsy test that disables such a guard or selects the unlimited buffer, or (iii) "
    "the limit= of LimitedStringIO; LimitedStringIO.write only raises on size > limit; no handler "
    "that can catch a ResourceLimitError swallows or converts it. Hence a limited run is the "
    "unlimited run until a guard raises, and success is monotone in every limit — for every "
    "template, data and limit value.",
    "Strict mode only (lax/warn suppress limit errors by design, C03). A limit read in any new "
    "shape is reported for review.",
    "DESIGN.md section 5 C08",
)

claim(
    "C14",
    "TBL+FLOW+OWN",
    "static: scope-chain order tables, push/pop pairing, who-may rules for binding constructs",
    "Clauses: the three scope-chain constructions list their maps in the documented precedence "
    "order and RenderContext keeps the globals mapping it is given BY REFERENCE whenever one is "
    "given (the render tag fills the still empty, hence falsy, chain map after copying the "
    "context: `globals or {}` would drop its innermost bindings); ReadOnlyChainMap prepends on push, pops the front and scans front to back; the one "
    "scope push and the one loop-stack push are each followed by a try/finally that pops exactly "
    "once and nothing else pushes or pops; extend/loop are context managers used only as with "
    "items; for/tablerow/with/include/partials render their bodies inside extend/loop while "
    "assign/capture/snippet bind through context.assign into locals; include renders on the "
    "caller's context, never a copy; every lookup failure class in get/get_async/_resolve is "
    "converted to env.undefined or the caller's default. Necessary conditions of 'innermost "
    "binding wins, block names vanish after the block, include shares scope, missing -> undefined'."
    ' C14-ITEM: in both item getters element 0 is returned only for `first`, element -1 only for `last` (both only where the string guard is refuted by the path conditions), len() only for `size`, and the plain subscription only where the string_sequences guard is refuted.'
    " C14-HIT: on a cache hit the reused template carries exactly the globals of the current request (C23's cache-hit rule, re-keyed).",
    "Not decided: the value a particular path resolves to on particular data (dotted/bracketed/"
    "negative-index/size/first/last semantics are value-level).",
    "DESIGN.md section 5 C14",
)

claim(
    "C15",
    "FLOW",
    "static: provenance (flow) rule on the context handed to render/call bodies",
    "Full structural decision of what can reach an isolated context: render and call bodies run "
    "only on the result of context.copy(...) without block_scope; the namespace given to copy is "
    "built from the tag's evaluated arguments only; copy's isolated branch constructs the context "
    "from ReadOnlyChainMap(namespace, self.globals) with none of locals/scope/loops/tag_namespace/"
    "counters flowing into any constructor argument and nothing assigned afterwards; __init__ "
    "creates fresh locals/counters/loops/tag_namespace; render disables include, call disables "
    "include and block; Node.render* checks disabled tags before delegating and no node overrides "
    "it. Hence for every caller and every partial the partial cannot observe or modify caller "
    "locals, and cannot include.",
    "Assumes RenderContext.copy is the only child-context factory (C15-COPY requires exactly that "
    "at the two tags). Global data (template/environment globals) is visible by design.",
    "DESIGN.md section 5 C15",
)

claim(
    "C17",
    "OWN",
    "static: who-may rules over the enumerated state channels (memo sites, input mutation, AST mutation, module state)",
    "Full structural decision for the enumerated channels: lru_cache/cache only on the three "
    "configuration factories; no registered filter (80), evaluate*/render_to_output* method or "
    "context lookup mutates a value aliased to a parameter or an evaluation result (in-place "
    "methods, item/attribute stores, del, augmented assignment on the input sequence) unless a "
    "must-dataflow shows that, if it is a list at all, it is a list this call chain built itself "
    "(helpers assumed to build new lists, `flatten`, are verified; what each decorator wrapper "
    "hands to the filter is analysed; a conditional copy does not count); no method "
    "of the ~100 parse-tree classes stores to self outside __init__ and render-time code stores "
    "attributes only on caught exceptions and per-render objects; no module- or class-level "
    "container is mutated from a function; every render builds a new context from a copy of its "
    "arguments. These are all the ways one render could alter its inputs, the template or a later "
    "render, for every sequence of renders."
    ' C17-HITMISS: every <env>.loader.load* call passes globals=make_globals(...), so a cache hit and a miss bind the same globals. C17-SHARED: no function stores an attribute on an object taken out of storage that outlives the call (two open findings: cache hits rebind .globals of the shared cached template).',
    "Aliasing is tracked per function (a helper that mutates its own parameter is flagged at the "
    "helper, not the caller). Excluded by the property: current time, reloaded templates. The "
    "caching loaders' shared template objects are decided under C23.",
    "DESIGN.md section 5 C17",
)

claim(
    "C27",
    "FLOW",
    "static: shape/flow rules on WithNode, CallNode.render_to_output* and CallNode.macro_args",
    "Clauses: with-arguments are evaluated on the outer context before the namespace is pushed, "
    "the namespace is exactly {name: evaluated value}, and the block is rendered once, only inside "
    "`with context.extend(namespace)` (visibility limited to the block, shadowing by C14); the "
    "macro namespace exposes evaluated surplus positionals as args and surplus keywords as kwargs, "
    "binds each declared parameter to its evaluated argument or env.undefined(name); macro_args "
    "starts from parameter defaults, pairs positionals with parameters in declaration order, then "
    "applies keywords by name (surplus to excess_kwargs).",
    "Not decided: the values a particular call produces. The macro rules are anchored on the "
    "current shape of macro_args; an equivalent rewrite is reported for review.",
    "DESIGN.md section 5 C27",
)

claim(
    "C22",
    "FLOW",
    "static: taint/dominance of traversal guards over every path join in the two resolvers; who-may rule for file reads",
    "Full structural decision: in FileSystemLoader.resolve_path and PackageLoader._resolve_path the "
    "'..'-in-parts and is_absolute raise-guards hold for the current value of the path variable "
    "on every path reaching base.joinpath(x) (with_suffix preserves them, any other rebinding "
    "kills them), only the guarded candidate is returned, and with reject_symlinks the "
    "candidate.resolve().is_relative_to(base.resolve()) test precedes the return; get_source and "
    "get_source_async of the plain, caching and package loaders (through the MRO) read only from "
    "the resolver's return value; the resolvers raise nothing but TemplateNotFoundError "
    "(with_suffix behind a non-empty-name guard, file-system probes inside try/except OSError). "
    "Holds for every template name, which a sampled sandbox cannot show.",
    "Trusted: pathlib/importlib.resources semantics. Errors while reading an already resolved "
    "file (decode errors, deletion races) are outside 'a name that cannot be resolved'.",
    "DESIGN.md section 5 C22",
)

claim(
    "C10",
    "TBL",
    "static: the lexer's regex alternatives rebuilt from the AST with placeholder delimiters and parsed (re._parser), compared with the branches of _tokenize_template",
    "Clauses: for each markup alternative (raw, doc, comment, output, tag; both rule sets) the "
    "tokenizer branch sets the left-strip flag unconditionally from the named -? group that sits "
    "immediately before that alternative's final closing delimiter (endraw/enddoc for raw/doc), "
    "likewise when a comment block closes; the text rule's look-ahead carries the -? group after "
    "every opening delimiter and the text branch right-strips iff it matched and left-strips iff "
    "the flag is set, with no other and no partial strip operation in the lexer; the raw body is "
    "emitted unchanged; comment/doc/inline-comment nodes write nothing; content nodes write their "
    "token text verbatim. Necessary conditions of the property's whitespace-control and "
    "verbatim sentences for every source and every delimiter configuration."
    " C10-CURSOR: for every tag without a block, parse() returns with stream.current on the tag token, its verified expression token or the end of the stream on every path (four-state cursor typestate, sa/cursor.py), so the parser's next advance never skips the text, output statement or tag that follows.",
    "Not decided: regex alternation-order effects for pathological overlaps; the liquid tag's "
    "inner tokenizer (lines are trimmed there by design).",
    "DESIGN.md section 5 C10",
)

claim(
    "C21",
    "TBL+FLOW",
    "static: guarded-pop/subscript totality rule on the tag audit; parser end-sets vs DEFAULT_INNER_TAG_MAP vs declared end tags",
    "Totality: in TagAnalysis every list.pop() is dominated by an emptiness test, every "
    "non-slice subscript is on a defaultdict, and nothing is raised — so the audit returns for "
    "every token list. No false alarms / no misses: for each of the 15 registered block tags the "
    "inner tags its parser accepts (folded from the end-sets passed to parse_block and its "
    "is_tag/value tests, plus break/continue where the node handles the interrupts) equal "
    "DEFAULT_INNER_TAG_MAP[name]; each declares end == 'end'+name and parses to exactly that tag; "
    "block is declared iff the parser consumes a block; no memoised function reads a `.tags` "
    "register and _audit_tags reads env.tags through un-memoised code (the audit judges against "
    "the register the parser consults now, not a snapshot).",
    "The audit's own bookkeeping over arbitrary interleavings of block/end tags beyond these "
    "table agreements is not decided. Token lists are those the lexer produces.",
    "DESIGN.md section 5 C21",
)

claim(
    "C12",
    "TBL",
    "static: operator/precedence tables, Pratt-loop shape, comparator operand-order formulas and truthiness discipline on the AST",
    "Clauses: every binary operator has a precedence and exactly one parse_infix_expression "
    "branch building its own expression class from (token, left, right operand parsed at that "
    "precedence); and/or share one precedence below the comparison operators and the Pratt loop "
    "breaks only on strictly lower precedence (right grouping), parentheses gated by the feature "
    "flag; each comparison class's evaluate and evaluate_async reduce to the formula its symbol "
    "means (`>` is _lt(r, l), `<=` is _eq or _lt(l, r), ...); is_truthy is `not (obj is False or "
    "obj is None)` with undefined false, and every Python-truthiness test on an evaluated "
    "expression in a node/expression is on a field filled from BooleanExpression.parse; _lt and "
    "_contains end in LiquidTypeError, booleans excluded before numbers."
    ' The kind table of _lt is decided for all 81 pairs of operand kinds by a three-valued run: numbers of any int/float/Decimal mix and two strings reach the comparison only, a bool gives False, every other pair reaches the LiquidTypeError only.',
    "Not decided: the result tables of _eq/_lt/_contains/empty/blank for particular operand values.",
    "DESIGN.md section 5 C12",
)

claim(
    "C16",
    "TBL+KINDS",
    "static: table agreement between Undefined's implicit-protocol methods and the strict subclasses' overrides; context-sensitive kind inference (the exception-escape engine's flow) for raw equality with possibly-undefined values",
    "Clause (second sentence of the property): each of Undefined's protocol methods (contains, eq, "
    "getitem, len, iter, str, int, hash, reversed) and __bool__ is overridden in StrictUndefined by "
    "a body that only raises UndefinedError; __getattribute__ raises for every name outside "
    "allowed_properties, which contains no protocol method; Undefined itself never raises and "
    "returns the empty values; FalsyStrictUndefined relaxes exactly __bool__/__eq__; "
    "StrictDefaultUndefined only adds force_liquid_default; the context builds missing values only "
    "through env.undefined(...). First sentence, the part whose truth is in the shape of the code: "
    "__eq__ is the only relaxed method on which Undefined and FalsyStrictUndefined answer "
    "differently (None vs False), so no raw ==/!=/in/.index/.count reachable from render may put "
    "a possibly-undefined data value next to a possibly nil/bool/undefined one unless "
    "is_undefined excludes it on that path or both operands were unwrapped through __liquid__() "
    "(C16-RAWEQ); handlers that would swallow UndefinedError are listed (C16-SWALLOW)."
    " C16-MISSING: the item getters leave only through KeyError/TypeError/IndexError (what RenderContext.get* turn into the undefined value); the 'first pair of a mapping' next() runs only for a non-empty object."
    ' The code that runs after a failed lookup (building the undefined value and its hint) cannot raise either: escape-engine findings sited in RenderContext.get*/_segments_str are C16-MISSING findings.',
    "Not decided: the rest of the first sentence (equal output of a strict render that succeeds) — "
    "value level. Kind inference treats values of unknown kind as not armed.",
    "DESIGN.md section 5 C16",
)

claim(
    "C19",
    "TBL",
    "static: per node/expression class, fields used while rendering ⊆ fields reported to the analyser; analyser visit shape",
    "Clause (what a node renders ⊆ what it reports): for each of the ~35 node classes every "
    "expression field evaluated or resolved while rendering is mentioned by expressions() (or "
    "reached through child nodes it yields), every rendered child/block by children(), and every "
    "name the node claims to bind (block_scope/template_scope/partial_scope) is really bound by "
    "its render method; for each expression class every evaluated sub-expression is returned by "
    "children() — under no condition other than on that field itself (path conditions; a loop "
    "over several fields must not break or return) —; every filters slot is read by _extract_filters; the analyser's visit collects "
    "tags, expressions, scopes and children of every node. 2 open findings (implicit "
    "`translations` read; inline-snippet name) are listed in known_findings.jsonl."
    ' C19-BALANCE: every scope frame _visit pushes is popped on every path before it returns. C19-KEY also reports partial names that collapse to a constant and shared-scope partials without a key (two open findings).'
    " C19-SCOPE also decides conditional claims: partial_scope() adds the bound variable's name only under the guard its render method binds it under.",
    "Not decided: the analyser's scope bookkeeping and partial de-duplication over visit "
    "histories (a partial first visited inside a loop is not revisited outside it — recorded in "
    "DESIGN.md, not detectable by a shape rule). Sync/async parity: C01.",
    "DESIGN.md section 5 C19",
)

claim(
    "C20",
    "TBL",
    "static: value-group / offset-group / source agreement at every Token construction; provenance of every Span; guard shape of error formatting",
    "Clauses: at each of the 13 Token constructions of the template lexer, expression tokenizer "
    "and liquid-tag tokenizer the offset is taken from the same regex group as the value (whole "
    "match for match.group()), with the parent token's start_index added exactly when the source "
    "is the parent's source; the text handed to finditer is the tokenizer's own parameter and is "
    "never rebound (offsets are relative to the text the caller holds); every Span in static analysis and tag analysis is located at the "
    "token of the very item whose name keys the report and names the template being visited; "
    "error formatting indexes the token's own source only after the start_index < 0 guard, and "
    "every parse-time LiquidError raise passes token=."
    ' The line scan of LiquidError._error_context (lengths from splitlines(keepends=True)) is decided too, so formatting an error never fails for a lexer token.',
    "Reviewed rows: quoted literals (string, ['ident'], [index]) carry the inner group as value "
    "and the start of the whole literal as offset — pinned by the existing test-suite. Text "
    "tokens are not reported items.",
    "DESIGN.md section 5 C20",
)

claim(
    "C04",
    "TBL",
    "static: symbolic skeletons of every __str__ (constants kept, values -> holes) checked against the tag registry and the parsers' keyword sets; field-coverage and bracket-rule tables",
    "Clauses (necessary conditions of a meaning-preserving round trip): every standard node and "
    "expression class has a serialiser that reads every slot its render/evaluate reads; each "
    "node's skeleton is markup and whitespace only, opens with its tag name and, for block tags, "
    "closes with its end tag; every keyword a serialiser writes is one the matching parser tests "
    "for (reader/writer agreement, ~70 serialisers); strings and quoted path segments are written "
    "verbatim without Python escapes, floats positionally, cycle groups through their expression, "
    "the path root through the same branches as other segments; a string path segment is written "
    "in dot notation only under a WHOLE-segment test against a pattern whose every match is one "
    "WORD token of the expression tokenizer (exact character-class inclusion over all code "
    "points, sa/rx.py) and that is not a tokenizer keyword; the logical-expression "
    "serialiser brackets with the parser's binding powers (and/or equal, right grouping, not as "
    "operand, comparisons included). 3 open findings (nil/empty/blank print '') are listed."
    " C04-VERBATIM: a node that keeps source text (the content node's text, the liquid tag's expression token) writes it back through copies, f-strings, concatenation and whole-text strip only."
    ' C04-TOKEN: no evaluate/render method reads the kind or text of the token a sub-expression was parsed from.',
    "Not decided: equality of the re-parsed tree / identical rendering for every template. The "
    "C04-PREC rule reads the bracket test of BooleanExpression.__str__ disjunct by disjunct in "
    "canonical form; a differently factored but equivalent rule is reported for review. Extra "
    "(non-standard) tags without __str__ are outside the property.",
    "DESIGN.md section 5 C04",
)

claim(
    "C18",
    "FLOW",
    "static: dominance/ordering of the inheritance cut-offs and shape of the block-stack selection",
    "Clauses: extends builds the stacks from the current template, renders the base and ends "
    "every path in raise StopRender, which render_with_context* turns into break (nothing after "
    "extends renders except through blocks); each parent name is tested against and added to a "
    "fresh `seen` set before it is loaded, with TemplateInheritanceError on repeat, and the walk "
    "moves strictly upwards; on EVERY path that reaches _store_blocks or a return of "
    "_stack_blocks (a base template included) more than one extends tag and duplicate block names "
    "have been rejected (must-dataflow); "
    "BlockTag.parse rejects a mismatched endblock name; stacks are per block name, leaf first, "
    "linked parentwards; a block renders block_stack[0] with parent = that item's parent and "
    "block.super renders exactly one step up; RequiredBlockError is raised on the direct and the "
    "stacked path before rendering and `required` is cleared only under a more derived override."
    " C18-SCOPE: copy(block_scope=True) chains the new context's scope to the caller's live self.scope after the new locals and the block namespace, so a block nested in a loop or another block reads what the root's block would read there.",
    "Not decided: the output of particular chains (value level). Sync/async parity: C01.",
    "DESIGN.md section 5 C18",
)

claim(
    "C24",
    "FLOW",
    "static: lock coverage of every shared-map access, eager materialisation under the lock, structural LRU-order conditions",
    "Clauses: each LRUCache method that touches the shared OrderedDict is overridden in "
    "ThreadSafeLRUCache with every access inside `with self._lock` (get delegates to the locked "
    "__getitem__; a single len() is GIL-atomic); every override whose base returns a lazy view "
    "(reversed/iter) copies it into a list while the lock is held, so listing cannot observe a "
    "concurrent mutation; reads move the key to the recent end, writes of an existing key move "
    "it, a new key evicts popitem(last=False) iff len >= capacity before inserting, listings are "
    "reversed (most recent first), capacity >= 1; the caching loaders build the thread-safe "
    "variant when asked.",
    "Not decided: the complete sequential LRU semantics over operation histories (value level); "
    "fairness/liveness of the lock.",
    "DESIGN.md section 5 C24",
)

claim(
    "C06",
    "FLOW",
    "static: every data-driven repetition of a block in a render method must be lexically inside a limit-checking, length-exporting context manager; shape of the limit arithmetic and carry",
    "Full structural decision of 'every construct that repeats a block contributes its length': "
    "in all node render methods each for-statement/comprehension over a non-template value whose "
    "body renders a child (for, tablerow, include-with-array, render-for; sync and async) is "
    "inside `with ctx.loop(ns, forloop)` or `with ctx.iterations(n)` whose length is that of the "
    "iterated value; no tag calls raise_for_loop_limit without exporting; loop/iterations check "
    "first, export (push / multiply the carry) and undo in finally; raise_for_loop_limit compares "
    "the product of stack lengths, the new length and the carry with `>` and raises "
    "LoopIterationLimitError; copy(carry_loop_iterations=True) carries the product into every "
    "context it builds and render, call and block request it. Hence no block runs while the "
    "product of enclosing lengths exceeds N, for every nesting.",
    "Repetitions over fields of the parsed template are source-bounded; MultiExpressionBlockNode "
    "(once per matching when-alternative) is a reviewed source-bounded row. Custom tags are out "
    "of scope.",
    "DESIGN.md section 5 C06",
)

claim(
    "C05",
    "FLOW+OWN",
    "static: closed classification of every output sink and every Markup construction, must-escape flow rule, registration table",
    "Clauses: every buffer.write in a node's render method writes a constant, its own template "
    "text, to_liquid_string(value, autoescape flag), an integer counter, already-rendered output "
    "of a get_buffer buffer, or the translate tag's Markup % escaped-values; to_liquid_string "
    "ends every path in escape(val) under autoescape and joins lists through Markup('').join; "
    "each of the 21 Markup()/Markupsafe() constructions is a reviewed row (constant, template "
    "literal, escaped-then-constant-substituted, closed-alphabet encoder, already Markup, "
    "consumed by unescape, rendered output, or a filter the property excludes) together with "
    "the code facts each row relies on; only StringLiteral.evaluate marks an evaluated value safe "
    "and StringLiterals are built from token text only; translate filters are registered with "
    "autoescape_message=env.autoescape and pass only stringified-and-escaped values to gettext "
    "on every path; every to_liquid_string call receives the context/environment flag.",
    "Trusted: markupsafe's contract (Markup operations escape non-Markup operands). Not decided: "
    "fragments of already-safe markup cut by slice/truncate (no < > \" ' can result). A new "
    "Markup construction or sink is reported for review, by design.",
    "DESIGN.md section 5 C05",
)

claim(
    "C11",
    "FLOW+TBL+OWN",
    "static: taint of delimiter parameters into regex patterns; name-by-name plumbing tables of the memoised factories; literal scan; identity rules",
    "Clauses: the six delimiter parameters reach the lexer's patterns only through re.escape; "
    "they keep name and position through Environment.tokenizer -> get_lexer -> "
    "compile_liquid_rules / _tokenize_template, Environment.__init__ stores each under its own "
    "name, Template() forwards every configuration keyword under its own name to "
    "get_implicit_environment and that to Environment() (so each lru_cache key is the whole "
    "configuration); no lexing/tokenising function contains a hard-coded delimiter outside "
    "parameter defaults; Environment defines no __eq__ and hashes delimiters+mode, Parser keeps "
    "only env, every attribute a Tag stores derives from its env, parsing uses get_parser(self), "
    "self.tokenizer() and a fresh TokenStream; the liquid tag's line-comment marker (derived from "
    "comment_start_string) reaches its line pattern through re.escape, is tried before any "
    "alternative that can start with a word character, is closed by a word boundary for markers "
    "ending in a word character, and a line is skipped exactly when the captured name equals the "
    "unescaped marker (C11-MARKER, decided on the parsed regex)."
    ' C11-MEMO: a delimiter-taking function that memoises by hand indexes the memo by the tuple of its delimiter parameters (lru_cache does by construction).',
    "Not decided: output equality under delimiter rewriting as such. Reviewed row: the liquid "
    "tag derives its line-comment marker from comment_start_string (documented). Shared mutable "
    "module state is decided under C17-MODULE.",
    "DESIGN.md section 5 C11",
)

claim(
    "C26",
    "FLOW",
    "static: taint rule (printf-formatting only of %-doubled message text), count-test lint, null-fallback shapes",
    "Clauses: the only printf-style % in the translate filters formats a copy of the message in "
    "which every percent sign that does not start a %(name)s placeholder was doubled by "
    "re_percent.sub on every path, and the tag's message is assembled from "
    "text.replace('%','%%') and %(var)s pieces only; placeholders are found with re_vars and "
    "replaced by to_liquid_string(context.resolve(name)); the plural count is tested with "
    "`is None` (never truthiness, never membership in a tuple containing booleans), defaults as "
    "documented and is passed last to ngettext/npgettext; tag and filters fall back to "
    "NullTranslations(); whitespace is collapsed only when trim_messages is set."
    ' C26-UNDOUBLE: at every return of _format_message / format_message the text has been %-formatted exactly as often as its percent signs were doubled.',
    "Trusted: gettext.NullTranslations (singular iff n == 1). A float count is truncated by "
    "int() before it reaches ngettext (1.5 -> singular) — value-level, not decided.",
    "DESIGN.md section 5 C26",
)

claim(
    "C13",
    "HND+FLOW+TBL",
    "static: who raises/catches the loop interrupts, sign facts of the islice bounds, None-tests of limit/offset, helper formula tables",
    "Clauses: BreakLoop/ContinueLoop are raised only by the break/continue nodes and caught only "
    "by for (as break/continue around each item's render), tablerow (interrupts flag) and, as "
    "LiquidInterrupt, at template roots; both islice bounds in _slice are clamped into "
    "[0, length] and only `stop is None` means 'to the end'; limit/offset/start/stop are never "
    "tested by truthiness or defaulted with `or` (other than `or 0`); the reported length is "
    "max(stop-start, 0), offset:continue uses the stop index stored under identifier-iterable, "
    "reversed applies to the sliced items, for renders else iff the sliced length is 0; forloop "
    "and tablerowloop helpers are the documented formulas of the running index, and they are "
    "constructed from what they describe (C13-BIND): `it` / `length` receive the (iterator, "
    "length) pair returned by the loop expression, `ncols` the cols value (or the length when "
    "there is none), by parameter name, in both twins, and each constructor stores them under "
    "the attribute the formulas read."
    ' C13-BLANK: the loop nodes derive `blank` from every block they render, so the else output is never suppressed.'
    ' C13-ITER: every exit of _to_iter returns an iterator with exactly its number of items, and a scalar is one item only where it is known non-empty.',
    "Not decided: which items a particular collection/limit/offset combination yields, helper "
    "values along a run, tablerow HTML geometry for every cols value (value level).",
    "DESIGN.md section 5 C13",
)

claim(
    "C09",
    "PRG+STK",
    "static: parser-loop progress and end-of-stream exit by abstract interpretation of each loop; depth guards on call-graph cycles; worst-case frame budget",
    "Clauses: each of the 22 parse-time while loops consumes a token on every path back to its "
    "head (callee summaries 'consumes on every normal return' are derived bottom-up) and exits on "
    "every path of an abstract iteration run at end of stream; the token stream is a finite list "
    "whose position only advances; parse_block / extend / copy have the depth-guard shape and "
    "the liquid tag carries the block depth; every cycle of the resolved call graph (1456 "
    "resolved call edges) contains Parser.parse_block, or is a structural walk of the finite "
    "tree in which every render of a block found at run time (partial, macro, parent block) is "
    "on a context.copy or under context.extend; the worst-case frame count from the call graph "
    "and the default limits is compared with CPython's recursion limit. 4 open findings: three "
    "unguarded expression-parser recursions and the default stack budget (6816 > 1000)."
    ' C09-FUNNEL: a handler around self._parse(source) in from_string catches RecursionError and raises a LiquidError, so a parse that does exhaust the stack (the listed findings) is reported as a template error.',
    "Not decided: regular-expression matching cost ('promptly'); loops over render data (finite "
    "iterables); termination of user-supplied drops/filters. Call resolution is by role table and "
    "method name; unresolved calls (builtins) are counted in the evidence.",
    "DESIGN.md section 5 C09",
)

claim(
    "C02",
    "EXC",
    "static exception-escape analysis: kind inference (must-not facts over a structured dataflow) x closed risk-primitive table, handler subtraction over the exception hierarchy, context-sensitive summaries over the resolved call graph incl. the filter registry through its decorator wrappers",
    "Full structural decision for the armed primitive table under stated assumptions: no "
    "(primitive site, non-Liquid exception class) pair escapes BoundTemplate.render / render_async "
    "— every pair the kind lattice cannot discharge is a hand-reviewed row (value-level argument "
    "recorded, several with machine-checked side conditions) or a listed open finding; parse-time "
    "exceptions are funnelled by Environment.from_string's catch-all (shape checked, escape set of "
    "from_string empty) and TypeError from any filter body by the decorator wrappers and "
    "Filter.evaluate* (shape checked). A new unguarded int()/float()/Decimal()/math.*/division/"
    "subscript/decode/encode/fromtimestamp/strftime/islice/next/assert/%-format/raise of a "
    "builtin exception on data-kinded values anywhere reachable from render is reported with its "
    "witness chain; a narrowed or removed handler re-exposes the sites it covered. RecursionError "
    "at render time (nothing converts it there) is decided through the render-side depth rules "
    "shared with C09 (C02-RECURSION): both ContextDepthError guards, copy_depth + 1 on every "
    "context copy builds, every run-time-found block rendered under a guard, and the frame budget "
    "(the last is a listed open finding)."
    ' f-string interpolation of a possibly huge int is armed as a str(int) site; reviewed rows about `next()` on the first pair of a mapping and `_segments_str` carry machine-checked side conditions (non-empty object; first segment known to be a str, followed through private helpers).',
    "Trusted: the primitive table (CPython/stdlib documented behaviour; dateutil, babel and pytz "
    "rows are trusted) and the kind transfer table in sa/kinds.py; name-based method resolution "
    "(over-approximate) with arity filtering; the reviewed rows in sa/props/c02.py. Out of scope: "
    "user drops/custom filters, AttributeError/TypeError on values of unknown kind, "
    "MemoryError, third-party internals beyond the trusted rows.",
    "DESIGN.md section 4 (EXC), section 5 C02, Appendix A",
)
