# Claims table consumed by tools/gen_manifest.py (claim(...) / na(...) are defined there).
# One entry per property; properties without an entry are listed as not_applicable
# with a "not built yet" reason so that MANIFEST.json is valid at all times.

claim(
    "C01",
    "SIB",
    "static sibling-equivalence: ast normal forms of every sync/async pair compared; MRO pairing rule",
    "Full structural decision under stated assumptions: each of the 79 m/m_async pairs in liquid/ "
    "(methods, module functions, nested defs) has identical normal forms after erasing the async "
    "surface, is in delegation form, or is one of 6 reviewed-equivalence rows pinned by diff digest; "
    "no class takes m and m_async from different MRO owners; no built-in implements the optional "
    "async data protocols. Identical code modulo await => identical result or exception for every "
    "template, data and loader (induction on call depth). Holds for all inputs, which sampling "
    "tests cannot give; an edit to one sibling only is reported with the diff.",
    "Trusted: the normaliser (sa/engines/sib.py) erases only await/async/_async-suffix, "
    "docstrings, annotations, local names, keyword order, eager-consumer comprehension kind, "
    "single-use temporaries, run_in_executor wrappers; the 6 reviewed rows (reasons in "
    "sa/props/c01.py); single-task execution; render data without __getitem_async__/filter_async.",
    "DESIGN.md section 4 (SIB), section 5 C01",
)

na(
    "C25",
    "every clause relates returned values to argument values (lengths, membership, arithmetic "
    "exactness, truncation bounds); no shape of the code implies them, and the only structural "
    "fragment (array filters return new lists) is the no-mutation rule claimed under C17",
)

claim(
    "C23",
    "SIB+FLOW",
    "static: sibling equivalence of the caching mixin + parameter-binding/flow rules on its AST",
    "Clauses only (the behaviour over request histories is not decided): (1) load/load_async and "
    "_check_cache/_check_cache_async are one program modulo await; (2) the value of "
    "cache_key(name, context, kwargs) is the only cache key and the requested name is what reaches "
    "the wrapped loader, with globals/context/kwargs forwarded; (3) _check_cache* reads/writes the "
    "cache only under its key, stores and returns exactly what load_func() returned or returns the "
    "object read, consults is_up_to_date* iff auto_reload, and gives a hit exactly the current "
    "request's globals; (4) a namespaced key contains both namespace and name, keyword before "
    "context; (5) every Caching* class takes load* from the mixin; (6) every uptodate kind a wrapped "
    "loader stores is consumable by both the sync and the async freshness check (interleaving). "
    "Each is a necessary condition of 'same name, source and behaviour as the non-caching loader, "
    "namespaces never substituted, changed source picked up, request globals apply'.",
    "Not decided: LRU order/eviction interplay and reload timing over histories (value level). "
    "Shape rules are anchored on CachingLoaderMixin's current structure; a restructured but "
    "equivalent _check_cache would be reported for review.",
    "DESIGN.md section 5 C23",
)
