#!/venv/bin/python
"""Regenerate the generated sections of DESIGN.md (between ``<!-- BEGIN GENERATED:x -->`` and
``<!-- END GENERATED:x -->`` markers) from the committed records:

  seeds    /verif/seeded/*/meta.json      which checks catch which seeded change
  benign   /verif/benign/*/meta.json      behaviour-preserving patches and whether a check fired
  findings /verif/known_findings.jsonl    open findings and repaired defects
  rules    /verif/evidence/*.json         rules and obligation counts per property (last run)
"""
from __future__ import annotations

import glob
import json
import os
import re

V = "/verif"


def seeds_md() -> str:
    rows = []
    for f in sorted(glob.glob(f"{V}/seeded/*/meta.json")):
        m = json.load(open(f))
        fired = m.get("checks_that_fire", {})
        own = m["property"] in fired
        rules = []
        for rep in fired.get(m["property"], {}).get("report", []):
            mm = re.search(r"\[(C\d\d-[A-Z]+)\]", rep)
            if mm and mm.group(1) not in rules:
                rules.append(mm.group(1))
        others = sorted(k for k in fired if k != m["property"])
        hist = m.get("history", "")
        rows.append(
            f"| {m['name']} | {m.get('change', '')[:150].replace('|', '/')} | {m.get('needs_to_manifest', '')[:130].replace('|', '/')} | "
            f"{'yes: ' + ', '.join(rules) if own else '**no**'} | {', '.join(others) or '—'} | {hist} |"
        )
    head = "| seed | change | needs, to manifest | caught by its own property's check (rule) | other checks that fire | first evaluation |\n|---|---|---|---|---|---|\n"
    return head + "\n".join(rows) + "\n"


def benign_md() -> str:
    rows = []
    for f in sorted(glob.glob(f"{V}/benign/*/meta.json")):
        m = json.load(open(f))
        for pf, rec in sorted(m.get("patches", {}).items()):
            if rec.get("usable") is False:
                continue
            fired = sorted(rec.get("checks_that_fire", {}))
            verdict = rec.get("verdict", "")
            rows.append(f"| {m['name']}/{pf} | {rec.get('kind', '')} | {rec.get('summary', '')[:160].replace('|', '/')} | {', '.join(fired) or 'silent'} | {rec.get('first_evaluation', '')} | {verdict} |")
    head = "| patch | kind | summary | checks that fire now | first evaluation | note |\n|---|---|---|---|---|---|\n"
    return head + "\n".join(rows) + "\n"


def findings_md() -> str:
    open_, fixed = [], []
    for line in open(f"{V}/known_findings.jsonl"):
        line = line.strip()
        if not line or line.startswith("#"):
            continue
        if line.startswith("fixed:"):
            m = re.match(r"fixed: property=(C\d+) (\w+) (.*)", line)
            if m:
                fixed.append(m.groups())
            continue
        rec = json.loads(line)
        if rec.get("status") == "open":
            open_.append(rec)
    out = ["**Open (printed as KNOWN-FINDING, exit 0):**\n"]
    for r in open_:
        out.append(f"* `{r['property']}` `{r['key']}` — {r['what'][:400]}")
    out.append("\n**Repaired by `fix:` commits in /repo (suppress nothing):**\n")
    out.append("| property | commit | what failed |\n|---|---|---|")
    for p, c, w in fixed:
        out.append(f"| {p} | {c} | {w[:300].replace('|', '/')} |")
    return "\n".join(out) + "\n"


def rules_md() -> str:
    rows = []
    for f in sorted(glob.glob(f"{V}/evidence/C*.json")):
        e = json.load(open(f))
        cov = e["coverage"]
        rows.append(f"| {e['property_id']} | {', '.join(cov.get('rules', []))} | {cov.get('obligations')} | {cov.get('distinct_nontrivial')} | {cov.get('undischarged_listed_as_known_findings')} | {e.get('wall_s')} |")
    return "| id | rules | obligations | constructs | known findings hit | wall s |\n|---|---|---|---|---|---|\n" + "\n".join(rows) + "\n"


def rulesdoc_md() -> str:
    import ast as _ast

    out = []
    for f in sorted(glob.glob(f"{V}/sa/props/c*.py")):
        doc = _ast.get_docstring(_ast.parse(open(f).read())) or ""
        pid = os.path.basename(f)[:-3].upper()
        out.append(f"#### {pid} (`sa/props/{os.path.basename(f)}`)\n\n```\n{doc}\n```\n")
    for f in sorted(glob.glob(f"{V}/sa/engines/*.py")) + [f"{V}/sa/kinds.py", f"{V}/sa/symb.py", f"{V}/sa/lexmodel.py", f"{V}/sa/callgraph.py", f"{V}/sa/flow.py"]:
        if f.endswith("__init__.py"):
            continue
        doc = (_ast.get_docstring(_ast.parse(open(f).read())) or "").strip()
        if doc:
            out.append(f"#### `{f.replace(V + '/', '')}`\n\n```\n{doc}\n```\n")
    return "\n".join(out)


def main():
    p = f"{V}/DESIGN.md"
    s = open(p).read()
    for name, fn in (("seeds", seeds_md), ("benign", benign_md), ("findings", findings_md), ("rules", rules_md), ("rulesdoc", rulesdoc_md)):
        a, b = f"<!-- BEGIN GENERATED:{name} -->", f"<!-- END GENERATED:{name} -->"
        if a in s and b in s:
            i, j = s.index(a) + len(a), s.index(b)
            s = s[:i] + "\n" + fn() + s[j:]
    open(p, "w").write(s)


if __name__ == "__main__":
    main()
