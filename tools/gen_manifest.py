#!/venv/bin/python
"""Regenerate /verif/MANIFEST.json from the table below (keeps it valid at all times).

Run:  /venv/bin/python tools/gen_manifest.py   (then: python3-vt tools/validate.py)
"""

from __future__ import annotations

import json
import os
import subprocess

HERE = os.path.dirname(os.path.dirname(os.path.abspath(__file__)))
PY = "/venv/bin/python"

# property id -> dict(technique, text, note, design_ref, engine)
CLAIMS: dict[str, dict] = {}
NOT_APPLICABLE: dict[str, str] = {}


def claim(pid, engine, technique, text, note, design_ref):
    CLAIMS[pid] = dict(engine=engine, technique=technique, text=text, note=note, design_ref=design_ref)


def na(pid, reason):
    NOT_APPLICABLE[pid] = reason


exec(open(os.path.join(HERE, "tools", "claims.py"), encoding="utf-8").read())  # noqa: S102


def main():
    props = [json.loads(l)["id"] for l in open(os.path.join(HERE, "properties.jsonl"))]
    for p in props:
        if p not in CLAIMS and p not in NOT_APPLICABLE:
            NOT_APPLICABLE[p] = (
                "no static rule built for this property yet in this round "
                "(see DESIGN.md section 0 for the planned rule); not claimed"
            )
    hooks_commits = []
    engines = {}
    checks = []
    for pid in props:
        if pid not in CLAIMS:
            continue
        c = CLAIMS[pid]
        engines.setdefault(c["engine"], []).append(pid)
        checks.append(
            {
                "property_id": pid,
                "quick_cmd": f"{PY} -m sa.check {pid} --tier quick",
                "thorough_cmd": f"{PY} -m sa.check {pid} --tier thorough",
                "evidence_file": f"/verif/evidence/{pid}.json",
                "replay_cmd_template": f"{PY} -m sa.check {pid} --replay {{path}}",
                "engine": c["engine"],
                "level_claimed": {
                    "category": "other",
                    "text": c["text"],
                    "design_ref": c["design_ref"],
                },
                "level_note": c["note"],
                "technique": c["technique"],
            }
        )
    manifest = {
        "version": 1,
        "setup_cmd": "true",
        "hooks": {
            "guard": "LIQUID_VERIF",
            "enable": "no hooks: the checks only parse /repo/liquid/**/*.py with the stdlib ast "
            "module; nothing in /repo is instrumented, imported or executed",
            "baseline_off_cmd": "cd /repo && /venv/bin/python -m pytest -ra -q -p no:cacheprovider "
            "--timeout=900 --continue-on-collection-errors",
            "source_commits": hooks_commits,
            "add_only": True,
        },
        "engines": [
            {
                "name": name,
                "path": f"/verif/sa/engines/{name.split('+')[0].lower()}.py",
                "serves_properties": pids,
                "kind_free_text": ENGINE_KINDS.get(name, "static analysis over the ast of /repo/liquid"),
            }
            for name, pids in sorted(engines.items())
        ],
        "checks": checks,
        "notes": "Technique family: static analysis only (stdlib ast; see DESIGN.md). "
        "Exit 0 = all rule instances hold or are listed in known_findings.jsonl (printed as "
        "KNOWN-FINDING); exit 1 = unlisted violation (VIOLATION line + JSON report); "
        "exit 2 = ANALYSIS-ERROR (anchor missing / checker crashed) — never a silent pass. "
        "Thorough tier = the same rules plus a mutation self-test of the rules on in-memory "
        "variants of the tree.",
        "not_applicable": [
            {"property_id": p, "reason": NOT_APPLICABLE[p]} for p in props if p in NOT_APPLICABLE
        ],
    }
    with open(os.path.join(HERE, "MANIFEST.json"), "w", encoding="utf-8") as fd:
        json.dump(manifest, fd, indent=1)
        fd.write("\n")
    print(f"MANIFEST.json: {len(checks)} checks, {len(manifest['not_applicable'])} not_applicable")


ENGINE_KINDS = {
    "SIB": "sibling equivalence: normal forms of sync/async AST pairs compared for identity",
    "EXC": "exception-escape analysis with kind inference over the resolved call graph",
    "HND": "exception-handler discipline and dispatcher shape",
    "TBL": "agreement of literal tables / sibling implementations extracted from the AST",
    "FLOW": "must-pass-through / dominance / taint rules on per-function statement CFGs",
    "OWN": "who-may rules: every syntactic occurrence of a sensitive operation is in its allowed owner with the allowed shape",
    "PRG": "parser-loop progress (token consumption on every back edge, exit at EOF)",
    "STK": "recursion guards on call-graph cycles and worst-case stack budget",
}

if __name__ == "__main__":
    main()
