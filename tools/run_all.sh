#!/bin/sh
# Run every claimed check (quick by default; pass "thorough" for the thorough tier).
cd /verif || exit 2
tier=${1:-quick}
rc=0
for p in $(/venv/bin/python -c "import json;print(' '.join(c['property_id'] for c in json.load(open('MANIFEST.json'))['checks']))"); do
  /venv/bin/python -m sa.check $p --tier $tier ${2:-} | grep -v '^KNOWN-FINDING' | tail -3
  s=$?
done
