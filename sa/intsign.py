"""What is known on every path that reaches an expression inside a loop body — with a sign domain
for nesting counters.

``facts_reaching(fn, target)`` enumerates the paths of one iteration of the innermost loop around
``target`` (from the top of the loop body to the statement that contains ``target``) and returns
the set of ``(test text, outcome)`` facts that hold on *all feasible* paths, tests about locals
rewritten through the definitions those locals received on the path (``name = match.group("name")``
then ``name == "endcomment"`` is the fact ``match.group('name') == 'endcomment'``).

Feasibility uses one small numeric argument.  A *nesting counter* is an int local that the whole
function only ever sets to 0, increments by one or decrements by one.  At the top of an iteration
it is zero or positive — provided no decrement can run while it is zero, which the same run checks
(a decrement reached with a possibly-zero counter makes the analysis give up: ``None``).  ``if c:``
/ ``if not c:`` split the abstract value {Z, P}; ``c += 1`` maps Z,P to P; ``c -= 1`` maps P to
{Z, P}.  So "the counter was positive, and after this branch it is zero" is feasible only through
the decrementing branch — which is how ``if depth: ...; if depth: continue; <closing code>`` is
known to reach the closing code only for the tag that decremented.
"""

from __future__ import annotations

import ast
from typing import Optional

from .astutil import is_name, text
from .guards import _mentions, stored_in
from .model import walk_no_nested


def _counters(fn: ast.AST) -> set[str]:
    ok: dict[str, bool] = {}
    for n in ast.walk(fn):
        tg = val = op = None
        if isinstance(n, ast.Assign) and len(n.targets) == 1 and isinstance(n.targets[0], ast.Name):
            tg, val = n.targets[0].id, n.value
            good = isinstance(val, ast.Constant) and val.value == 0 and not isinstance(val.value, bool)
        elif isinstance(n, ast.AnnAssign) and isinstance(n.target, ast.Name) and n.value is not None:
            tg, val = n.target.id, n.value
            good = isinstance(val, ast.Constant) and val.value == 0 and not isinstance(val.value, bool)
        elif isinstance(n, ast.AugAssign) and isinstance(n.target, ast.Name):
            tg = n.target.id
            good = isinstance(n.op, (ast.Add, ast.Sub)) and isinstance(n.value, ast.Constant) and n.value.value == 1
        elif isinstance(n, (ast.For, ast.AsyncFor)):
            for x in ast.walk(n.target):
                if isinstance(x, ast.Name):
                    ok[x.id] = False
            continue
        else:
            continue
        ok[tg] = ok.get(tg, True) and good
    # must have a decrement and an increment to be a nesting counter
    inc = {n.target.id for n in ast.walk(fn) if isinstance(n, ast.AugAssign) and isinstance(n.target, ast.Name) and isinstance(n.op, ast.Add)}
    dec = {n.target.id for n in ast.walk(fn) if isinstance(n, ast.AugAssign) and isinstance(n.target, ast.Name) and isinstance(n.op, ast.Sub)}
    return {k for k, v in ok.items() if v and k in inc and k in dec}


class _GiveUp(Exception):
    pass


def facts_reaching(fn: ast.AST, target: ast.AST) -> Optional[set[tuple[str, bool]]]:
    loop = None
    for n in ast.walk(fn):
        if isinstance(n, (ast.For, ast.AsyncFor, ast.While)) and any(x is target for x in ast.walk(n)):
            if loop is None or any(x is n for x in ast.walk(loop)):
                loop = n
    body = loop.body if loop is not None else fn.body
    counters = _counters(fn)
    results: list[set[tuple[str, bool]]] = []

    def contains(st: ast.AST) -> bool:
        return any(x is target for x in ast.walk(st))

    def resolve(e: ast.AST, env: dict) -> str:
        class R(ast.NodeTransformer):
            def visit_Name(self, n):
                return env[n.id] if isinstance(n.ctx, ast.Load) and n.id in env else n

        import copy

        return text(R().visit(copy.deepcopy(e)))

    def atoms(t: ast.AST, outcome: bool):
        """the (atomic test, outcome) pairs known when ``t`` evaluates to ``outcome``"""
        if isinstance(t, ast.UnaryOp) and isinstance(t.op, ast.Not):
            return atoms(t.operand, not outcome)
        if isinstance(t, ast.BoolOp):
            if (isinstance(t.op, ast.And) and outcome) or (isinstance(t.op, ast.Or) and not outcome):
                out = []
                for v in t.values:
                    out += atoms(v, outcome)
                return out
            return []
        if isinstance(t, ast.Compare) and len(t.ops) == 1 and isinstance(t.ops[0], ast.NotEq):
            return [(ast.Compare(left=t.left, ops=[ast.Eq()], comparators=t.comparators), not outcome)]
        return [(t, outcome)]

    def run(stmts: list, facts: list, env: dict, cnt: dict) -> None:
        """facts: list of (test node, outcome, resolved text)"""
        for i, st in enumerate(stmts):
            if contains(st) and not isinstance(st, (ast.If, ast.For, ast.AsyncFor, ast.While, ast.With, ast.AsyncWith, ast.Try)):
                results.append({(r, o) for _t, o, r in facts})
                return
            if isinstance(st, ast.If):
                for outcome, branch in ((True, st.body), (False, st.orelse)):
                    c2 = dict(cnt)
                    feasible = True
                    new = []
                    for t, o in atoms(st.test, outcome):
                        if isinstance(t, ast.Name) and t.id in c2:
                            keep = {"P"} if o else {"Z"}
                            c2[t.id] = c2[t.id] & keep
                            if not c2[t.id]:
                                feasible = False
                        r_txt = resolve(t, env)
                        # a comparison of two constants is decided (`None == 'endcomment'`)
                        try:
                            r_node = ast.parse(r_txt, mode="eval").body
                        except SyntaxError:
                            r_node = None
                        if isinstance(r_node, ast.Compare) and len(r_node.ops) == 1 and isinstance(r_node.ops[0], (ast.Eq, ast.Is)) and isinstance(r_node.left, ast.Constant) and isinstance(r_node.comparators[0], ast.Constant):
                            if (r_node.left.value == r_node.comparators[0].value) != o:
                                feasible = False
                        new.append((t, o, r_txt))
                    if not feasible:
                        continue
                    # contradiction with a fact already held about the same resolved test
                    if any(r == r2 and o != o2 for _t, o, r in new for _t2, o2, r2 in facts):
                        continue
                    run(branch + stmts[i + 1 :], facts + new, dict(env), c2)
                return
            if isinstance(st, (ast.Continue, ast.Break, ast.Return, ast.Raise)):
                return
            if isinstance(st, (ast.For, ast.AsyncFor, ast.While, ast.With, ast.AsyncWith, ast.Try)):
                if contains(st):
                    raise _GiveUp()
                killed = stored_in(st)
                facts = [f for f in facts if not _mentions(f[0], killed)]
                for k in killed:
                    env.pop(k, None)
                    if k in cnt:
                        cnt[k] = {"Z", "P"}
                continue
            if isinstance(st, ast.AugAssign) and isinstance(st.target, ast.Name) and st.target.id in cnt:
                cur = cnt[st.target.id]
                if isinstance(st.op, ast.Add):
                    cnt[st.target.id] = {"P"}
                else:
                    if "Z" in cur:
                        raise _GiveUp()  # a decrement of a possibly-zero counter: no invariant
                    cnt[st.target.id] = {"Z", "P"}
                facts = [f for f in facts if not _mentions(f[0], {st.target.id})]
                continue
            killed = stored_in(st)
            if killed:
                facts = [f for f in facts if not _mentions(f[0], killed)]
                for k in killed:
                    env.pop(k, None)
                    if k in cnt:
                        if isinstance(st, ast.Assign) and isinstance(st.value, ast.Constant) and st.value.value == 0:
                            cnt[k] = {"Z"}
                        else:
                            cnt[k] = {"Z", "P"}
            if isinstance(st, ast.Assign) and len(st.targets) == 1 and isinstance(st.targets[0], ast.Name) and st.targets[0].id not in cnt:
                import copy

                class R(ast.NodeTransformer):
                    def visit_Name(self, n):
                        return env[n.id] if isinstance(n.ctx, ast.Load) and n.id in env else n

                env[st.targets[0].id] = R().visit(copy.deepcopy(st.value))

    try:
        run(list(body), [], {}, {c: {"Z", "P"} for c in counters})
    except _GiveUp:
        return None
    if not results:
        return None
    out = set(results[0])
    for r in results[1:]:
        out &= r
    return out
