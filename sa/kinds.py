"""Kind inference: a small forward abstract interpretation over the structured statements of
one function (DESIGN 3.4), built on the must-dataflow of ``sa/flow.py``.

Kinds (one letter each):

    N none   B bool   I int (not bool)   F float   S str (incl. Markup)   L list/tuple
    D dict   R range  U Undefined        C Decimal Y bytes                O anything else

The state is a set of *must-not* facts ``("nk", var, K)`` — "``var`` is certainly not of kind
K here" — plus ``("ne", var)`` — "``var`` is certainly non-empty / truthy here".  Must-facts
are intersected at joins, which is exactly the may-kind union.  ``kinds_of(expr, state)`` is
the set of kinds an expression may have; unknown things are ALL (sound for "may").

Facts come from assignments (literal kinds, a table of builtin / repo helper result kinds,
context-sensitive summaries supplied by the caller), from ``isinstance`` / ``is None`` /
``is_undefined`` / truthiness tests on the edges of ``if``/``while``/``and``/``or``/conditional
expressions, and from ``for`` targets (elements of a data container are data).
"""

from __future__ import annotations

import ast
from typing import Callable, Iterable, Optional

from .astutil import callee_name, unwrap_await
from .flow import MustFlow

ALL = frozenset("NBIFSLDRUCYO")
DATA = frozenset("NBIFSLDRU")  # JSON-like render data + Undefined + range
NUM = frozenset("BIFC")
EMPTY: frozenset = frozenset()

ISINSTANCE_KINDS = {
    "int": "IB",
    "bool": "B",
    "float": "F",
    "str": "S",
    "Markup": "S",
    "list": "L",
    "tuple": "L",
    "dict": "D",
    "range": "R",
    "Undefined": "U",
    "StrictUndefined": "U",
    "Decimal": "C",
    "bytes": "Y",
    "bytearray": "Y",
    "NoneType": "N",
}
# classes that cover a kind *completely* (needed for the false edge of isinstance)
FULL_COVER = {"int": "IB", "bool": "B", "float": "F", "str": "S", "dict": "D", "range": "R", "Undefined": "U", "Decimal": "C", "Number": "BIFC", "numbers.Number": "BIFC", "Real": "BIF", "Integral": "BI"}
# abstract / protocol classes: membership says little about our kinds
ABSTRACT = {
    "Iterable": "SLDRYOU",
    "Iterator": "O",
    "Sequence": "SLRYO",
    "Collection": "SLDRYO",
    "Mapping": "DO",
    "MutableMapping": "DO",
    "abc.Mapping": "DO",
    "abc.Sequence": "SLRYO",
    "abc.Iterable": "SLDRYOU",
    "Sized": "SLDRYO",
    "Hashable": "NBIFSRUCYO",
    "Number": "BIFC",
    "numbers.Number": "BIFC",
    "Integral": "BI",
    "Real": "BIF",
    "datetime": "O",
    "date": "O",
}

CALL_KINDS = {
    # -> str
    **{k: "S" for k in ("str", "to_str", "soft_str", "to_liquid_string", "escape", "Markup", "repr", "chr", "quote_plus", "unquote_plus", "quote", "unquote", "format", "hex", "oct", "bin", "ascii", "strip_tags", "unescape")},
    # -> int
    **{k: "I" for k in ("int", "len", "to_int", "ord", "ceil", "floor", "hash", "id", "int_arg", "getsizeof")},
    "float": "F",
    **{k: "B" for k in ("bool", "isinstance", "issubclass", "hasattr", "callable", "is_undefined", "is_truthy", "any", "all", "isfinite", "isnan", "isinf")},
    "Decimal": "C",
    **{k: "L" for k in ("list", "sorted", "tuple", "flatten")},
    "dict": "D",
    "range": "R",
    **{k: "Y" for k in ("bytes", "bytearray", "b64encode", "b64decode", "urlsafe_b64encode", "urlsafe_b64decode")},
    **{k: "O" for k in ("iter", "reversed", "enumerate", "zip", "map", "filter", "islice", "chain", "set", "frozenset", "type", "super", "object", "open", "compile", "partial", "defaultdict", "deque", "OrderedDict", "datetime", "timedelta", "Path", "StringIO")},
}
STR_METHODS = {
    "strip", "lstrip", "rstrip", "lower", "upper", "title", "capitalize", "casefold", "swapcase", "replace", "format", "format_map", "join", "ljust", "rjust", "center", "zfill",
    "expandtabs", "translate", "removeprefix", "removesuffix", "decode", "strftime", "isoformat", "unescape", "striptags",
}
BOOL_METHODS = {"startswith", "endswith", "isdigit", "isalpha", "isalnum", "isspace", "isupper", "islower", "isnumeric", "isdecimal", "isidentifier", "is_integer", "issubset", "issuperset", "isdisjoint", "is_absolute", "is_file", "exists", "is_relative_to"}
INT_METHODS = {"index", "find", "rfind", "rindex", "count", "bit_length", "timestamp_ns"}
LIST_METHODS = {"split", "rsplit", "splitlines", "findall", "partition", "rpartition", "most_common"}
DATA_METHODS = {"evaluate", "evaluate_async", "resolve", "resolve_async"}


def _k(s: str) -> frozenset:
    return frozenset(s)


class KindFlow(MustFlow):
    """``on_expr(node, state, flow)`` is called for every expression node with the state that
    holds when it is evaluated (short-circuit and conditional-expression refinements
    included).  ``call_kinds(call, state, flow)`` may return the result kinds of a call to a
    repo function (``None`` = unknown)."""

    def __init__(
        self,
        param_kinds: Optional[dict[str, frozenset]] = None,
        on_expr: Optional[Callable] = None,
        call_kinds: Optional[Callable] = None,
        class_kinds: Optional[Callable[[str], Optional[str]]] = None,
        module_consts: Optional[dict] = None,
    ):
        super().__init__()
        self.module_consts = module_consts or {}
        self.param_kinds = param_kinds or {}
        self.on_expr = on_expr
        self.call_kinds = call_kinds
        self.class_kinds = class_kinds
        self.gen_cond = self._gen_cond  # type: ignore[assignment]
        self.visit = self._visit  # type: ignore[assignment]
        self.loop_entry = self._loop_entry  # type: ignore[assignment]
        self.returns: list[frozenset] = []

    # ------------------------------------------------------------------ state helpers
    def init_state(self) -> frozenset:
        facts = set()
        for p, ks in self.param_kinds.items():
            for k in ALL - ks:
                facts.add(("nk", p, k))
        return frozenset(facts)

    @staticmethod
    def var_kinds(st: frozenset, var: str) -> frozenset:
        return ALL - {f[2] for f in st if f[0] == "nk" and f[1] == var}

    @staticmethod
    def nonempty(st: frozenset, var: str) -> bool:
        return ("ne", var) in st

    @staticmethod
    def _bind(st: frozenset, var: str, kinds: frozenset, nonempty: bool = False) -> frozenset:
        out = {f for f in st if f[1] != var}
        for k in ALL - kinds:
            out.add(("nk", var, k))
        if nonempty:
            out.add(("ne", var))
        return frozenset(out)

    # ------------------------------------------------------------------ expression kinds
    def kinds_of(self, e: ast.AST, st: frozenset) -> frozenset:
        e = unwrap_await(e)
        if isinstance(e, ast.Constant):
            v = e.value
            if v is None:
                return _k("N")
            if isinstance(v, bool):
                return _k("B")
            if isinstance(v, int):
                return _k("I")
            if isinstance(v, float):
                return _k("F")
            if isinstance(v, str):
                return _k("S")
            if isinstance(v, bytes):
                return _k("Y")
            return _k("O")
        if isinstance(e, ast.Name):
            return self.var_kinds(st, e.id)
        if isinstance(e, ast.JoinedStr):
            return _k("S")
        if isinstance(e, (ast.List, ast.Tuple, ast.ListComp)):
            return _k("L")
        if isinstance(e, (ast.Dict, ast.DictComp)):
            return _k("D")
        if isinstance(e, (ast.Set, ast.SetComp, ast.GeneratorExp, ast.Lambda)):
            return _k("O")
        if isinstance(e, ast.Compare):
            return _k("B")
        if isinstance(e, ast.UnaryOp):
            if isinstance(e.op, ast.Not):
                return _k("B")
            k = self.kinds_of(e.operand, st)
            return frozenset("I" if x == "B" else x for x in k)
        if isinstance(e, ast.BoolOp):
            out = set()
            cur = st
            for i, v in enumerate(e.values):
                k = self.kinds_of(v, cur)
                if isinstance(e.op, ast.Or) and i < len(e.values) - 1:
                    # `a or b` yields a only when a is truthy: never None
                    k = k - {"N"}
                out |= k
                cur = frozenset(cur | self._gen_cond(v, isinstance(e.op, ast.And)))
            return frozenset(out)
        if isinstance(e, ast.IfExp):
            a = self.kinds_of(e.body, frozenset(st | self._gen_cond(e.test, True)))
            b = self.kinds_of(e.orelse, frozenset(st | self._gen_cond(e.test, False)))
            return a | b
        if isinstance(e, ast.BinOp):
            kl, kr = self.kinds_of(e.left, st), self.kinds_of(e.right, st)
            if isinstance(e.op, ast.Mod) and kl <= _k("S"):
                return _k("S")
            if kl == ALL or kr == ALL:
                return ALL
            if kl <= NUM and kr <= NUM:
                if "C" in kl | kr:
                    return _k("C") | (_k("F") if "F" in kl | kr else EMPTY)
                if isinstance(e.op, ast.Div):
                    return _k("F")
                if "F" in kl | kr:
                    return _k("FI") if not (kl <= _k("F") or kr <= _k("F")) else _k("F")
                if isinstance(e.op, ast.Pow):
                    return _k("IF")
                return _k("I")
            if isinstance(e.op, ast.Add) and kl <= _k("S") and kr <= _k("S"):
                return _k("S")
            if isinstance(e.op, (ast.Add, ast.Mult)) and (kl <= _k("L") or kr <= _k("L")):
                return _k("L")
            if isinstance(e.op, ast.Mult) and (kl <= _k("S") or kr <= _k("S")):
                return _k("S")
            return ALL
        if isinstance(e, ast.Call):
            return self._call_kinds(e, st)
        if isinstance(e, ast.Subscript):
            base = self.kinds_of(e.value, st)
            if isinstance(e.slice, ast.Slice):
                return base & _k("SLYR") or ALL
            if base <= _k("S"):
                return _k("S")
            if base <= _k("Y"):
                return _k("I")
            if "O" not in base:
                return DATA  # an element of a data container is data
            return ALL
        if isinstance(e, ast.NamedExpr):
            return self.kinds_of(e.value, st)
        return ALL

    def _call_kinds(self, c: ast.Call, st: frozenset) -> frozenset:
        name = callee_name(c)
        fn = c.func
        if self.call_kinds is not None:
            r = self.call_kinds(c, st, self)
            if r is not None:
                return r
        if isinstance(fn, ast.Attribute):
            if name in DATA_METHODS:
                return DATA
            if name in STR_METHODS:
                return _k("S")
            if name in BOOL_METHODS:
                return _k("B")
            if name in INT_METHODS:
                return _k("I")
            if name in LIST_METHODS:
                return _k("L")
            if name in ("encode",):
                return _k("Y")
            if name == "group":
                return _k("SN")
            if name in ("keys", "values", "items"):
                return _k("O")
            if name in ("copy",):
                return self.kinds_of(fn.value, st)
            if name in ("quantize", "to_integral_value", "normalize"):
                return _k("C")
            if name == "get":
                base = self.kinds_of(fn.value, st)
                return DATA | _k("N") if "O" not in base else ALL
            if name in CALL_KINDS and name in ("ceil", "floor", "b64encode", "b64decode", "urlsafe_b64encode", "urlsafe_b64decode", "quote_plus", "unquote_plus", "quote", "unquote", "escape", "unescape", "Decimal", "isfinite", "isnan", "isinf", "getsizeof"):
                return _k(CALL_KINDS[name])
            return ALL
        if isinstance(fn, ast.Name):
            if name == "next" and c.args and isinstance(c.args[0], ast.Name) and ("it", c.args[0].id) in st:
                d = self.kinds_of(c.args[1], st) if len(c.args) > 1 else EMPTY
                return DATA | d
            if name == "round":
                if len(c.args) == 1:
                    return _k("I")
                k = self.kinds_of(c.args[0], st)
                return (k & _k("IFC")) | (_k("I") if "B" in k else EMPTY) or _k("IFC")
            if name == "abs":
                k = self.kinds_of(c.args[0], st) if c.args else ALL
                return (frozenset("I" if x == "B" else x for x in k) & _k("IFC")) or _k("IFC")
            if name in ("min", "max"):
                if len(c.args) >= 2:
                    out = set()
                    for a in c.args:
                        out |= self.kinds_of(a, st)
                    return frozenset(out)
                return ALL
            if name == "sum":
                return _k("IFC")
            if name == "num_arg":
                d = next((k.value for k in c.keywords if k.arg == "default"), c.args[1] if len(c.args) > 1 else None)
                return _k("BIF") | (self.kinds_of(d, st) - _k("N") if d is not None else EMPTY)
            if name == "decimal_arg":
                return _k("BIC")
            if name == "getattr":
                return ALL
            if name in CALL_KINDS:
                return _k(CALL_KINDS[name])
            if self.class_kinds is not None:
                ck = self.class_kinds(name)
                if ck is not None:
                    return _k(ck)
        return ALL

    # ------------------------------------------------------------------ branch facts
    def _class_names(self, t: ast.AST) -> Optional[list[str]]:
        if isinstance(t, ast.Tuple):
            out = []
            for x in t.elts:
                r = self._class_names(x)
                if r is None:
                    return None
                out.extend(r)
            return out
        if isinstance(t, ast.Name):
            # a module-level constant naming a tuple of classes: _NUMERIC_TYPES = (int, float, Decimal)
            mc = getattr(self, "module_consts", None) or {}
            v = mc.get(t.id)
            if isinstance(v, ast.Tuple) and t.id not in ISINSTANCE_KINDS and t.id not in ABSTRACT:
                return self._class_names(v)
            return [t.id]
        if isinstance(t, ast.Attribute):
            return [t.attr]
        return None

    def _allowed(self, test: ast.AST) -> Optional[tuple[str, frozenset, frozenset]]:
        """A test that constrains one variable: (var, kinds if true, kinds excluded if false)."""
        if isinstance(test, ast.Call) and callee_name(test) == "isinstance" and len(test.args) == 2 and isinstance(test.args[0], ast.Name):
            names = self._class_names(test.args[1])
            if names is None:
                return None
            yes, no = set(), set()
            for n in names:
                if n in ISINSTANCE_KINDS:
                    yes |= set(ISINSTANCE_KINDS[n])
                elif n in ABSTRACT:
                    yes |= set(ABSTRACT[n])
                else:
                    ck = self.class_kinds(n) if self.class_kinds else None
                    yes |= set(ck or "O")
                if n in FULL_COVER:
                    no |= set(FULL_COVER[n])
            if "list" in names and "tuple" in names:
                no.add("L")
            if "bytes" in names and "bytearray" in names:
                no.add("Y")
            return test.args[0].id, frozenset(yes), frozenset(no)
        if isinstance(test, ast.Call) and callee_name(test) == "is_undefined" and len(test.args) == 1 and isinstance(test.args[0], ast.Name):
            return test.args[0].id, _k("U"), _k("U")
        if isinstance(test, ast.Call) and callee_name(test) == "hasattr" and len(test.args) == 2 and isinstance(test.args[0], ast.Name) and isinstance(test.args[1], ast.Constant) and test.args[1].value in ("__liquid__", "force_liquid_default", "__getitem_async__", "filter_async"):
            # protocol attributes of drops / Undefined: no JSON-like value has them
            return test.args[0].id, _k("OU"), EMPTY
        if isinstance(test, ast.Call) and callee_name(test) == "is_truthy" and len(test.args) == 1 and isinstance(test.args[0], ast.Name):
            # Liquid truthiness: everything except nil, false and undefined (objects answer
            # through __liquid__, kind O)
            return test.args[0].id, ALL - _k("NU"), ALL - _k("NBUO")
        if isinstance(test, ast.Compare) and len(test.ops) == 1 and isinstance(test.left, ast.Name) and isinstance(test.comparators[0], ast.Constant):
            cv = test.comparators[0].value
            if cv is None and isinstance(test.ops[0], ast.Is):
                return test.left.id, _k("N"), _k("N")
            if cv is None and isinstance(test.ops[0], ast.IsNot):
                return test.left.id, ALL - _k("N"), ALL - _k("N")
            if isinstance(cv, bool) and isinstance(test.ops[0], ast.Is):
                # `x is True` / `x is False`: only a bool passes; failing excludes nothing (the other bool)
                return test.left.id, _k("B"), EMPTY
            if isinstance(cv, bool) and isinstance(test.ops[0], ast.IsNot):
                return test.left.id, ALL, _k("NIFSLDRUCYO")
        if isinstance(test, ast.Compare) and len(test.ops) == 1 and isinstance(test.ops[0], ast.In) and isinstance(test.left, ast.Name) and isinstance(test.comparators[0], (ast.Tuple, ast.List, ast.Set)) and all(isinstance(e, ast.Constant) for e in test.comparators[0].elts):
            vals = [e.value for e in test.comparators[0].elts]
            yes = set()
            for v_ in vals:
                if v_ is None:
                    yes.add("N")
                elif isinstance(v_, (bool, int, float)):
                    yes |= set("BIFC")  # 0 == False, 1 == True, 1.0 == 1 ...
                elif isinstance(v_, str):
                    yes |= set("S")
                else:
                    return None
            yes.add("O")  # objects may define __eq__
            no = _k("N") if None in vals else EMPTY
            return test.left.id, frozenset(yes), no
        return None

    def _gen_cond(self, test: ast.AST, truth: bool) -> set:
        if isinstance(test, ast.UnaryOp) and isinstance(test.op, ast.Not):
            return self._gen_cond(test.operand, not truth)
        if isinstance(test, ast.BoolOp):
            if isinstance(test.op, ast.And) and truth or isinstance(test.op, ast.Or) and not truth:
                out = set()
                for v in test.values:
                    out |= self._gen_cond(v, truth)
                return out
            # `A or B` true / `A and B` false: only what every disjunct implies for one variable
            parts = [self._allowed(v) for v in test.values]
            if all(p is not None for p in parts) and len({p[0] for p in parts}) == 1:
                var = parts[0][0]
                if isinstance(test.op, ast.Or):
                    yes = frozenset().union(*[p[1] for p in parts])
                    return {("nk", var, k) for k in ALL - yes}
            return set()
        if isinstance(test, ast.Compare) and len(test.ops) == 1 and isinstance(test.left, ast.Name) and isinstance(test.comparators[0], ast.Constant) and test.comparators[0].value is None:
            var = test.left.id
            is_ = isinstance(test.ops[0], ast.Is)
            isnot = isinstance(test.ops[0], ast.IsNot)
            if is_ or isnot:
                if truth == is_:
                    return {("nk", var, k) for k in ALL - _k("N")}
                return {("nk", var, "N")}
        a = self._allowed(test)
        if a is not None:
            var, yes, no = a
            if truth:
                return {("nk", var, k) for k in ALL - yes}
            return {("nk", var, k) for k in no}
        if isinstance(test, ast.Name):
            if truth:
                return {("nk", test.id, "N"), ("ne", test.id)}
            return set()
        if isinstance(test, ast.Compare) and len(test.ops) == 1 and isinstance(test.left, ast.Call) and callee_name(test.left) == "len" and test.left.args and isinstance(test.left.args[0], ast.Name) and isinstance(test.comparators[0], ast.Constant) and isinstance(test.comparators[0].value, int):
            var, n, op = test.left.args[0].id, test.comparators[0].value, test.ops[0]
            pos = (isinstance(op, ast.Gt) and n >= 0) or (isinstance(op, ast.GtE) and n >= 1) or (isinstance(op, ast.Eq) and n >= 1) or (isinstance(op, ast.NotEq) and n == 0)
            neg = (isinstance(op, ast.Eq) and n == 0) or (isinstance(op, ast.Lt) and n <= 1) or (isinstance(op, ast.LtE) and n <= 0)
            if truth and pos or (not truth) and neg:
                return {("ne", var)}
        return set()

    # ------------------------------------------------------------------ transfer
    def _targets(self, t: ast.AST) -> Iterable[str]:
        if isinstance(t, ast.Name):
            yield t.id
        elif isinstance(t, (ast.Tuple, ast.List)):
            for x in t.elts:
                yield from self._targets(x)
        elif isinstance(t, ast.Starred):
            yield from self._targets(t.value)

    def _assign(self, st: frozenset, target: ast.AST, value: Optional[ast.AST], pre: frozenset) -> frozenset:
        if isinstance(target, ast.Name):
            if value is None:
                return self._bind(st, target.id, ALL)
            ne = isinstance(value, (ast.List, ast.Tuple, ast.Dict)) and bool(getattr(value, "elts", None) or getattr(value, "keys", None)) or (isinstance(value, ast.Constant) and bool(value.value))
            if isinstance(value, ast.Name) and self.nonempty(pre, value.id):
                ne = True
            out = self._bind(st, target.id, self.kinds_of(value, pre), bool(ne))
            # an iterator over a data container: what `next()` hands out is data
            v0 = unwrap_await(value)
            if isinstance(v0, ast.Call) and isinstance(v0.func, ast.Name) and v0.func.id == "iter" and len(v0.args) == 1:
                kx = self.kinds_of(v0.args[0], pre)
                if kx != ALL and "O" not in kx:
                    out = frozenset(out | {("it", target.id)})
            return out
        if isinstance(target, (ast.Tuple, ast.List)):
            if isinstance(value, (ast.Tuple, ast.List)) and len(value.elts) == len(target.elts) and not any(isinstance(x, ast.Starred) for x in target.elts):
                for t, v in zip(target.elts, value.elts):
                    st = self._assign(st, t, v, pre)
                return st
            for name in self._targets(target):
                st = self._bind(st, name, ALL)
            return st
        return st

    def _apply(self, s: ast.stmt, st: frozenset) -> frozenset:
        if isinstance(s, ast.Assign):
            pre = st
            for t in s.targets:
                st = self._assign(st, t, s.value, pre)
            return st
        if isinstance(s, ast.AnnAssign):
            if s.value is not None:
                return self._assign(st, s.target, s.value, st)
            return st
        if isinstance(s, ast.AugAssign):
            if isinstance(s.target, ast.Name):
                k = self.kinds_of(ast.BinOp(left=ast.Name(id=s.target.id, ctx=ast.Load()), op=s.op, right=s.value), st)
                return self._bind(st, s.target.id, k)
            return st
        if isinstance(s, (ast.With, ast.AsyncWith)):
            for item in s.items:
                if item.optional_vars is not None:
                    for name in self._targets(item.optional_vars):
                        st = self._bind(st, name, _k("O"))
            return st
        if isinstance(s, ast.Delete):
            for t in s.targets:
                for name in self._targets(t):
                    st = self._bind(st, name, ALL)
            return st
        if isinstance(s, (ast.Import, ast.ImportFrom)):
            return st
        if isinstance(s, ast.Expr):
            # walrus inside expressions
            for n in ast.walk(s):
                if isinstance(n, ast.NamedExpr) and isinstance(n.target, ast.Name):
                    st = self._bind(st, n.target.id, self.kinds_of(n.value, st))
            return st
        return st

    def _loop_entry(self, s, st: frozenset) -> frozenset:
        k = self.kinds_of(s.iter, st)
        if isinstance(s.iter, ast.Call) and callee_name(s.iter) in ("range", "enumerate") and callee_name(s.iter) == "range":
            elem = _k("I")
        elif k <= _k("S"):
            elem = _k("S")
        elif k <= _k("R"):
            elem = _k("I")
        elif "O" not in k:
            elem = DATA
        elif isinstance(s.iter, ast.Name) and ("it", s.iter.id) in st:
            elem = DATA  # an iterator made from a data container: `it = iter(path)`, `for segment in it`
        else:
            elem = ALL
        for name in self._targets(s.target):
            st = self._bind(st, name, elem if isinstance(s.target, ast.Name) else ALL)
        return st

    # ------------------------------------------------------------------ visiting expressions
    def _visit(self, node: ast.AST, st: frozenset) -> None:
        if isinstance(node, ast.Return) and node.value is not None:
            self.returns.append(self.kinds_of(node.value, st))
        if self.on_expr is None:
            return
        if isinstance(node, ast.expr):
            self.walk_expr(node, st)
            return
        if isinstance(node, (ast.For, ast.AsyncFor)):
            self.walk_expr(node.iter, st)
            self.on_expr(node, st, self)
            return
        if isinstance(node, (ast.With, ast.AsyncWith)):
            for item in node.items:
                self.walk_expr(item.context_expr, st)
            return
        if isinstance(node, ast.ExceptHandler):
            return
        if isinstance(node, ast.stmt):
            self.on_expr(node, st, self)  # statement-level sites (assert, raise, del x[k], aug-assign)
            for ch in ast.iter_child_nodes(node):
                if isinstance(ch, ast.expr):
                    self.walk_expr(ch, st)
                elif isinstance(ch, ast.keyword):
                    self.walk_expr(ch.value, st)

    def walk_expr(self, e: ast.AST, st: frozenset) -> None:
        """Call ``on_expr`` on every sub-expression with the state refined by the short-circuit
        operators and conditional expressions that guard it."""
        if e is None:
            return
        if isinstance(e, ast.BoolOp):
            cur = st
            for v in e.values:
                self.walk_expr(v, cur)
                cur = frozenset(cur | self._gen_cond(v, isinstance(e.op, ast.And)))
            self.on_expr(e, st, self)
            return
        if isinstance(e, ast.IfExp):
            self.walk_expr(e.test, st)
            self.walk_expr(e.body, frozenset(st | self._gen_cond(e.test, True)))
            self.walk_expr(e.orelse, frozenset(st | self._gen_cond(e.test, False)))
            self.on_expr(e, st, self)
            return
        if isinstance(e, (ast.ListComp, ast.SetComp, ast.GeneratorExp, ast.DictComp)):
            cur = st
            for g in e.generators:
                self.walk_expr(g.iter, cur)
                k = self.kinds_of(g.iter, cur)
                elem = DATA if "O" not in k else ALL
                if k <= _k("S"):
                    elem = _k("S")
                for name in self._targets(g.target):
                    cur = self._bind(cur, name, elem if isinstance(g.target, ast.Name) else ALL)
                for c in g.ifs:
                    self.walk_expr(c, cur)
                    cur = frozenset(cur | self._gen_cond(c, True))
            if isinstance(e, ast.DictComp):
                self.walk_expr(e.key, cur)
                self.walk_expr(e.value, cur)
            else:
                self.walk_expr(e.elt, cur)
            self.on_expr(e, st, self)
            return
        if isinstance(e, ast.Lambda):
            cur = st
            for a in e.args.args + e.args.kwonlyargs + e.args.posonlyargs:
                cur = self._bind(cur, a.arg, ALL)
            self.walk_expr(e.body, cur)
            return
        for ch in ast.iter_child_nodes(e):
            if isinstance(ch, ast.expr):
                self.walk_expr(ch, st)
            elif isinstance(ch, ast.keyword):
                self.walk_expr(ch.value, st)
            elif isinstance(ch, ast.Slice):
                for x in (ch.lower, ch.upper, ch.step):
                    if x is not None:
                        self.walk_expr(x, st)
        self.on_expr(e, st, self)

    # ------------------------------------------------------------------ path-sensitive mode
    decisions: Optional[dict] = None  # id(ast.If) -> bool : follow only that branch

    def stmt(self, s, st):
        if self.decisions is not None and isinstance(s, ast.If) and id(s) in self.decisions:
            self.visit(s.test, st)
            truth = self.decisions[id(s)]
            return self.block(s.body if truth else s.orelse, frozenset(st | frozenset(self.gen_cond(s.test, truth))))
        return super().stmt(s, st)

    # ------------------------------------------------------------------ entry point
    def analyse(self, fn: ast.AST):
        self.returns = []
        exits = self.run(fn, init=self.init_state())
        return exits

    def return_kinds(self) -> frozenset:
        out = set()
        for r in self.returns:
            out |= r
        return frozenset(out)


def feasible(flow: KindFlow, st: frozenset, names: Iterable[str]) -> bool:
    """A state in which some variable has no possible kind is an infeasible path."""
    return all(flow.var_kinds(st, n) for n in names)


def path_states(fn: ast.AST, param_kinds: dict[str, frozenset], want: Callable[[ast.AST], bool], max_ifs: int = 10, **kw) -> list[tuple[ast.AST, frozenset, KindFlow]]:
    """Path-sensitive variant for small functions: run the kind flow once per combination of
    ``if`` outcomes (no joins at ifs, so correlations such as "right is a bool only if the
    operands were swapped" survive) and collect ``(node, state, flow)`` for every expression
    node selected by ``want``.  Infeasible combinations produce states with an empty kind set
    for some variable — filter them with ``feasible``."""
    from .model import walk_no_nested

    ifs = [n for n in walk_no_nested(fn) if isinstance(n, ast.If)]
    if len(ifs) > max_ifs:
        raise ValueError(f"{len(ifs)} if statements: too many paths")
    out = []
    for mask in range(1 << len(ifs)):
        hits = []

        def on_expr(node, st, flow, hits=hits):
            if want(node):
                hits.append((node, st, flow))

        flow = KindFlow(param_kinds=param_kinds, on_expr=on_expr, **kw)
        flow.decisions = {id(n): bool(mask >> i & 1) for i, n in enumerate(ifs)}
        flow.analyse(fn)
        out.extend(hits)
    return out



def exits_for_kinds(fn: ast.AST, kinds: dict[str, frozenset], module_consts=None, resolve_func=None, _depth: int = 0) -> list[tuple[ast.stmt, dict]]:
    """The ``return`` / ``raise`` statements of a small loop-free function that can be reached
    when the named variables hold values of the given kinds — tests are evaluated three-valued
    (definitely true: every given kind is fully covered by the test; definitely false: none can
    satisfy it; otherwise both branches are followed), so ``A and B`` being false is followed
    exactly, not through what both disjuncts imply."""
    flow = KindFlow(param_kinds={})
    flow.module_consts = module_consts or {}
    out: list[tuple[ast.stmt, dict]] = []

    def ev(t: ast.AST, env: dict):
        if isinstance(t, ast.UnaryOp) and isinstance(t.op, ast.Not):
            r = ev(t.operand, env)
            return None if r is None else not r
        if isinstance(t, ast.BoolOp):
            rs = [ev(v, env) for v in t.values]
            if isinstance(t.op, ast.And):
                return False if False in rs else (True if all(r is True for r in rs) else None)
            return True if True in rs else (False if all(r is False for r in rs) else None)
        a = flow._allowed(t)
        if a is None:
            return None
        var, yes, no = a
        ks = env.get(var)
        if ks is None:
            return None
        if ks and ks <= no:
            return True
        if not (ks & yes):
            return False
        return None

    def narrow(t: ast.AST, truth: bool, env: dict) -> dict:
        env = dict(env)
        for fact in flow._gen_cond(t, truth):
            if fact[0] == "nk" and fact[1] in env:
                env[fact[1]] = env[fact[1]] - {fact[2]}
        return env

    def block(body, env) -> bool:
        """True when control can fall off the end"""
        envs = [env]
        for st in body:
            nxt = []
            for e in envs:
                nxt += stmt(st, e)
            envs = nxt
            if not envs:
                return []
        return envs

    def stmt(st, env) -> list:
        if any(not v for v in env.values()):
            return []  # infeasible
        if isinstance(st, ast.Raise):
            out.append((st, env))
            return []
        if isinstance(st, ast.Return):
            # a conditional expression is a branch like any other
            todo = [(st.value, env)]
            while todo:
                v, e = todo.pop()
                if any(not k for k in e.values()):
                    continue
                if isinstance(v, ast.IfExp):
                    r = ev(v.test, e)
                    if r is not False:
                        todo.append((v.body, narrow(v.test, True, e)))
                    if r is not True:
                        todo.append((v.orelse, narrow(v.test, False, e)))
                    continue
                out.append((ast.copy_location(ast.Return(value=v), st), e))
            return []
        if isinstance(st, ast.If):
            r = ev(st.test, env)
            res_ = []
            if r is not False:
                res_ += block(st.body, narrow(st.test, True, env))
            if r is not True:
                e2 = narrow(st.test, False, env)
                res_ += block(st.orelse, e2) if st.orelse else [e2]
            return res_
        if isinstance(st, ast.Assign) and len(st.targets) == 1 and isinstance(st.targets[0], ast.Name) and st.targets[0].id in env and isinstance(st.value, ast.Name) and st.value.id in env:
            env = dict(env)
            env[st.targets[0].id] = env[st.value.id]
            return [env]
        if isinstance(st, ast.Assign) and len(st.targets) == 1 and isinstance(st.targets[0], ast.Name) and st.targets[0].id in env and isinstance(st.value, ast.Call) and isinstance(st.value.func, ast.Name) and len(st.value.args) == 1 and not st.value.keywords and isinstance(st.value.args[0], ast.Name) and st.value.args[0].id in env and resolve_func is not None and _depth < 2:
            # x = helper(y): the kinds the one-argument module helper can return for y's kinds
            # (an unwrap helper returns its argument unchanged for every kind without the protocol)
            h = resolve_func(st.value.func.id)
            if h is not None and len(h.args.args) == 1:
                hp = h.args.args[0].arg
                try:
                    hex_ = exits_for_kinds(h, {hp: env[st.value.args[0].id]}, module_consts, resolve_func, _depth + 1)
                except ValueError:
                    hex_ = None
                if hex_ is not None:
                    ks = frozenset()
                    for hs, henv in hex_:
                        if isinstance(hs, ast.Return) and isinstance(hs.value, ast.Name) and hs.value.id == hp:
                            ks |= henv[hp]
                        elif isinstance(hs, ast.Return):
                            ks = ALL
                    env = dict(env)
                    env[st.targets[0].id] = ks
                    return [env]
        if isinstance(st, (ast.Assign, ast.AnnAssign, ast.AugAssign)):
            env = dict(env)
            tg = st.targets if isinstance(st, ast.Assign) else [st.target]
            for t in tg:
                for x in ast.walk(t):
                    if isinstance(x, ast.Name) and x.id in env:
                        env[x.id] = ALL
            return [env]
        if isinstance(st, (ast.For, ast.While, ast.Try, ast.With)):
            raise ValueError("exits_for_kinds: only loop-free functions")
        return [env]

    block(fn.body, dict(kinds))
    return out
