"""Check driver pieces: findings, known-findings file, evidence, reports."""

from __future__ import annotations

import json
import os
import time
from dataclasses import dataclass, field
from typing import Any, Optional

VERIF = os.path.dirname(os.path.dirname(os.path.abspath(__file__)))
KNOWN_FILE = os.path.join(VERIF, "known_findings.jsonl")
EVIDENCE_DIR = os.path.join(VERIF, "evidence")
REPORT_DIR = os.path.join(VERIF, "reports")


@dataclass
class Finding:
    """One rule instance that does not hold.

    ``key`` identifies the finding by rule + construct + normalised detail —
    never by line number — so that reformatting does not move it.
    """

    rule: str
    construct: str  # module:Class.method or table name
    detail: str  # normalised text that distinguishes this instance
    message: str  # human explanation incl. witness
    file: str = ""
    line: int = 0
    witness: list = field(default_factory=list)

    @property
    def key(self) -> str:
        return f"{self.rule}|{self.construct}|{self.detail}"

    def to_json(self) -> dict:
        return {
            "key": self.key,
            "rule": self.rule,
            "construct": self.construct,
            "detail": self.detail,
            "message": self.message,
            "file": self.file,
            "line": self.line,
            "witness": self.witness,
        }


@dataclass
class Result:
    """What one property module's rule run produced."""

    property_id: str
    findings: list[Finding] = field(default_factory=list)
    obligations: int = 0  # rule instances checked
    nontrivial: set = field(default_factory=set)  # distinct constructs with a real obligation
    samples: list = field(default_factory=list)
    stats: dict[str, Any] = field(default_factory=dict)
    rules: list[str] = field(default_factory=list)
    assumptions: list[str] = field(default_factory=list)
    explanation: str = ""

    def ob(self, construct: str, n: int = 1) -> None:
        self.obligations += n
        self.nontrivial.add(construct)

    def sample(self, obj: Any, cap: int = 12) -> None:
        if len(self.samples) < cap:
            self.samples.append(obj)

    def add(self, *a, **kw) -> Finding:
        f = Finding(*a, **kw)
        # de-duplicate on key
        if not any(x.key == f.key for x in self.findings):
            self.findings.append(f)
        return f


def load_known() -> tuple[dict[str, dict], list[dict]]:
    """Return (open findings by (property,key), fixed entries)."""
    open_: dict[str, dict] = {}
    fixed: list[dict] = []
    if not os.path.exists(KNOWN_FILE):
        return open_, fixed
    with open(KNOWN_FILE, encoding="utf-8") as fd:
        for ln, line in enumerate(fd, 1):
            line = line.strip()
            if not line or line.startswith("#"):
                continue
            if line.startswith("fixed:"):
                fixed.append({"status": "fixed", "text": line})
                continue
            rec = json.loads(line)
            if rec.get("status") == "open":
                open_[f"{rec['property']}::{rec['key']}"] = rec
            elif rec.get("status") == "fixed":
                fixed.append(rec)
            else:
                raise ValueError(f"{KNOWN_FILE}:{ln}: status must be open|fixed")
    return open_, fixed


def write_json(path: str, obj: Any) -> None:
    os.makedirs(os.path.dirname(path), exist_ok=True)
    tmp = path + f".tmp{os.getpid()}"
    with open(tmp, "w", encoding="utf-8") as fd:
        json.dump(obj, fd, indent=1, sort_keys=False, default=str)
        fd.write("\n")
    os.replace(tmp, path)


def write_evidence(
    res: Result,
    tier: str,
    seed: int,
    wall: float,
    violations: int,
    known_hit: list[str],
    selftest: Optional[dict],
    repo_digest: str,
    extra_stats: Optional[dict] = None,
) -> str:
    discharged = res.obligations - len(res.findings)
    cov = {
        "explanation": res.explanation
        or "static analysis of /repo/liquid source (ast only; nothing imported or run)",
        "evaluations": max(res.obligations, 0),
        "distinct_nontrivial": len(res.nontrivial),
        "rule": "evaluations = rule instances (obligations) decided on this run; "
        "distinct_nontrivial = distinct source constructs (functions, call sites, table rows) "
        "that carried at least one obligation",
        "obligations": res.obligations,
        "discharged": discharged,
        "undischarged_listed_as_known_findings": len(known_hit),
        "undischarged_new": violations,
        "rules": res.rules,
        "samples": res.samples or ["(no samples)"],
        "stats": {**res.stats, **(extra_stats or {})},
        "repo_digest": repo_digest,
        "known_findings_hit": known_hit,
        "exhaustive": True,
    }
    if selftest is not None:
        cov["selftest"] = selftest
    ev = {
        "property_id": res.property_id,
        "tier": tier,
        "seed": seed,
        "level": "other",
        "coverage": cov,
        "assumptions": res.assumptions,
        "wall_s": round(wall, 3),
        "violations": violations,
    }
    path = os.path.join(EVIDENCE_DIR, f"{res.property_id}.json")
    write_json(path, ev)
    return path


class Timer:
    def __init__(self):
        self.t0 = time.time()

    def __call__(self) -> float:
        return time.time() - self.t0
