"""Registry extraction (pure AST): which tag classes and filter callables an
Environment registers — ``liquid.builtin.register`` and ``liquid.extra.add_tags`` /
``add_filters``.  This is what makes "every tag", "every filter", "every node"
enumerable and exhaustiveness checkable.
"""

from __future__ import annotations

import ast
from dataclasses import dataclass, field
from typing import Optional

from .astutil import callee_name, text
from .model import AnchorMissing, ClassInfo, FuncInfo, Repo, fold_str

FILTER_DECORATORS = {
    "with_context",
    "with_environment",
    "string_filter",
    "array_filter",
    "sequence_filter",
    "liquid_filter",
    "math_filter",
    "unit_filter",
}


@dataclass
class FilterImpl:
    name: str
    origin: str  # "builtin" | "extra"
    func: FuncInfo  # the function, or the class's __call__
    cls: Optional[ClassInfo] = None
    decorators: list[str] = field(default_factory=list)
    ctor: Optional[ast.Call] = None  # constructor call for class based filters

    @property
    def qual(self) -> str:
        return self.func.qual


@dataclass
class TagImpl:
    name: str
    origin: str
    cls: ClassInfo
    node_class: Optional[ClassInfo]
    block: bool
    end: str


class Registry:
    def __init__(self, repo: Repo):
        self.repo = repo
        self.tags: dict[str, TagImpl] = {}
        self.filters: dict[str, FilterImpl] = {}
        self._scan(repo.func("liquid.builtin.register"), "builtin")
        self._scan(repo.func("liquid.extra.add_tags"), "extra")
        self._scan(repo.func("liquid.extra.add_filters"), "extra")
        if len(self.tags) < 25 or len(self.filters) < 70:
            raise AnchorMissing(
                f"registry extraction found {len(self.tags)} tags / {len(self.filters)} filters "
                "(expected >= 25 / >= 70)"
            )

    # ------------------------------------------------------------------
    def _scan(self, fn: FuncInfo, origin: str) -> None:
        repo, mod = self.repo, fn.module
        for st in ast.walk(fn.node):
            if isinstance(st, ast.Call) and isinstance(st.func, ast.Attribute) and st.func.attr == "add_tag" and st.args:
                r = repo.resolve_in(mod, text(st.args[0]))
                if not isinstance(r, ClassInfo):
                    raise AnchorMissing(f"{fn.qual}: cannot resolve tag class {text(st.args[0])}")
                self._add_tag(r, origin)
            elif isinstance(st, ast.Call) and isinstance(st.func, ast.Attribute) and st.func.attr == "add_filter" and len(st.args) == 2:
                name = fold_str(repo, mod, st.args[0], 0)
                if name is None:
                    raise AnchorMissing(f"{fn.qual}: cannot fold filter name {text(st.args[0])}")
                self._add_filter(name, st.args[1], mod, origin, fn)
            elif isinstance(st, ast.Assign) and len(st.targets) == 1:
                t = st.targets[0]
                if isinstance(t, ast.Subscript) and isinstance(t.value, ast.Attribute) and t.value.attr == "filters":
                    name = fold_str(repo, mod, t.slice, 0)
                    if name is None:
                        raise AnchorMissing(f"{fn.qual}: cannot fold filter name {text(t.slice)}")
                    self._add_filter(name, st.value, mod, origin, fn)

    def _add_tag(self, c: ClassInfo, origin: str) -> None:
        repo = self.repo
        a = repo.find_attr(c, "name")
        name = fold_str(repo, a[0].module, a[1], 0) if a else None
        if name is None:
            raise AnchorMissing(f"cannot fold {c.qual}.name")
        b = repo.find_attr(c, "block")
        block = True
        if b and isinstance(b[1], ast.Constant):
            block = bool(b[1].value)
        e = repo.find_attr(c, "end")
        end = fold_str(repo, e[0].module, e[1], 0) if e else ""
        nc = repo.find_attr(c, "node_class")
        node_class = None
        if nc:
            r = repo.resolve_in(nc[0].module, text(nc[1]))
            if isinstance(r, ClassInfo):
                node_class = r
        self.tags[name] = TagImpl(name, origin, c, node_class, block, end or "")

    def _add_filter(self, name: str, expr: ast.expr, mod, origin: str, fn: FuncInfo) -> None:
        repo = self.repo
        ctor = None
        target = expr
        if isinstance(expr, ast.Call):
            ctor = expr
            target = expr.func
        r = repo.resolve_in(mod, text(target))
        if isinstance(r, FuncInfo):
            self.filters[name] = FilterImpl(name, origin, r, None, [self._dec_name(d) for d in r.node.decorator_list])
        elif isinstance(r, ClassInfo):
            call = repo.find_method(r, "__call__")
            if call is None:
                raise AnchorMissing(f"filter class {r.qual} has no __call__")
            self.filters[name] = FilterImpl(
                name, origin, call, r, [self._dec_name(d) for d in call.node.decorator_list], ctor
            )
        else:
            raise AnchorMissing(f"{fn.qual}: cannot resolve filter {name!r} -> {text(expr)}")

    @staticmethod
    def _dec_name(d: ast.expr) -> str:
        if isinstance(d, ast.Call):
            d = d.func
        return text(d).rsplit(".", 1)[-1] if text(d).startswith("functools.") else text(d)

    # ------------------------------------------------------------------
    def node_classes(self) -> list[ClassInfo]:
        out, seen = [], set()
        for t in self.tags.values():
            if t.node_class and t.node_class.qual not in seen:
                seen.add(t.node_class.qual)
                out.append(t.node_class)
        return out

    def filter_functions(self) -> list[FilterImpl]:
        seen, out = set(), []
        for f in self.filters.values():
            if f.qual not in seen:
                seen.add(f.qual)
                out.append(f)
        return out
