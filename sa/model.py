"""Repository model: every ``liquid/**/*.py`` parsed with ``ast`` (never imported).

Gives the engines modules, resolved imports (through re-exports), classes with
C3 MRO across modules, methods and functions, and class/module level constants.
An *overlay* (relative path -> source text) lets the self-test analyse an edited
variant of the tree without writing it anywhere.
"""

from __future__ import annotations

import ast
import hashlib
import os
from typing import Iterator, Optional


class AnalysisError(Exception):
    """The checker cannot do its job (anchor missing, unparsable file...). Exit 2."""


class AnchorMissing(AnalysisError):
    pass


PKG = "liquid"


class FuncInfo:
    __slots__ = ("name", "qual", "node", "module", "cls", "parent")

    def __init__(self, name, qual, node, module, cls=None, parent=None):
        self.name = name
        self.qual = qual
        self.node = node
        self.module = module
        self.cls = cls
        self.parent = parent

    @property
    def is_async(self) -> bool:
        return isinstance(self.node, ast.AsyncFunctionDef)

    @property
    def file(self) -> str:
        return self.module.relpath

    @property
    def line(self) -> int:
        return self.node.lineno

    def decorators(self) -> list[str]:
        return [expr_text(d) for d in self.node.decorator_list]

    def params(self) -> list[str]:
        a = self.node.args
        return [x.arg for x in a.posonlyargs + a.args + a.kwonlyargs] + (
            [a.vararg.arg] if a.vararg else []
        ) + ([a.kwarg.arg] if a.kwarg else [])

    def __repr__(self):
        return f"<Func {self.qual}>"


class ClassInfo:
    __slots__ = ("name", "qual", "node", "module", "base_exprs", "methods", "attrs")

    def __init__(self, name, qual, node, module):
        self.name = name
        self.qual = qual
        self.node = node
        self.module = module
        self.base_exprs = list(node.bases)
        self.methods: dict[str, FuncInfo] = {}
        self.attrs: dict[str, ast.expr] = {}

    @property
    def file(self) -> str:
        return self.module.relpath

    def __repr__(self):
        return f"<Class {self.qual}>"


def _canon_once(tree: ast.AST) -> None:
    """Spelling-only canonicalisation applied to every module when it is loaded, so that no rule
    ever sees the difference:

      ``x = E`` directly followed by ``return x`` (x used nowhere else in the function)  ->  ``return E``
      ``x = <bool expr>`` directly followed by ``if x:`` / ``if not x:`` (x used nowhere else)  ->  ``if <bool expr>:``
      ``if not c: B else: A``  ->  ``if c: A else: B``   (also when an arm is an elif chain)
      ``if x is not None: A else: B`` -> ``if x is None: B else: A``  (likewise ``!=``, ``not in``)
      ``a < b`` -> ``b > a`` and ``a <= b`` -> ``b >= a``
      ``not (a == b)`` -> ``a != b`` (likewise ``is`` / ``in``), De Morgan with the negation inwards
      ``x = x + 1`` -> ``x += 1``
      ``CONST == x`` -> ``x == CONST`` (operands of ==, !=, is, is not in one order);
      keyword arguments of calls in alphabetical order
      ``if c: return A else: B`` -> ``if c: return A; B``  (an else after a branch that always leaves)

    (the inverses of "name the result before returning it", "name the condition before testing
    it" and "put the other branch first").  In place."""
    # negation pushed inwards: `not (a == b)` -> `a != b`, `not (x is None)` -> `x is not None`,
    # `not (a in b)` -> `a not in b`; `not (a or b)` -> `not a and not b`, `not (a and b)` ->
    # `not a or not b`; `not not a` in a boolean position stays (bool conversion)
    class _PushNot(ast.NodeTransformer):
        _INV = {ast.Eq: ast.NotEq, ast.NotEq: ast.Eq, ast.Is: ast.IsNot, ast.IsNot: ast.Is, ast.In: ast.NotIn, ast.NotIn: ast.In}

        def visit_UnaryOp(self, n):
            self.generic_visit(n)
            if isinstance(n.op, ast.Not):
                o = n.operand
                if isinstance(o, ast.Compare) and len(o.ops) == 1 and type(o.ops[0]) in self._INV:
                    o.ops[0] = self._INV[type(o.ops[0])]()
                    return o
                if isinstance(o, ast.BoolOp):
                    other = ast.And() if isinstance(o.op, ast.Or) else ast.Or()
                    vals = [self.visit(ast.UnaryOp(op=ast.Not(), operand=v)) for v in o.values]
                    return ast.copy_location(ast.BoolOp(op=other, values=vals), n)
            return n

    _PushNot().visit(tree)
    ast.fix_missing_locations(tree)
    # `x = x + 1` / `x = x - 1` (plain name, numeric constant) is written `x += 1` / `x -= 1`
    for n in ast.walk(tree):
        for fld in ("body", "orelse", "finalbody"):
            blk = getattr(n, fld, None)
            if isinstance(blk, list):
                for i_, st in enumerate(blk):
                    if isinstance(st, ast.Assign) and len(st.targets) == 1 and isinstance(st.targets[0], ast.Name) and isinstance(st.value, ast.BinOp) and isinstance(st.value.op, (ast.Add, ast.Sub)) and isinstance(st.value.left, ast.Name) and st.value.left.id == st.targets[0].id and isinstance(st.value.right, ast.Constant) and isinstance(st.value.right.value, (int, float)) and not isinstance(st.value.right.value, bool):
                        blk[i_] = ast.copy_location(ast.AugAssign(target=ast.Name(id=st.targets[0].id, ctx=ast.Store()), op=st.value.op, value=st.value.right), st)
    # an `else` after a branch that always leaves (return / raise / continue / break) is written
    # without the else: `if c: return A else: B`  ->  `if c: return A; B`
    def _always_leaves(body) -> bool:
        if not body:
            return False
        last = body[-1]
        if isinstance(last, (ast.Return, ast.Raise, ast.Continue, ast.Break)):
            return True
        if isinstance(last, ast.If):
            return bool(last.orelse) and _always_leaves(last.body) and _always_leaves(last.orelse)
        return False

    changed = True
    while changed:
        changed = False
        for n in ast.walk(tree):
            for fld in ("body", "orelse", "finalbody"):
                blk = getattr(n, fld, None)
                if not (isinstance(blk, list) and blk and isinstance(blk[0], ast.stmt)):
                    continue
                for i_, st in enumerate(blk):
                    if isinstance(st, ast.If) and st.orelse and _always_leaves(st.body):
                        tail = st.orelse
                        st.orelse = []
                        blk[i_ + 1 : i_ + 1] = tail
                        changed = True
                        break
                    # the leaving branch first: `if c: B else: <leaves>`  ->  `if not c: <leaves>; B`
                    if isinstance(st, ast.If) and st.orelse and _always_leaves(st.orelse) and not _always_leaves(st.body):
                        tail = st.body
                        st.test = _PushNot().visit(ast.copy_location(ast.UnaryOp(op=ast.Not(), operand=st.test), st.test))
                        st.body = st.orelse
                        st.orelse = []
                        blk[i_ + 1 : i_ + 1] = tail
                        ast.fix_missing_locations(st)
                        changed = True
                        break
    # in a test only truthiness counts: `not not x` is `x` there (also inside its and/or operands)
    def _strip_nn(e):
        if isinstance(e, ast.UnaryOp) and isinstance(e.op, ast.Not) and isinstance(e.operand, ast.UnaryOp) and isinstance(e.operand.op, ast.Not):
            return _strip_nn(e.operand.operand)
        if isinstance(e, ast.BoolOp):
            e.values = [_strip_nn(v) for v in e.values]
        return e

    for n in ast.walk(tree):
        if isinstance(n, (ast.If, ast.While, ast.IfExp)):
            n.test = _strip_nn(n.test)
    # operands of == / != / is / is not in one order: the constant (a literal, or an ALL_CAPS name
    # such as TOKEN_EOF / Mode.STRICT) on the right; otherwise by their text
    def _rank(e) -> int:
        if isinstance(e, ast.Constant):
            return 2
        last = e.attr if isinstance(e, ast.Attribute) else e.id if isinstance(e, ast.Name) else ""
        return 1 if last and last.isupper() and len(last) > 1 else 0

    for n in ast.walk(tree):
        if isinstance(n, ast.Compare) and len(n.ops) == 1 and isinstance(n.ops[0], (ast.Eq, ast.NotEq, ast.Is, ast.IsNot)):
            a_, b_ = n.left, n.comparators[0]
            ka, kb = (_rank(a_), ast.unparse(a_)), (_rank(b_), ast.unparse(b_))
            if ka > kb:
                n.left, n.comparators[0] = b_, a_
    # keyword arguments of a call in alphabetical order (`**kw` stays last)
    for n in ast.walk(tree):
        if isinstance(n, ast.Call) and len(n.keywords) > 1:
            named = [k for k in n.keywords if k.arg is not None]
            star = [k for k in n.keywords if k.arg is None]
            if not star or n.keywords[-len(star) :] == star:
                n.keywords = sorted(named, key=lambda k: k.arg) + star
    # `a < b` is written `b > a`, `a <= b` as `b >= a` (single comparisons; for the analysis the
    # order in which the two operands are evaluated is immaterial)
    for n in ast.walk(tree):
        if isinstance(n, ast.Compare) and len(n.ops) == 1 and isinstance(n.ops[0], (ast.Lt, ast.LtE)):
            n.left, n.comparators[0] = n.comparators[0], n.left
            n.ops[0] = ast.Gt() if isinstance(n.ops[0], ast.Lt) else ast.GtE()
    # a pure attribute chain rooted at a parameter (never stored to in the function) that is read
    # once into a local at the top of the function is written in place: `limit = self.env.x`,
    # `source = parent_token.source`, `mode = self.mode`, `resolve = context.resolve`
    from .normalize import propagate_aliases

    for fn in ast.walk(tree):
        if isinstance(fn, (ast.FunctionDef, ast.AsyncFunctionDef)):
            try:
                propagate_aliases(fn)
            except Exception:  # noqa: BLE001
                pass
    for fn in ast.walk(tree):
        if not isinstance(fn, (ast.FunctionDef, ast.AsyncFunctionDef)):
            continue
        uses: dict[str, int] = {}
        for n in ast.walk(fn):
            if isinstance(n, ast.Name):
                uses[n.id] = uses.get(n.id, 0) + 1
        # names that occur only as `x = E; return x` pairs (possibly several pairs)
        pair_uses: dict[str, int] = {}
        for n in ast.walk(fn):
            for fld in ("body", "orelse", "finalbody"):
                blk = getattr(n, fld, None)
                if isinstance(blk, list):
                    for a, b in zip(blk, blk[1:]):
                        if isinstance(a, ast.Assign) and len(a.targets) == 1 and isinstance(a.targets[0], ast.Name) and isinstance(b, ast.Return) and isinstance(b.value, ast.Name) and b.value.id == a.targets[0].id:
                            pair_uses[b.value.id] = pair_uses.get(b.value.id, 0) + 2
        only_pairs = {k for k, v in pair_uses.items() if uses.get(k) == v}

        def fix(block: list) -> None:
            i = 0
            while i < len(block) - 1:
                a, b = block[i], block[i + 1]
                tgt = val = None
                if isinstance(a, ast.Assign) and len(a.targets) == 1 and isinstance(a.targets[0], ast.Name):
                    tgt, val = a.targets[0].id, a.value
                elif isinstance(a, ast.AnnAssign) and isinstance(a.target, ast.Name) and a.value is not None:
                    tgt, val = a.target.id, a.value
                if tgt is not None and isinstance(b, ast.Return) and isinstance(b.value, ast.Name) and b.value.id == tgt and (uses.get(tgt) == 2 or tgt in only_pairs):
                    block[i : i + 2] = [ast.copy_location(ast.Return(value=val), a)]
                    continue
                # a flag named right before the one `if` that tests it
                if tgt is not None and isinstance(b, ast.If) and uses.get(tgt) == 2 and isinstance(val, (ast.BoolOp, ast.UnaryOp, ast.Compare)):
                    t = b.test
                    if isinstance(t, ast.Name) and t.id == tgt:
                        b.test = val
                        del block[i]
                        continue
                    if isinstance(t, ast.UnaryOp) and isinstance(t.op, ast.Not) and isinstance(t.operand, ast.Name) and t.operand.id == tgt:
                        t.operand = val
                        del block[i]
                        continue
                i += 1
            # `if not c: B else: A`  ->  `if c: A else: B`
            for st in block:
                if isinstance(st, ast.If) and st.orelse and isinstance(st.test, ast.UnaryOp) and isinstance(st.test.op, ast.Not):
                    st.test = st.test.operand
                    st.body, st.orelse = st.orelse, st.body
                # `if x is not None: A else: B`  ->  `if x is None: B else: A`  (likewise != / not in)
                if isinstance(st, ast.If) and st.orelse and isinstance(st.test, ast.Compare) and len(st.test.ops) == 1 and isinstance(st.test.ops[0], (ast.IsNot, ast.NotEq, ast.NotIn)):
                    pos = {ast.IsNot: ast.Is, ast.NotEq: ast.Eq, ast.NotIn: ast.In}[type(st.test.ops[0])]
                    st.test.ops[0] = pos()
                    st.body, st.orelse = st.orelse, st.body
                # `if not a or not b: B else: A`  ->  `if a and b: A else: B`  (the De Morgan dual of a
                # test whose operands are all negative; what `if not (a and b)` becomes once the
                # negation is pushed inwards)
                if isinstance(st, ast.If) and st.orelse and isinstance(st.test, ast.BoolOp) and all(_is_negative(v) for v in st.test.values):
                    st.test = ast.copy_location(ast.BoolOp(op=ast.And() if isinstance(st.test.op, ast.Or) else ast.Or(), values=[_positive(v) for v in st.test.values]), st.test)
                    st.body, st.orelse = st.orelse, st.body

        for n in ast.walk(fn):
            for fld in ("body", "orelse", "finalbody"):
                blk = getattr(n, fld, None)
                if isinstance(blk, list) and blk and isinstance(blk[0], ast.stmt):
                    fix(blk)
            if isinstance(n, ast.Try):
                for h in n.handlers:
                    fix(h.body)
    # a conditional expression that is the whole value of an assignment or a return is written as
    # the if/else statement it abbreviates:  `x = A if c else B`  ->  `if c: x = A else: x = B`
    # (plain-name targets only: the target is evaluated once either way)
    import copy as _copy

    def _expand(st: ast.stmt):
        v = getattr(st, "value", None)
        if not isinstance(v, ast.IfExp):
            return None
        if isinstance(st, ast.Return):
            mk = lambda e: ast.copy_location(ast.Return(value=e), st)  # noqa: E731
        elif isinstance(st, ast.Assign) and len(st.targets) == 1 and isinstance(st.targets[0], ast.Name):
            mk = lambda e: ast.copy_location(ast.Assign(targets=[_copy.deepcopy(st.targets[0])], value=e, type_comment=None), st)  # noqa: E731
        elif isinstance(st, ast.AnnAssign) and isinstance(st.target, ast.Name) and st.simple:
            mk = lambda e: ast.copy_location(ast.Assign(targets=[_copy.deepcopy(st.target)], value=e, type_comment=None), st)  # noqa: E731
        elif isinstance(st, ast.AugAssign) and isinstance(st.target, ast.Name):
            mk = lambda e: ast.copy_location(ast.AugAssign(target=_copy.deepcopy(st.target), op=st.op, value=e), st)  # noqa: E731
        else:
            return None
        return ast.copy_location(ast.If(test=v.test, body=[mk(v.body)], orelse=[mk(v.orelse)]), st)

    changed_ = True
    while changed_:
        changed_ = False
        for n in ast.walk(tree):
            if isinstance(n, ast.ClassDef) or isinstance(n, ast.Module):
                continue  # class / module level assignments stay expressions (constants are folded from them)
            for fld in ("body", "orelse", "finalbody"):
                blk = getattr(n, fld, None)
                if isinstance(blk, list):
                    for i, st in enumerate(blk):
                        if isinstance(st, ast.stmt):
                            r = _expand(st)
                            if r is not None:
                                blk[i] = r
                                changed_ = True
            if isinstance(n, ast.Try):
                for h in n.handlers:
                    for i, st in enumerate(h.body):
                        r = _expand(st)
                        if r is not None:
                            h.body[i] = r
                            changed_ = True
    ast.fix_missing_locations(tree)


def _canon_tree(tree: ast.AST) -> None:
    """Two rounds of ``_canon_once``: the passes feed each other (a result variable folded into its
    return exposes a conditional expression, whose expansion exposes an else after a leaving
    branch, ...); the second round reaches the common form, a third changes nothing."""
    _canon_once(tree)
    _canon_once(tree)


def _is_negative(e: ast.AST) -> bool:
    return (isinstance(e, ast.UnaryOp) and isinstance(e.op, ast.Not)) or (isinstance(e, ast.Compare) and len(e.ops) == 1 and isinstance(e.ops[0], (ast.IsNot, ast.NotEq, ast.NotIn)))


def _positive(e: ast.AST) -> ast.AST:
    if isinstance(e, ast.UnaryOp):
        return e.operand
    pos = {ast.IsNot: ast.Is, ast.NotEq: ast.Eq, ast.NotIn: ast.In}[type(e.ops[0])]
    return ast.copy_location(ast.Compare(left=e.left, ops=[pos()], comparators=e.comparators), e)


class Module:
    def __init__(self, name: str, relpath: str, source: str, is_pkg: bool):
        self.name = name
        self.relpath = relpath
        self.source = source
        self.is_pkg = is_pkg
        try:
            self.tree = ast.parse(source, filename=relpath)
        except SyntaxError as err:  # a variant that does not compile is not a variant
            raise AnalysisError(f"cannot parse {relpath}: {err}") from err
        _canon_tree(self.tree)
        self.imports: dict[str, str] = {}  # local name -> qualified name
        self.classes: dict[str, ClassInfo] = {}
        self.functions: dict[str, FuncInfo] = {}
        self.assigns: dict[str, ast.expr] = {}  # module-level NAME = expr (last wins)
        self._index()

    # -- indexing ---------------------------------------------------------
    def _pkg_parts(self) -> list[str]:
        parts = self.name.split(".")
        return parts if self.is_pkg else parts[:-1]

    def _index(self) -> None:
        for node in self._toplevel(self.tree.body):
            if isinstance(node, ast.ImportFrom):
                if node.level:
                    base = self._pkg_parts()
                    if node.level > 1:
                        base = base[: -(node.level - 1)]
                    mod = ".".join(base + (node.module.split(".") if node.module else []))
                else:
                    mod = node.module or ""
                for a in node.names:
                    self.imports[a.asname or a.name] = f"{mod}.{a.name}" if mod else a.name
            elif isinstance(node, ast.Import):
                for a in node.names:
                    if a.asname:
                        self.imports[a.asname] = a.name
                    else:
                        self.imports[a.name.split(".")[0]] = a.name.split(".")[0]
            elif isinstance(node, (ast.FunctionDef, ast.AsyncFunctionDef)):
                self.functions[node.name] = FuncInfo(
                    node.name, f"{self.name}.{node.name}", node, self
                )
            elif isinstance(node, ast.ClassDef):
                ci = ClassInfo(node.name, f"{self.name}.{node.name}", node, self)
                self.classes[node.name] = ci
                for sub in node.body:
                    if isinstance(sub, (ast.FunctionDef, ast.AsyncFunctionDef)):
                        ci.methods[sub.name] = FuncInfo(
                            sub.name, f"{ci.qual}.{sub.name}", sub, self, cls=ci
                        )
                    elif isinstance(sub, ast.Assign):
                        for t in sub.targets:
                            if isinstance(t, ast.Name):
                                ci.attrs[t.id] = sub.value
                    elif isinstance(sub, ast.AnnAssign) and sub.value is not None:
                        if isinstance(sub.target, ast.Name):
                            ci.attrs[sub.target.id] = sub.value
            elif isinstance(node, ast.Assign):
                for t in node.targets:
                    if isinstance(t, ast.Name):
                        self.assigns[t.id] = node.value
            elif isinstance(node, ast.AnnAssign) and node.value is not None:
                if isinstance(node.target, ast.Name):
                    self.assigns[node.target.id] = node.value

    def _toplevel(self, body) -> Iterator[ast.stmt]:
        """Top-level statements, looking inside ``if TYPE_CHECKING:`` / try blocks."""
        for node in body:
            if isinstance(node, ast.If):
                yield from self._toplevel(node.body)
                yield from self._toplevel(node.orelse)
            elif isinstance(node, ast.Try):
                yield from self._toplevel(node.body)
                for h in node.handlers:
                    yield from self._toplevel(h.body)
                yield from self._toplevel(node.orelse)
            else:
                yield node


class Repo:
    def __init__(self, root: Optional[str] = None, overlay: Optional[dict[str, str]] = None):
        self.root = root or os.environ.get("VERIF_REPO", "/repo")
        self.overlay = overlay or {}
        self.modules: dict[str, Module] = {}
        self.digest = ""
        self._load()
        self._mro_cache: dict[str, list] = {}
        self._subs: Optional[dict[str, list[ClassInfo]]] = None

    def _load(self) -> None:
        pkg_root = os.path.join(self.root, PKG)
        if not os.path.isdir(pkg_root):
            raise AnchorMissing(f"{pkg_root} is not a directory")
        h = hashlib.sha256()
        paths = []
        for dirpath, dirnames, filenames in os.walk(pkg_root):
            dirnames[:] = sorted(d for d in dirnames if d != "__pycache__")
            for fn in sorted(filenames):
                if fn.endswith(".py"):
                    paths.append(os.path.join(dirpath, fn))
        for path in paths:
            rel = os.path.relpath(path, self.root)
            if rel in self.overlay:
                src = self.overlay[rel]
            else:
                with open(path, encoding="utf-8") as fd:
                    src = fd.read()
            h.update(rel.encode())
            h.update(src.encode())
            parts = rel[:-3].split(os.sep)
            is_pkg = parts[-1] == "__init__"
            if is_pkg:
                parts = parts[:-1]
            name = ".".join(parts)
            self.modules[name] = Module(name, rel, src, is_pkg)
        for rel in sorted(self.overlay):
            if not any(m.relpath == rel for m in self.modules.values()):
                # a file the variant adds (a patch that creates a module)
                if not (rel.endswith(".py") and rel.startswith(PKG + os.sep)):
                    raise AnalysisError(f"overlay names unknown file {rel}")
                src = self.overlay[rel]
                h.update(rel.encode())
                h.update(src.encode())
                parts = rel[:-3].split(os.sep)
                is_pkg = parts[-1] == "__init__"
                if is_pkg:
                    parts = parts[:-1]
                name = ".".join(parts)
                self.modules[name] = Module(name, rel, src, is_pkg)
        self.digest = h.hexdigest()

    # -- lookup -------------------------------------------------------------
    def module(self, name: str) -> Module:
        try:
            return self.modules[name]
        except KeyError:
            raise AnchorMissing(f"module {name} not found") from None

    def resolve(self, qual: str, _depth: int = 0):
        """Resolve a qualified name to Module | ClassInfo | FuncInfo | ('const', mod, expr)
        | ('ext', qual). Follows re-exports."""
        if _depth > 12:
            return ("ext", qual)
        if qual in self.modules:
            return self.modules[qual]
        if "." not in qual:
            return ("ext", qual)
        head, _, last = qual.rpartition(".")
        owner = self.resolve(head, _depth + 1)
        if isinstance(owner, Module):
            if last in owner.classes:
                return owner.classes[last]
            if last in owner.functions:
                return owner.functions[last]
            if last in owner.assigns:
                return ("const", owner, owner.assigns[last])
            if last in owner.imports:
                return self.resolve(owner.imports[last], _depth + 1)
            sub = f"{owner.name}.{last}"
            if sub in self.modules:
                return self.modules[sub]
            return ("ext", qual)
        if isinstance(owner, ClassInfo):
            m = self.find_method(owner, last)
            if m:
                return m
            a = self.find_attr(owner, last)
            if a is not None:
                return ("const", a[0].module, a[1])
        return ("ext", qual)

    def resolve_in(self, module: Module, name: str):
        """Resolve a dotted name as written in *module* (``a.b.c``)."""
        head, *rest = name.split(".")
        if head in module.classes:
            base = module.classes[head].qual
        elif head in module.functions:
            base = module.functions[head].qual
        elif head in module.imports:
            base = module.imports[head]
        elif head in module.assigns:
            base = f"{module.name}.{head}"
        else:
            return ("ext", name)
        return self.resolve(".".join([base] + rest))

    def cls(self, qual: str) -> ClassInfo:
        r = self.resolve(qual)
        if not isinstance(r, ClassInfo):
            raise AnchorMissing(f"class {qual} not found")
        return r

    def func(self, qual: str) -> FuncInfo:
        r = self.resolve(qual)
        if not isinstance(r, FuncInfo):
            raise AnchorMissing(f"function {qual} not found")
        return r

    def own_method(self, cls_qual: str, name: str) -> FuncInfo:
        c = self.cls(cls_qual)
        if name not in c.methods:
            raise AnchorMissing(f"method {cls_qual}.{name} not found")
        return c.methods[name]

    def const(self, qual: str) -> ast.expr:
        r = self.resolve(qual)
        if isinstance(r, tuple) and r[0] == "const":
            return r[2]
        raise AnchorMissing(f"constant {qual} not found")

    # -- classes ------------------------------------------------------------
    def all_classes(self) -> Iterator[ClassInfo]:
        for m in self.modules.values():
            yield from m.classes.values()

    def bases(self, c: ClassInfo) -> list:
        out = []
        for b in c.base_exprs:
            if isinstance(b, ast.Subscript):  # Mapping[str, object]
                b = b.value
            txt = expr_text(b)
            r = self.resolve_in(c.module, txt)
            out.append(r if isinstance(r, ClassInfo) else ("ext", txt))
        return out

    def mro(self, c: ClassInfo) -> list:
        if c.qual in self._mro_cache:
            return self._mro_cache[c.qual]
        self._mro_cache[c.qual] = [c]  # cycle guard
        bases = self.bases(c)
        seqs = []
        for b in bases:
            seqs.append(list(self.mro(b)) if isinstance(b, ClassInfo) else [b])
        seqs.append(list(bases))
        res = [c]
        while True:
            seqs = [s for s in seqs if s]
            if not seqs:
                break
            for s in seqs:
                cand = s[0]
                if not any(_in_tail(cand, t) for t in seqs):
                    break
            else:
                raise AnalysisError(f"inconsistent MRO for {c.qual}")
            res.append(cand)
            for s in seqs:
                if s and _same(s[0], cand):
                    del s[0]
        self._mro_cache[c.qual] = res
        return res

    def mro_classes(self, c: ClassInfo) -> list[ClassInfo]:
        return [x for x in self.mro(c) if isinstance(x, ClassInfo)]

    def find_method(self, c: ClassInfo, name: str) -> Optional[FuncInfo]:
        for k in self.mro_classes(c):
            if name in k.methods:
                return k.methods[name]
        return None

    def find_attr(self, c: ClassInfo, name: str):
        for k in self.mro_classes(c):
            if name in k.attrs:
                return (k, k.attrs[name])
        return None

    def is_subclass(self, c: ClassInfo, base_qual: str) -> bool:
        return any(isinstance(k, ClassInfo) and k.qual == base_qual for k in self.mro(c))

    def subclasses(self, base_qual: str, strict: bool = False) -> list[ClassInfo]:
        return [
            c
            for c in self.all_classes()
            if self.is_subclass(c, base_qual) and not (strict and c.qual == base_qual)
        ]

    def ext_bases(self, c: ClassInfo) -> list[str]:
        return [x[1] for x in self.mro(c) if not isinstance(x, ClassInfo)]

    # -- functions ----------------------------------------------------------
    def all_functions(self) -> Iterator[FuncInfo]:
        for m in self.modules.values():
            yield from m.functions.values()
            for c in m.classes.values():
                yield from c.methods.values()

    def const_str(self, module: Module, expr: ast.expr) -> Optional[str]:
        """Constant-fold a string expression (literals, names of constants,
        sys.intern("..."), f-strings and + of constants)."""
        return fold_str(self, module, expr, 0)


def _same(a, b) -> bool:
    if isinstance(a, ClassInfo) and isinstance(b, ClassInfo):
        return a.qual == b.qual
    return a == b


def _in_tail(cand, seq) -> bool:
    return any(_same(cand, x) for x in seq[1:])


def fold_str(repo: Repo, module: Module, expr: ast.expr, depth: int) -> Optional[str]:
    if depth > 8:
        return None
    if isinstance(expr, ast.Constant) and isinstance(expr.value, str):
        return expr.value
    if isinstance(expr, ast.Call) and expr_text(expr.func) in ("sys.intern", "intern"):
        if len(expr.args) == 1:
            return fold_str(repo, module, expr.args[0], depth + 1)
    if isinstance(expr, (ast.Name, ast.Attribute)):
        r = repo.resolve_in(module, expr_text(expr))
        if isinstance(r, tuple) and r[0] == "const":
            return fold_str(repo, r[1], r[2], depth + 1)
        return None
    if isinstance(expr, ast.BinOp) and isinstance(expr.op, ast.Add):
        a = fold_str(repo, module, expr.left, depth + 1)
        b = fold_str(repo, module, expr.right, depth + 1)
        return a + b if a is not None and b is not None else None
    if isinstance(expr, ast.JoinedStr):
        parts = []
        for v in expr.values:
            if isinstance(v, ast.Constant):
                parts.append(str(v.value))
            elif isinstance(v, ast.FormattedValue) and v.format_spec is None and v.conversion == -1:
                s = fold_str(repo, module, v.value, depth + 1)
                if s is None:
                    return None
                parts.append(s)
            else:
                return None
        return "".join(parts)
    return None


def fold_str_set(repo: Repo, module: Module, expr: ast.expr) -> Optional[frozenset]:
    """Fold ``frozenset((A, B))`` / tuples / lists / sets of string constants."""
    if isinstance(expr, ast.Call) and expr_text(expr.func) in ("frozenset", "set", "tuple", "list"):
        if len(expr.args) == 1:
            return fold_str_set(repo, module, expr.args[0])
        if not expr.args:
            return frozenset()
    if isinstance(expr, (ast.Tuple, ast.List, ast.Set)):
        out = []
        for e in expr.elts:
            s = fold_str(repo, module, e, 0)
            if s is None:
                return None
            out.append(s)
        return frozenset(out)
    if isinstance(expr, (ast.Name, ast.Attribute)):
        r = repo.resolve_in(module, expr_text(expr))
        if isinstance(r, tuple) and r[0] == "const":
            return fold_str_set(repo, r[1], r[2])
    return None


def expr_text(node: ast.AST) -> str:
    try:
        return ast.unparse(node)
    except Exception:  # pragma: no cover
        return f"<{type(node).__name__}>"


def stmt_key(node: ast.AST, limit: int = 120) -> str:
    """Normalised single-line text of a statement/expression (for finding keys)."""
    txt = " ".join(expr_text(node).split())
    return txt if len(txt) <= limit else txt[: limit - 3] + "..."


def walk_no_nested(node: ast.AST) -> Iterator[ast.AST]:
    """Pre-order, source-order walk that does not descend into nested
    function/class/lambda bodies (the nested def node itself is yielded)."""
    for n in ast.iter_child_nodes(node):
        yield n
        if isinstance(n, (ast.FunctionDef, ast.AsyncFunctionDef, ast.ClassDef, ast.Lambda)):
            continue
        yield from walk_no_nested(n)


def body_without_docstring(fn: ast.AST) -> list[ast.stmt]:
    body = list(fn.body)
    if (
        body
        and isinstance(body[0], ast.Expr)
        and isinstance(body[0].value, ast.Constant)
        and isinstance(body[0].value.value, str)
    ):
        body = body[1:]
    return body


def set_parents(tree: ast.AST) -> None:
    for node in ast.walk(tree):
        for child in ast.iter_child_nodes(node):
            child._parent = node  # type: ignore[attr-defined]
