"""Character sets of regular-expression items, as exact bitmaps over all code points.

Patterns are *data* read from the repository's source (folded string constants); they are parsed
with ``re._parser`` and never matched against anything.  ``charset(item)`` gives the set of
characters a single-character item (literal, class, category, ``.``) accepts, as a Python int
used as a bitmap of 0x110000 bytes (one byte per code point, value 0 or 1), so that inclusion
between two classes — "everything the writer's pattern lets through, the reader's token pattern
accepts" — is decided exactly, not sampled.

``simple_shape(pattern)`` reads a pattern of the form  item (item | item* | item+ | item?)*  and
returns (first-set, rest-set, min_len, star-set): the characters allowed at position 0, at any
later position, and those of the unboundedly repeated items only.  Anything else returns None (the caller reports the pattern as not decidable).
"""

from __future__ import annotations

import re._constants as C  # type: ignore[import-not-found]
import re._parser as P  # type: ignore[import-not-found]
from functools import lru_cache
from typing import Optional

N = 0x110000


def _bitmap(pred) -> int:
    return int.from_bytes(bytes(1 if pred(chr(i)) else 0 for i in range(N)), "little")


@lru_cache(maxsize=None)
def _category(name: str) -> int:
    if name == "word":
        return _bitmap(lambda ch: ch.isalnum() or ch == "_")
    if name == "digit":
        return _bitmap(str.isdecimal)
    if name == "space":
        return _bitmap(str.isspace)
    raise ValueError(name)


@lru_cache(maxsize=None)
def _all() -> int:
    return int.from_bytes(bytes([1]) * N, "little")


def _one(cp: int) -> int:
    return 1 << (8 * cp)


def _range(lo: int, hi: int) -> int:
    return int.from_bytes(bytes(lo) + bytes([1]) * (hi - lo + 1), "little")


_CATS = {
    C.CATEGORY_WORD: ("word", False),
    C.CATEGORY_NOT_WORD: ("word", True),
    C.CATEGORY_DIGIT: ("digit", False),
    C.CATEGORY_NOT_DIGIT: ("digit", True),
    C.CATEGORY_SPACE: ("space", False),
    C.CATEGORY_NOT_SPACE: ("space", True),
}


def _cat(av) -> int:
    name, neg = _CATS[av]
    m = _category(name)
    return _all() ^ m if neg else m


def charset(op, av, dotall: bool = False) -> Optional[int]:
    """bitmap of the characters the single-character item (op, av) accepts; None if the item is
    not a single-character item"""
    if op is C.LITERAL:
        return _one(av)
    if op is C.NOT_LITERAL:
        return _all() ^ _one(av)
    if op is C.ANY:
        return _all() if dotall else _all() ^ _one(10)
    if op is C.CATEGORY:
        return _cat(av)
    if op is C.IN:
        m = 0
        neg = False
        for o, a in av:
            if o is C.NEGATE:
                neg = True
            elif o is C.LITERAL:
                m |= _one(a)
            elif o is C.RANGE:
                m |= _range(a[0], a[1])
            elif o is C.CATEGORY:
                m |= _cat(a)
            else:
                return None
        return _all() ^ m if neg else m
    return None


def subset(a: int, b: int) -> bool:
    return a & b == a


def witness(a: int, b: int) -> Optional[str]:
    """a character in a but not in b"""
    d = a & ~b
    if d == 0:
        return None
    low = (d & -d).bit_length() - 1
    return chr(low // 8)


def contains(a: int, ch: str) -> bool:
    return bool(a >> (8 * ord(ch)) & 1)


def simple_shape(pattern: str, flags: int = 0) -> Optional[tuple[int, int, int, int]]:
    """(first, rest, min_len) for patterns  item (item|item*|item+|item?)*  — a single mandatory
    first character followed by any number of single-character items, each possibly repeated."""
    try:
        tree = P.parse(pattern, flags)
    except Exception:  # noqa: BLE001
        return None
    items = list(tree)
    if not items:
        return None
    dotall = bool(flags & re_DOTALL)
    op, av = items[0]
    first = charset(op, av, dotall)
    if first is None:
        return None
    rest = 0
    star = 0
    n = 1
    for op, av in items[1:]:
        if op in (C.MAX_REPEAT, C.MIN_REPEAT):
            lo, _hi, sub = av
            sub = list(sub)
            if len(sub) != 1:
                return None
            m = charset(sub[0][0], sub[0][1], dotall)
            if m is None:
                return None
            rest |= m
            if _hi is C.MAXREPEAT:
                star |= m
            n += lo
        else:
            m = charset(op, av, dotall)
            if m is None:
                return None
            rest |= m
            n += 1
    return first, rest, n, star


re_DOTALL = 16  # re.DOTALL


def ends_anchored(pattern: str) -> bool:
    """the pattern can only match up to the end of the string (``$`` would allow a trailing
    newline: only ``\\Z`` counts)"""
    try:
        tree = list(P.parse(pattern))
    except Exception:  # noqa: BLE001
        return False
    return bool(tree) and tree[-1][0] is C.AT and tree[-1][1] is C.AT_END_STRING
