"""Thorough tier: mutation self-test of the rules.

Every property module may define ``selftest(repo) -> list[Variant]``. A variant is
an in-memory overlay of edited files (the edit is computed from the current tree;
nothing is written to disk and nothing is executed). The edited files must still
``compile()``; the property's rules are re-run on the variant and must produce a
*new* finding (key absent from the baseline run) whose key contains ``expect``.
A variant whose edit no longer applies to the current tree is counted as
``inapplicable`` (the tree under test may itself have been edited).
"""

from __future__ import annotations

import ast
import multiprocessing as mp
import os
from dataclasses import dataclass, field
from typing import Callable, Optional

from .model import AnalysisError, Repo


@dataclass
class Variant:
    name: str
    overlay: dict[str, str] = field(default_factory=dict)
    expect: str = ""
    # if True the variant is a *behaviour-preserving* edit and must NOT add findings
    silent: bool = False


class Inapplicable(Exception):
    pass


def text_edit(repo: Repo, relpath: str, old: str, new: str, count: int = 1) -> dict[str, str]:
    mod = next((m for m in repo.modules.values() if m.relpath == relpath), None)
    if mod is None or mod.source.count(old) < 1:
        raise Inapplicable(f"{relpath}: anchor text not found: {old[:50]!r}")
    if count == 1 and mod.source.count(old) != 1:
        raise Inapplicable(f"{relpath}: anchor text not unique: {old[:50]!r}")
    return {relpath: mod.source.replace(old, new) if count != 1 else mod.source.replace(old, new, 1)}


def ast_edit(repo: Repo, relpath: str, fn: Callable[[ast.Module], Optional[bool]]) -> dict[str, str]:
    mod = next((m for m in repo.modules.values() if m.relpath == relpath), None)
    if mod is None:
        raise Inapplicable(f"{relpath}: no such module")
    tree = ast.parse(mod.source)
    if fn(tree) is False:
        raise Inapplicable(f"{relpath}: ast edit did not apply")
    ast.fix_missing_locations(tree)
    return {relpath: ast.unparse(tree)}


def find_func(tree: ast.Module, cls: Optional[str], name: str):
    body = tree.body
    if cls:
        for n in ast.walk(tree):
            if isinstance(n, ast.ClassDef) and n.name == cls:
                body = n.body
                break
        else:
            return None
    for n in body:
        if isinstance(n, (ast.FunctionDef, ast.AsyncFunctionDef)) and n.name == name:
            return n
    return None


_G = {}


def _work(i: int):
    pid, variants, base_keys, root = _G["pid"], _G["variants"], _G["base_keys"], _G["root"]
    v = variants[i]
    try:
        for rel, src in v.overlay.items():
            compile(src, rel, "exec")
        from .check import run_rules

        repo = Repo(root, overlay=v.overlay)
        res = run_rules(pid, repo)
        new = [f.key for f in res.findings if f.key not in base_keys]
        if v.silent:
            return (v.name, "silent-ok" if not new else "noisy", new[:3])
        hit = [k for k in new if v.expect in k]
        return (v.name, "detected" if hit else "missed", (hit or new)[:3])
    except SyntaxError as err:
        return (v.name, "invalid", [str(err)])
    except AnalysisError as err:
        # an anchor the edit destroyed: the checker fails closed (exit 2) — counts as caught
        return (v.name, "detected" if not v.silent else "noisy", [f"ANALYSIS-ERROR {err}"])
    except Exception as err:  # noqa: BLE001
        return (v.name, "crashed", [repr(err)])


def run_selftest(pid: str, repo: Repo, base_res) -> dict:
    from .check import _load_prop

    mod = _load_prop(pid)
    gen = getattr(mod, "selftest", None)
    if gen is None:
        return {"variants": 0, "detected": 0, "missed": [], "note": "no self-test defined"}
    variants: list[Variant] = []
    inapplicable: list[str] = []
    for make in gen(repo):
        # each item is either a Variant or a zero-arg callable returning one
        try:
            v = make() if callable(make) else make
        except Inapplicable as err:
            inapplicable.append(str(err))
            continue
        variants.append(v)
    _G.update(
        pid=pid,
        variants=variants,
        base_keys={f.key for f in base_res.findings},
        root=repo.root,
    )
    jobs = min(16, os.cpu_count() or 1, max(1, len(variants)))
    if variants:
        ctx = mp.get_context("fork")
        with ctx.Pool(jobs) as pool:
            results = pool.map(_work, range(len(variants)), chunksize=1)
    else:
        results = []
    detected = [r for r in results if r[1] in ("detected", "silent-ok")]
    missed = [r for r in results if r[1] not in ("detected", "silent-ok")]
    for msg in inapplicable:
        print(f"SELFTEST-INAPPLICABLE property={pid} {msg}")
    for r in missed:
        print(f"SELFTEST-MISS property={pid} variant={r[0]} status={r[1]} got={r[2]}")
    return {
        "variants": len(variants),
        "detected": len(detected),
        "missed": [f"{r[0]} ({r[1]})" for r in missed],
        "inapplicable": inapplicable,
        "samples": [{"variant": r[0], "status": r[1], "finding": r[2][:1]} for r in results[:8]],
        "jobs": jobs,
    }
