"""Thorough tier: mutation self-test of the rules.

Every property module may define ``selftest(repo) -> list[Variant]``. A variant is
an in-memory overlay of edited files (the edit is computed from the current tree;
nothing is written to disk and nothing is executed). The edited files must still
``compile()``; the property's rules are re-run on the variant and must produce a
*new* finding (key absent from the baseline run) whose key contains ``expect``.
A variant whose edit no longer applies to the current tree is counted as
``inapplicable`` (the tree under test may itself have been edited).
"""

from __future__ import annotations

import ast
import multiprocessing as mp
import os
from dataclasses import dataclass, field
from typing import Callable, Optional

from .model import AnalysisError, Repo


@dataclass
class Variant:
    name: str
    overlay: dict[str, str] = field(default_factory=dict)
    expect: str = ""
    # if True the variant is a *behaviour-preserving* edit and must NOT add findings
    silent: bool = False


class Inapplicable(Exception):
    pass


def text_edit(repo: Repo, relpath: str, old: str, new: str, count: int = 1) -> dict[str, str]:
    mod = next((m for m in repo.modules.values() if m.relpath == relpath), None)
    if mod is None or mod.source.count(old) < 1:
        raise Inapplicable(f"{relpath}: anchor text not found: {old[:50]!r}")
    if count == 1 and mod.source.count(old) != 1:
        raise Inapplicable(f"{relpath}: anchor text not unique: {old[:50]!r}")
    return {relpath: mod.source.replace(old, new) if count != 1 else mod.source.replace(old, new, 1)}


def ast_edit(repo: Repo, relpath: str, fn: Callable[[ast.Module], Optional[bool]]) -> dict[str, str]:
    mod = next((m for m in repo.modules.values() if m.relpath == relpath), None)
    if mod is None:
        raise Inapplicable(f"{relpath}: no such module")
    tree = ast.parse(mod.source)
    if fn(tree) is False:
        raise Inapplicable(f"{relpath}: ast edit did not apply")
    ast.fix_missing_locations(tree)
    return {relpath: ast.unparse(tree)}


def patch_overlay(repo: Repo, patch_path: str) -> dict[str, str]:
    """The files of ``repo`` after applying a unified diff, as an overlay (nothing is written
    under the repository: the touched files are copied to a scratch directory outside /repo and
    /verif, patched there with ``patch -p1`` and read back; the directory is removed)."""
    import re
    import shutil
    import subprocess
    import tempfile

    with open(patch_path, encoding="utf-8") as fd:
        diff = fd.read()
    touched = sorted(set(re.findall(r"^\+\+\+ b/(\S+)", diff, flags=re.M)) | set(re.findall(r"^--- a/(\S+)", diff, flags=re.M)))
    touched = [t for t in touched if t != "/dev/null"]
    tmp = tempfile.mkdtemp(prefix="verifpatch_", dir="/tmp")
    try:
        by_rel = {m.relpath: m for m in repo.modules.values()}
        for rel in touched:
            dst = os.path.join(tmp, rel)
            os.makedirs(os.path.dirname(dst), exist_ok=True)
            if rel in by_rel:
                with open(dst, "w", encoding="utf-8") as out:
                    out.write(by_rel[rel].source)
        r = subprocess.run(["patch", "-p1", "-s", "-f", "-d", tmp, "-i", os.path.abspath(patch_path)], capture_output=True, text=True)
        if r.returncode != 0:
            raise Inapplicable(f"{os.path.basename(os.path.dirname(patch_path))}: patch does not apply to the tree under test ({(r.stdout + r.stderr).strip()[:80]})")
        overlay = {}
        for rel in touched:
            dst = os.path.join(tmp, rel)
            if os.path.exists(dst) and rel.endswith(".py"):
                with open(dst, encoding="utf-8") as fd:
                    overlay[rel] = fd.read()
        return overlay
    finally:
        shutil.rmtree(tmp, ignore_errors=True)


def recorded_variants(pid: str, repo: Repo) -> list:
    """Variants from the committed records: every kept seeded change for this property must be
    detected by it, and every behaviour-preserving patch of the benign rounds must leave it
    silent (tools/seed_eval.py / tools/benign_eval.py wrote the records)."""
    import glob
    import json

    here = os.path.dirname(os.path.dirname(os.path.abspath(__file__)))
    out = []
    for meta_path in sorted(glob.glob(os.path.join(here, "seeded", "*", "meta.json"))):
        with open(meta_path, encoding="utf-8") as fd:
            meta = json.load(fd)
        if meta.get("property") != pid or not meta.get("confirmed", True):
            continue
        patch = os.path.join(os.path.dirname(meta_path), "patch.diff")
        out.append(lambda patch=patch, meta=meta: Variant(f"seed:{meta['name']}", patch_overlay(repo, patch), ""))  # any new finding of this property
    for meta_path in sorted(glob.glob(os.path.join(here, "benign", "*", "meta.json"))):
        with open(meta_path, encoding="utf-8") as fd:
            meta = json.load(fd)
        for pf, rec in sorted(meta.get("patches", {}).items()):
            if rec.get("usable") is False or rec.get("verdict") == "not-preserving":
                continue
            patch = os.path.join(os.path.dirname(meta_path), pf)
            out.append(lambda patch=patch, meta=meta, pf=pf: Variant(f"benign:{meta['name']}/{pf}", patch_overlay(repo, patch), "", silent=True))
    return out


def metamorphic_variants(pid: str, repo: Repo) -> list:
    """Automatic behaviour-preserving rewrites (sa/metamorph.py: rename locals, hoist a config
    attribute, name the result / the condition, flip a comparison, negate an if/else) of every
    function in the property's anchor files.  Each must leave the check silent: a rule that
    fires on one of them depends on how the code is spelled, not on what it does."""
    import json

    from .metamorph import variants

    here = os.path.dirname(os.path.dirname(os.path.abspath(__file__)))
    files = []
    with open(os.path.join(here, "properties.jsonl"), encoding="utf-8") as fd:
        for line in fd:
            d = json.loads(line)
            if d["id"] == pid:
                files = [f for f in d["anchors"]["files"] if f.endswith(".py")]
    return [Variant(name, overlay, "", silent=True) for name, overlay in variants(repo, files)]


def find_func(tree: ast.Module, cls: Optional[str], name: str):
    body = tree.body
    if cls:
        for n in ast.walk(tree):
            if isinstance(n, ast.ClassDef) and n.name == cls:
                body = n.body
                break
        else:
            return None
    for n in body:
        if isinstance(n, (ast.FunctionDef, ast.AsyncFunctionDef)) and n.name == name:
            return n
    return None


_G = {}


def _work(i: int):
    pid, variants, base_keys, root = _G["pid"], _G["variants"], _G["base_keys"], _G["root"]
    v = variants[i]
    try:
        for rel, src in v.overlay.items():
            compile(src, rel, "exec")
        from .check import run_rules

        repo = Repo(root, overlay=v.overlay)
        res = run_rules(pid, repo)
        new = [f.key for f in res.findings if f.key not in base_keys]
        if v.silent:
            return (v.name, "silent-ok" if not new else "noisy", new[:3])
        hit = [k for k in new if v.expect in k]
        return (v.name, "detected" if hit else "missed", (hit or new)[:3])
    except SyntaxError as err:
        return (v.name, "invalid", [str(err)])
    except AnalysisError as err:
        # an anchor the edit destroyed: the checker fails closed (exit 2) — counts as caught
        return (v.name, "detected" if not v.silent else "noisy", [f"ANALYSIS-ERROR {err}"])
    except Exception as err:  # noqa: BLE001
        return (v.name, "crashed", [repr(err)])


def run_selftest(pid: str, repo: Repo, base_res) -> dict:
    from .check import _load_prop

    mod = _load_prop(pid)
    gen = getattr(mod, "selftest", None)
    if gen is None:
        gen = lambda _repo: []  # noqa: E731
    variants: list[Variant] = []
    inapplicable: list[str] = []
    scope = os.environ.get("VERIF_SELFTEST", "all")  # hand | recorded | all (development aid)
    for make in list(gen(repo)) + (recorded_variants(pid, repo) if scope != "hand" else []):
        # each item is either a Variant or a zero-arg callable returning one
        try:
            v = make() if callable(make) else make
        except Inapplicable as err:
            inapplicable.append(str(err))
            continue
        variants.append(v)
    n_hand = len(variants)
    if scope == "all":
        variants += metamorphic_variants(pid, repo)
    _G.update(
        pid=pid,
        variants=variants,
        base_keys={f.key for f in base_res.findings},
        root=repo.root,
    )
    jobs = min(16, os.cpu_count() or 1, max(1, len(variants)))
    if variants:
        ctx = mp.get_context("fork")
        with ctx.Pool(jobs) as pool:
            results = pool.map(_work, range(len(variants)), chunksize=1 if len(variants) < 200 else 4)
    else:
        results = []
    detected = [r for r in results if r[1] in ("detected", "silent-ok")]
    missed = [r for r in results if r[1] not in ("detected", "silent-ok")]
    for msg in inapplicable:
        print(f"SELFTEST-INAPPLICABLE property={pid} {msg}")
    for r in missed:
        print(f"SELFTEST-MISS property={pid} variant={r[0]} status={r[1]} got={r[2]}")
    return {
        "variants": len(variants),
        "metamorphic_variants": len(variants) - n_hand,
        "detected": len(detected),
        "missed": [f"{r[0]} ({r[1]})" for r in missed],
        "inapplicable": inapplicable,
        "samples": [{"variant": r[0], "status": r[1], "finding": r[2][:1]} for r in results[:8]],
        "jobs": jobs,
    }
