"""Path conditions of the exits of a small function — structured, no solver.

``exits(fn)`` walks the statement tree of a function and returns every ``raise`` / ``return``
(and the fall-through end) with the list of *conjuncts* that hold when it is reached:

    if A: return            ->  return  under [A]
    if B and C: raise E     ->  raise E under [not A, B, C]
    ...                         end     under [not A, not (B and C)]

Conjuncts are normalised (``canon``): ``and`` is flattened, negation is pushed inwards
(``not (x is None)`` -> ``x is not None``, ``not a > b`` -> ``a <= b``, De Morgan over ``or`` when it
yields conjuncts), comparisons are oriented (``b < a`` -> ``a > b``, ``b <= a`` -> ``a >= b``) and
arithmetic is put into the commutative normal form of ``sa/symb.py``.  Loops, ``try`` and ``with``
bodies are entered with the same conditions (their own control flow adds nothing to a *guard*).

A guard rule then reads: "the only ``raise LimitError`` is reached under exactly {limit is not
None, measure > limit}" — independent of whether the author wrote an early return, a nested
``if``, ``if not (...)``, or flipped the comparison.
"""

from __future__ import annotations

import ast
import copy
from dataclasses import dataclass, field
from typing import Optional

from . import symb

_FLIP = {ast.Lt: ast.Gt, ast.LtE: ast.GtE, ast.Gt: ast.Lt, ast.GtE: ast.LtE}
_NEG = {ast.Lt: ast.GtE, ast.LtE: ast.Gt, ast.Gt: ast.LtE, ast.GtE: ast.Lt, ast.Eq: ast.NotEq, ast.NotEq: ast.Eq, ast.Is: ast.IsNot, ast.IsNot: ast.Is, ast.In: ast.NotIn, ast.NotIn: ast.In}


def _neg(e: ast.expr) -> list[ast.expr]:
    """conjuncts of ``not e``"""
    if isinstance(e, ast.UnaryOp) and isinstance(e.op, ast.Not):
        return conjuncts(e.operand)
    if isinstance(e, ast.BoolOp) and isinstance(e.op, ast.Or):
        out = []
        for v in e.values:
            out += _neg(v)
        return out
    if isinstance(e, ast.Compare) and len(e.ops) == 1 and type(e.ops[0]) in _NEG:
        return [ast.Compare(left=e.left, ops=[_NEG[type(e.ops[0])]()], comparators=e.comparators)]
    return [ast.UnaryOp(op=ast.Not(), operand=e)]


def conjuncts(e: ast.expr) -> list[ast.expr]:
    if isinstance(e, ast.BoolOp) and isinstance(e.op, ast.And):
        out = []
        for v in e.values:
            out += conjuncts(v)
        return out
    if isinstance(e, ast.UnaryOp) and isinstance(e.op, ast.Not):
        return _neg(e.operand)
    return [e]


def canon(e: ast.expr) -> str:
    """normal-form text of one conjunct"""
    e = copy.deepcopy(e)
    if isinstance(e, ast.Compare) and len(e.ops) == 1 and isinstance(e.ops[0], (ast.Lt, ast.LtE)):
        e = ast.Compare(left=e.comparators[0], ops=[_FLIP[type(e.ops[0])]()], comparators=[e.left])
    ast.fix_missing_locations(e)
    return symb.norm(e)


@dataclass
class Exit:
    kind: str  # "raise" | "return" | "end"
    node: Optional[ast.stmt]
    conds: list = field(default_factory=list)  # list[ast.expr]

    @property
    def canon(self) -> list[str]:
        return sorted({canon(c) for c in self.conds})

    def raised(self) -> str:
        if self.kind != "raise" or self.node is None or self.node.exc is None:
            return ""
        x = self.node.exc
        if isinstance(x, ast.Call):
            x = x.func
        return ast.unparse(x).split(".")[-1]


def _always_leaves(body: list[ast.stmt]) -> bool:
    if not body:
        return False
    last = body[-1]
    if isinstance(last, (ast.Return, ast.Raise, ast.Continue, ast.Break)):
        return True
    if isinstance(last, ast.If):
        return bool(last.orelse) and _always_leaves(last.body) and _always_leaves(last.orelse)
    return False


def inner_conditions(root: ast.AST) -> dict[int, list]:
    """id(sub-expression) -> conjuncts that hold whenever that sub-expression of ``root`` is
    evaluated: the test (or its negation) of every enclosing conditional expression and the
    operands to the left of it in an enclosing ``and`` / ``or``."""
    out: dict[int, list] = {}

    def go(e: ast.AST, cs: list) -> None:
        out[id(e)] = cs
        if isinstance(e, ast.IfExp):
            go(e.test, cs)
            go(e.body, cs + conjuncts(e.test))
            go(e.orelse, cs + _neg(e.test))
        elif isinstance(e, ast.BoolOp):
            acc = list(cs)
            for v in e.values:
                go(v, list(acc))
                acc += conjuncts(v) if isinstance(e.op, ast.And) else _neg(v)
        elif isinstance(e, (ast.Lambda, ast.FunctionDef, ast.AsyncFunctionDef)):
            return
        else:
            for ch in ast.iter_child_nodes(e):
                go(ch, cs)

    go(root, [])
    return out


def entry_conditions(fn: ast.AST) -> dict[int, list]:
    """id(statement) -> the conditions under which the *blocks* enclosing it were entered (the
    path conditions of the first statement of every enclosing block, innermost last).  Unlike
    ``conditions`` this is not affected by assignments made inside the block before the
    statement: it answers "which branch is this in", about the values tested at the branch."""
    at = {id(st): cs for st, cs in conditions(fn)}
    out: dict[int, list] = {}

    def go(body: list, inherited: list) -> None:
        if not body:
            return
        entry = inherited + [c for c in at.get(id(body[0]), []) if all(c is not x for x in inherited)]
        for st in body:
            out[id(st)] = entry
            for fld in ("body", "orelse", "finalbody"):
                sub = getattr(st, fld, None)
                if isinstance(sub, list) and sub and isinstance(sub[0], ast.stmt):
                    go(sub, entry)
            if isinstance(st, ast.Try):
                for h in st.handlers:
                    go(h.body, entry)

    go(list(fn.body), [])
    return out


def conditions(fn: ast.AST) -> list[tuple[ast.stmt, list]]:
    """(statement, conjuncts that hold whenever it runs) for every statement of ``fn`` (nested
    defs excluded) — the same path conditions ``exits`` attaches to raise/return."""
    rec: list[tuple[ast.stmt, list]] = []
    exits(fn, resolve_locals=False, _record=rec)
    return rec


_MUTATORS = {"append", "extend", "insert", "pop", "remove", "clear", "update", "setdefault", "popitem", "add", "discard", "appendleft", "popleft", "sort", "reverse", "push"}


def _chain(e: ast.AST) -> Optional[str]:
    parts = []
    while isinstance(e, ast.Attribute):
        parts.append(e.attr)
        e = e.value
    if isinstance(e, ast.Name):
        return ".".join([e.id] + parts[::-1])
    return None


def stored_in(st: ast.AST) -> set[str]:
    """names / attribute chains whose value may change when ``st`` runs (assignment targets, loop
    and with targets, deleted names, receivers of in-place container methods)"""
    out: set[str] = set()
    for n in ast.walk(st):
        if isinstance(n, (ast.FunctionDef, ast.AsyncFunctionDef, ast.Lambda)) and n is not st:
            continue
        if isinstance(n, ast.Name) and isinstance(n.ctx, (ast.Store, ast.Del)):
            out.add(n.id)
        elif isinstance(n, ast.Attribute) and isinstance(n.ctx, (ast.Store, ast.Del)):
            c = _chain(n)
            if c:
                out.add(c)
        elif isinstance(n, ast.Subscript) and isinstance(n.ctx, (ast.Store, ast.Del)):
            c = _chain(n.value)
            if c:
                out.add(c)
        elif isinstance(n, ast.Call) and isinstance(n.func, ast.Attribute) and n.func.attr in _MUTATORS:
            c = _chain(n.func.value)
            if c:
                out.add(c)
        elif isinstance(n, ast.Call) and isinstance(n.func, ast.Name) and n.func.id == "next" and n.args:
            c = _chain(n.args[0])
            if c:
                out.add(c)
    return out


def _mentions(c: ast.AST, stored: set[str]) -> bool:
    for n in ast.walk(c):
        if isinstance(n, ast.Name) and n.id in stored:
            return True
        if isinstance(n, ast.Attribute):
            ch = _chain(n)
            if ch and any(ch == s_ or ch.startswith(s_ + ".") or s_.startswith(ch + ".") for s_ in stored if "." in s_):
                return True
    return False


def _kill(conds: list, stored: set[str]) -> list:
    """a condition about something that has since been assigned is no longer known"""
    if not stored:
        return conds
    return [c for c in conds if not _mentions(c, stored)]


def exits(fn: ast.AST, resolve_locals: bool = True, _record: Optional[list] = None) -> list[Exit]:
    out: list[Exit] = []

    def block(body: list[ast.stmt], conds: list) -> Optional[list]:
        """conditions at the fall-through end of ``body`` (None: never falls through)"""
        conds = list(conds)
        for st in body:
            if _record is not None:
                _record.append((st, list(conds)))
            if isinstance(st, ast.Return):
                out.append(Exit("return", st, list(conds)))
                return None
            if isinstance(st, ast.Raise):
                out.append(Exit("raise", st, list(conds)))
                return None
            if isinstance(st, ast.If):
                pos = conjuncts(st.test)
                neg = _neg(st.test)
                e1 = block(st.body, conds + pos)
                e2 = block(st.orelse, conds + neg) if st.orelse else conds + neg
                if e1 is None and e2 is None:
                    return None
                if e1 is None:
                    conds = e2
                elif e2 is None:
                    conds = e1
                else:
                    conds = _kill(conds, stored_in(st))
                    # both fall through: what holds afterwards is the disjunction of what each
                    # branch established (kept as ONE conjunct `(a and b) or (c)`)
                    base_ids = {id(c) for c in conds}
                    x1 = [c for c in e1 if id(c) not in base_ids]
                    x2 = [c for c in e2 if id(c) not in base_ids]
                    taut = {canon(c) for c in x1} == {canon(c) for c in pos} and {canon(c) for c in x2} == {canon(c) for c in neg}
                    if x1 and x2 and not taut:  # `A or not A` says nothing
                        def conj(xs):
                            return xs[0] if len(xs) == 1 else ast.BoolOp(op=ast.And(), values=list(xs))

                        conds = conds + [ast.BoolOp(op=ast.Or(), values=[conj(x1), conj(x2)])]
                continue
            if isinstance(st, (ast.Continue, ast.Break)):
                # leaves this iteration: what follows in the block runs only if we did not get here
                return None
            if isinstance(st, (ast.For, ast.AsyncFor, ast.While)):
                # what the loop assigns is unknown from the second iteration on, and afterwards
                conds = _kill(conds, stored_in(st))
                block(st.body, conds)
                block(st.orelse, conds)
                continue
            if isinstance(st, (ast.With, ast.AsyncWith)):
                r = block(st.body, _kill(conds, set().union(*[stored_in(i) for i in st.items])))
                if r is None:
                    return None
                conds = _kill(conds, stored_in(st))
                continue
            if isinstance(st, ast.Try):
                r = block(st.body, conds)
                after = _kill(conds, stored_in(st))
                for h in st.handlers:
                    block(h.body, _kill(conds, stored_in(ast.Module(body=st.body, type_ignores=[]))))
                block(st.orelse, after)
                block(st.finalbody, after)
                if r is None and all(_always_leaves(h.body) for h in st.handlers) and st.handlers:
                    return None
                conds = after
                continue
            # a simple statement: whatever it assigns is no longer what the conditions spoke about
            conds = _kill(conds, stored_in(st))
        return conds

    body = list(fn.body)
    end = block(body, [])
    if end is not None:
        out.append(Exit("end", None, end))
    if resolve_locals:
        # substitute locals bound exactly once by a top-level assignment (their definition
        # dominates every later test): `n = product(...)`, `if n > limit: raise`  ->  product(...) > limit
        count: dict[str, int] = {}
        for n in ast.walk(fn):
            if isinstance(n, ast.Name) and isinstance(n.ctx, (ast.Store, ast.Del)):
                count[n.id] = count.get(n.id, 0) + 1
        env: dict[str, ast.expr] = {}
        for st in body:
            tgt, val = None, None
            if isinstance(st, ast.Assign) and len(st.targets) == 1 and isinstance(st.targets[0], ast.Name):
                tgt, val = st.targets[0].id, st.value
            elif isinstance(st, ast.AnnAssign) and isinstance(st.target, ast.Name) and st.value is not None:
                tgt, val = st.target.id, st.value
            if tgt is not None and count.get(tgt) == 1:
                env[tgt] = symb.subst(val, env)
        if env:
            for e in out:
                e.conds = [symb.subst(c, env) for c in e.conds]
    return out


def raises_of(fn: ast.AST, exc_name: str) -> list[Exit]:
    return [e for e in exits(fn) if e.kind == "raise" and e.raised() == exc_name]
