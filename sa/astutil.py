"""Small AST helpers shared by the property modules."""

from __future__ import annotations

import ast
from typing import Iterator, Optional

from .model import expr_text, walk_no_nested


def bind_args(call: ast.Call, fn: ast.AST, skip_self: bool = True) -> Optional[dict[str, ast.expr]]:
    """Bind the arguments of *call* to the parameter names of function node *fn*.
    Returns None if the call uses * / ** in a way that prevents static binding of
    named parameters (a trailing ``**kwargs`` is recorded under key ``**``)."""
    a = fn.args
    pos = [x.arg for x in a.posonlyargs + a.args]
    if skip_self and pos and pos[0] in ("self", "cls"):
        pos = pos[1:]
    kwonly = [x.arg for x in a.kwonlyargs]
    out: dict[str, ast.expr] = {}
    i = 0
    for arg in call.args:
        if isinstance(arg, ast.Starred):
            out["*"] = arg.value
            continue
        if i < len(pos):
            out[pos[i]] = arg
        else:
            out.setdefault("*extra", arg)
        i += 1
    for k in call.keywords:
        if k.arg is None:
            out["**"] = k.value
        else:
            if k.arg in out:
                return None
            out[k.arg] = k.value
    return out


def is_name(node: ast.AST, name: str) -> bool:
    return isinstance(node, ast.Name) and node.id == name


def is_self_attr(node: ast.AST, attr: Optional[str] = None) -> bool:
    return (
        isinstance(node, ast.Attribute)
        and isinstance(node.value, ast.Name)
        and node.value.id == "self"
        and (attr is None or node.attr == attr)
    )


def attr_chain(node: ast.AST) -> Optional[list[str]]:
    """``a.b.c`` -> ['a','b','c']; None if not a pure name/attribute chain."""
    parts = []
    while isinstance(node, ast.Attribute):
        parts.append(node.attr)
        node = node.value
    if isinstance(node, ast.Name):
        parts.append(node.id)
        return parts[::-1]
    return None


def calls(node: ast.AST, nested: bool = False) -> Iterator[ast.Call]:
    it = ast.walk(node) if nested else walk_no_nested(node)
    for n in it:
        if isinstance(n, ast.Call):
            yield n


def callee_name(call: ast.Call) -> str:
    f = call.func
    if isinstance(f, ast.Attribute):
        return f.attr
    if isinstance(f, ast.Name):
        return f.id
    return ""


def unwrap_await(node: ast.AST) -> ast.AST:
    while isinstance(node, ast.Await):
        node = node.value
    return node


def names_in(node: ast.AST) -> set[str]:
    return {n.id for n in ast.walk(node) if isinstance(n, ast.Name)}


def single_assignments(fn: ast.AST) -> dict[str, ast.expr]:
    """local name -> value, for names assigned exactly once by a plain ``x = e``
    (no augmented assignment, loop target, with-as, ...)."""
    count: dict[str, int] = {}
    val: dict[str, ast.expr] = {}
    for n in walk_no_nested(fn):
        if isinstance(n, ast.Name) and isinstance(n.ctx, ast.Store):
            count[n.id] = count.get(n.id, 0) + 1
    for n in walk_no_nested(fn):
        tgt = None
        if isinstance(n, ast.Assign) and len(n.targets) == 1 and isinstance(n.targets[0], ast.Name):
            tgt, v = n.targets[0].id, n.value
        elif isinstance(n, ast.AnnAssign) and isinstance(n.target, ast.Name) and n.value is not None:
            tgt, v = n.target.id, n.value
        if tgt and count.get(tgt) == 1:
            val[tgt] = v
    return val


def resolve_local(expr: ast.AST, assigns: dict[str, ast.expr], depth: int = 4) -> ast.AST:
    """Follow single-assignment local aliases: ``x`` -> the expression bound to x."""
    while depth and isinstance(expr, ast.Name) and expr.id in assigns:
        expr = assigns[expr.id]
        depth -= 1
    return expr


def text(node: ast.AST) -> str:
    return " ".join(expr_text(node).split())


def handler_types(h: ast.ExceptHandler) -> list[str]:
    if h.type is None:
        return ["BaseException"]
    if isinstance(h.type, ast.Tuple):
        return [expr_text(e) for e in h.type.elts]
    return [expr_text(h.type)]


def parent_map(tree: ast.AST) -> dict[int, ast.AST]:
    pm = {}
    for n in ast.walk(tree):
        for c in ast.iter_child_nodes(n):
            pm[id(c)] = n
    return pm
