"""Small AST helpers shared by the property modules."""

from __future__ import annotations

import ast
from typing import Iterator, Optional

from .model import expr_text, walk_no_nested


def bind_args(call: ast.Call, fn: ast.AST, skip_self: bool = True) -> Optional[dict[str, ast.expr]]:
    """Bind the arguments of *call* to the parameter names of function node *fn*.
    Returns None if the call uses * / ** in a way that prevents static binding of
    named parameters (a trailing ``**kwargs`` is recorded under key ``**``)."""
    a = fn.args
    pos = [x.arg for x in a.posonlyargs + a.args]
    if skip_self and pos and pos[0] in ("self", "cls"):
        pos = pos[1:]
    kwonly = [x.arg for x in a.kwonlyargs]
    out: dict[str, ast.expr] = {}
    i = 0
    for arg in call.args:
        if isinstance(arg, ast.Starred):
            out["*"] = arg.value
            continue
        if i < len(pos):
            out[pos[i]] = arg
        else:
            out.setdefault("*extra", arg)
        i += 1
    for k in call.keywords:
        if k.arg is None:
            out["**"] = k.value
        else:
            if k.arg in out:
                return None
            out[k.arg] = k.value
    return out


def is_name(node: ast.AST, name: str) -> bool:
    return isinstance(node, ast.Name) and node.id == name


def is_self_attr(node: ast.AST, attr: Optional[str] = None) -> bool:
    return (
        isinstance(node, ast.Attribute)
        and isinstance(node.value, ast.Name)
        and node.value.id == "self"
        and (attr is None or node.attr == attr)
    )


def attr_chain(node: ast.AST) -> Optional[list[str]]:
    """``a.b.c`` -> ['a','b','c']; None if not a pure name/attribute chain."""
    parts = []
    while isinstance(node, ast.Attribute):
        parts.append(node.attr)
        node = node.value
    if isinstance(node, ast.Name):
        parts.append(node.id)
        return parts[::-1]
    return None


def calls(node: ast.AST, nested: bool = False) -> Iterator[ast.Call]:
    it = ast.walk(node) if nested else walk_no_nested(node)
    for n in it:
        if isinstance(n, ast.Call):
            yield n


def callee_name(call: ast.Call) -> str:
    f = call.func
    if isinstance(f, ast.Attribute):
        return f.attr
    if isinstance(f, ast.Name):
        return f.id
    return ""


def call_recv(call: ast.AST) -> Optional[ast.AST]:
    """the receiver of a method call ``<recv>.m(...)``; None for ``f(...)`` (a bare name, e.g. a
    bound method cached in a local) and for non-calls — rules never crash on the latter."""
    f = getattr(call, "func", None)
    return f.value if isinstance(f, ast.Attribute) else None


def unwrap_await(node: ast.AST) -> ast.AST:
    while isinstance(node, ast.Await):
        node = node.value
    return node


def names_in(node: ast.AST) -> set[str]:
    return {n.id for n in ast.walk(node) if isinstance(n, ast.Name)}


def single_assignments(fn: ast.AST) -> dict[str, ast.expr]:
    """local name -> value, for names assigned exactly once by a plain ``x = e``
    (no augmented assignment, loop target, with-as, ...)."""
    count: dict[str, int] = {}
    val: dict[str, ast.expr] = {}
    for n in walk_no_nested(fn):
        if isinstance(n, ast.Name) and isinstance(n.ctx, ast.Store):
            count[n.id] = count.get(n.id, 0) + 1
    for n in walk_no_nested(fn):
        tgt = None
        if isinstance(n, ast.Assign) and len(n.targets) == 1 and isinstance(n.targets[0], ast.Name):
            tgt, v = n.targets[0].id, n.value
        elif isinstance(n, ast.AnnAssign) and isinstance(n.target, ast.Name) and n.value is not None:
            tgt, v = n.target.id, n.value
        if tgt and count.get(tgt) == 1:
            val[tgt] = v
    return val


def resolve_local(expr: ast.AST, assigns: dict[str, ast.expr], depth: int = 4) -> ast.AST:
    """Follow single-assignment local aliases: ``x`` -> the expression bound to x."""
    while depth and isinstance(expr, ast.Name) and expr.id in assigns:
        expr = assigns[expr.id]
        depth -= 1
    return expr


def text(node: ast.AST) -> str:
    return " ".join(expr_text(node).split())


def handler_types(h: ast.ExceptHandler) -> list[str]:
    if h.type is None:
        return ["BaseException"]
    if isinstance(h.type, ast.Tuple):
        return [expr_text(e) for e in h.type.elts]
    return [expr_text(h.type)]


def parent_map(tree: ast.AST) -> dict[int, ast.AST]:
    pm = {}
    for n in ast.walk(tree):
        for c in ast.iter_child_nodes(n):
            pm[id(c)] = n
    return pm


# ---------------------------------------------------------------------------------------------
# index-in-range guards
def _always_exits(body: list[ast.stmt]) -> bool:
    """every path through ``body`` leaves the enclosing block (return/raise/continue/break)."""
    if not body:
        return False
    last = body[-1]
    if isinstance(last, (ast.Return, ast.Raise, ast.Continue, ast.Break)):
        return True
    if isinstance(last, ast.If):
        return bool(last.orelse) and _always_exits(last.body) and _always_exits(last.orelse)
    return False


def _implies_ge_len(test: ast.AST, idx: str, seq: str, negate: bool = False) -> bool:
    """Does ``test`` (or ``not test`` when negate) being TRUE imply ``idx >= len(seq)``?

    Only the direct forms are recognised; the answer False means "not proven".
    """

    def is_len(e):
        return isinstance(e, ast.Call) and is_name(e.func, "len") and len(e.args) == 1 and is_name(e.args[0], seq) and not e.keywords

    if isinstance(test, ast.UnaryOp) and isinstance(test.op, ast.Not):
        return _implies_ge_len(test.operand, idx, seq, not negate)
    if isinstance(test, ast.BoolOp):
        if isinstance(test.op, ast.And) and not negate:
            return any(_implies_ge_len(v, idx, seq, negate) for v in test.values)
        if isinstance(test.op, ast.Or) and not negate:
            return all(_implies_ge_len(v, idx, seq, negate) for v in test.values)
        if isinstance(test.op, ast.Or) and negate:  # not (a or b) = not a and not b
            return any(_implies_ge_len(v, idx, seq, negate) for v in test.values)
        if isinstance(test.op, ast.And) and negate:
            return all(_implies_ge_len(v, idx, seq, negate) for v in test.values)
        return False
    if isinstance(test, ast.Compare) and len(test.ops) == 1:
        l, op, r = test.left, test.ops[0], test.comparators[0]
        if not negate:
            # idx >= len(seq) | len(seq) <= idx | idx == len(seq) is not enough
            if is_name(l, idx) and is_len(r) and isinstance(op, ast.GtE):
                return True
            if is_len(l) and is_name(r, idx) and isinstance(op, ast.LtE):
                return True
        else:
            # not (idx < len(seq)) | not (len(seq) > idx)
            if is_name(l, idx) and is_len(r) and isinstance(op, ast.Lt):
                return True
            if is_len(l) and is_name(r, idx) and isinstance(op, ast.Gt):
                return True
    return False


def _rebinds(node: ast.AST, names: set[str]) -> bool:
    """``node`` (a statement) may rebind one of ``names`` or mutate the object in place."""
    for n in ast.walk(node):
        if isinstance(n, ast.Name) and isinstance(n.ctx, (ast.Store, ast.Del)) and n.id in names:
            return True
        if isinstance(n, ast.Call) and isinstance(n.func, ast.Attribute) and isinstance(n.func.value, ast.Name) and n.func.value.id in names:
            if n.func.attr in ("pop", "remove", "clear", "append", "extend", "insert", "sort", "reverse", "__delitem__"):
                return True
        if isinstance(n, (ast.Delete,)):
            for t in n.targets:
                if isinstance(t, ast.Subscript) and isinstance(t.value, ast.Name) and t.value.id in names:
                    return True
    return False


def index_below_len_guarded(fn: ast.AST, sub: ast.Subscript) -> bool:
    """Is ``seq[idx]`` (both plain names) reached only when ``idx < len(seq)``?

    Recognised: an earlier statement in the same or an enclosing block
    ``if <implies idx >= len(seq)>: <always exits>``, or an enclosing
    ``if <implies idx < len(seq)>:`` body — with neither name rebound (nor the list mutated)
    between the guard and the use.  The lower bound (idx >= -len) is NOT decided here.
    """
    if not (isinstance(sub.value, ast.Name) and isinstance(sub.slice, ast.Name)):
        return False
    seq, idx = sub.value.id, sub.slice.id
    pm = parent_map(fn)
    # climb from the subscript to the function, remembering (block owner, field, statement)
    node: ast.AST = sub
    while id(node) in pm:
        parent = pm[id(node)]
        if isinstance(node, ast.stmt):
            for field in ("body", "orelse", "finalbody"):
                block = getattr(parent, field, None)
                if isinstance(block, list) and any(s is node for s in block):
                    pos = next(i for i, s in enumerate(block) if s is node)
                    # statements before `node` in this block, nearest first
                    for j in range(pos - 1, -1, -1):
                        s = block[j]
                        if isinstance(s, ast.If) and _implies_ge_len(s.test, idx, seq) and _always_exits(s.body):
                            if not any(_rebinds(t, {seq, idx}) for t in block[j + 1 : pos]) and not _rebinds(s, {seq, idx}):
                                return True
                        if _rebinds(s, {seq, idx}):
                            break
                    # enclosing `if idx < len(seq):` body
                    if isinstance(parent, ast.If) and field == "body" and _implies_ge_len(parent.test, idx, seq, negate=True):
                        if not any(_rebinds(t, {seq, idx}) for t in block[:pos]):
                            return True
                    if isinstance(parent, ast.If) and field == "orelse" and _implies_ge_len(parent.test, idx, seq):
                        if not any(_rebinds(t, {seq, idx}) for t in block[:pos]):
                            return True
        if isinstance(parent, (ast.FunctionDef, ast.AsyncFunctionDef, ast.Lambda)) and parent is not fn:
            return False
        node = parent
    return False


def local_names(fn: ast.AST) -> set[str]:
    """Names bound inside the function ``fn`` other than its parameters: assignment / for / with /
    except / walrus / comprehension targets.  These are spelling: a rule must not depend on them."""
    a = getattr(fn, "args", None)
    params: set[str] = set()
    if a is not None:
        params = {x.arg for x in a.posonlyargs + a.args + a.kwonlyargs}
        if a.vararg:
            params.add(a.vararg.arg)
        if a.kwarg:
            params.add(a.kwarg.arg)
    out: set[str] = set()
    for n in ast.walk(fn):
        if isinstance(n, ast.Name) and isinstance(n.ctx, (ast.Store, ast.Del)):
            out.add(n.id)
        elif isinstance(n, ast.ExceptHandler) and n.name:
            out.add(n.name)
    return out - params


def ltext(node: ast.AST, locals_: set[str]) -> str:
    """``text(node)`` with every local name of the enclosing function written ``_``: the form in
    which reviewed rows and finding keys name a construct, so that renaming a local variable does
    not turn a reviewed construct into a new one."""
    import copy

    n2 = copy.deepcopy(node)
    for n in ast.walk(n2):
        if isinstance(n, ast.Name) and n.id in locals_:
            n.id = "_"
        elif isinstance(n, ast.ExceptHandler) and n.name in locals_:
            n.name = "_"
    return expr_text(n2)


def lfrag(fragment: str, locals_: set[str]) -> str:
    """``ltext`` of a source fragment (an expression, a statement, or a compound-statement header
    ending in ``:``)."""
    src = fragment.strip()
    header = src.endswith(":")
    tree = ast.parse(src + (" pass" if header else ""))
    out = ltext(tree, locals_)
    if header:
        out = out.rsplit("\n", 1)[0] if "\n" in out else out.removesuffix(" pass")
    return out
