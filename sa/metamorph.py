"""Metamorphic self-test of the rules: automatic *behaviour-preserving* rewrites of one function at
a time.  A check that raises a new finding on such a variant has a rule that depends on how the
code is spelled rather than on what it does — a false alarm in waiting.

Transforms (each local to one function, each obviously semantics-preserving):

  rename     every local variable (not parameters, not names used in nested scopes or declared
             global/nonlocal) gets a new name;
  hoist      a pure attribute chain rooted at a parameter (``self.env.x``), read at least twice and
             never stored to in the function, is read once into a fresh local at the top;
  retvar     ``return <expr>`` becomes ``_result = <expr>; return _result`` (not in generators);
  flipcmp    ``a > b`` is written ``b < a`` (likewise ``>=``, ``<``, ``<=``) when both sides are simple
             expressions without calls (no evaluation-order change);
  negif      ``if c: A else: B`` becomes ``if not c: B else: A``;
  guardvar   the test of an ``if`` whose test is a pure boolean combination of names/attributes is
             bound to a local flag right before it.

``variants(repo, relpaths)`` yields (name, overlay) pairs: one variant per (transform, function)
where the transform applies.  Nothing is executed; overlays are in-memory source texts.
"""

from __future__ import annotations

import ast
import copy
from typing import Iterator, Optional

from .astutil import attr_chain
from .model import Repo, walk_no_nested

TRANSFORMS = ("rename", "hoist", "retvar", "flipcmp", "negif", "guardvar")


def _params(fn) -> set[str]:
    a = fn.args
    out = {x.arg for x in a.posonlyargs + a.args + a.kwonlyargs}
    if a.vararg:
        out.add(a.vararg.arg)
    if a.kwarg:
        out.add(a.kwarg.arg)
    return out


def _nested_names(fn) -> set[str]:
    """names referenced inside nested defs / lambdas / comprehensions / class bodies of fn"""
    out = set()
    for n in walk_no_nested(fn):
        if isinstance(n, (ast.FunctionDef, ast.AsyncFunctionDef, ast.Lambda, ast.ClassDef)):
            for x in ast.walk(n):
                if isinstance(x, ast.Name):
                    out.add(x.id)
                if isinstance(x, ast.arg):
                    out.add(x.arg)
    return out


def _is_generator(fn) -> bool:
    return any(isinstance(n, (ast.Yield, ast.YieldFrom)) for n in walk_no_nested(fn))


def t_rename(fn) -> bool:
    params = _params(fn)
    banned = _nested_names(fn) | params
    for n in walk_no_nested(fn):
        if isinstance(n, (ast.Global, ast.Nonlocal)):
            banned |= set(n.names)
    stored = []
    for n in walk_no_nested(fn):
        if isinstance(n, ast.Name) and isinstance(n.ctx, ast.Store) and n.id not in banned and n.id not in stored and not n.id.startswith("__"):
            stored.append(n.id)
        if isinstance(n, ast.ExceptHandler) and n.name and n.name not in banned and n.name not in stored:
            stored.append(n.name)
    # comprehension variables live in their own scope but may shadow: leave them alone
    comp = set()
    for n in walk_no_nested(fn):
        if isinstance(n, (ast.ListComp, ast.SetComp, ast.DictComp, ast.GeneratorExp)):
            for g in n.generators:
                comp |= {x.id for x in ast.walk(g.target) if isinstance(x, ast.Name)}
    stored = [s for s in stored if s not in comp]
    if not stored:
        return False
    mapping = {s: f"{s}_r" for s in stored}
    for n in walk_no_nested(fn):
        if isinstance(n, ast.Name) and n.id in mapping:
            n.id = mapping[n.id]
        if isinstance(n, ast.ExceptHandler) and n.name in mapping:
            n.name = mapping[n.name]
    return True


def t_hoist(fn) -> bool:
    if isinstance(fn, ast.Lambda):
        return False
    params = _params(fn)
    stored_roots = {n.id for n in walk_no_nested(fn) if isinstance(n, ast.Name) and isinstance(n.ctx, (ast.Store, ast.Del))}
    stored_chains = set()
    for n in walk_no_nested(fn):
        if isinstance(n, ast.Attribute) and isinstance(n.ctx, (ast.Store, ast.Del)):
            ch = attr_chain(n)
            if ch:
                stored_chains.add(tuple(ch))
    counts: dict[tuple, int] = {}
    called = set()
    for n in walk_no_nested(fn):
        if isinstance(n, ast.Call) and isinstance(n.func, ast.Attribute):
            ch = attr_chain(n.func)
            if ch:
                called.add(tuple(ch))
        if isinstance(n, ast.Attribute) and isinstance(n.ctx, ast.Load):
            ch = attr_chain(n)
            if ch and len(ch) >= 3 and ch[0] == "self" and ch[0] in params and ch[0] not in stored_roots:
                counts[tuple(ch)] = counts.get(tuple(ch), 0) + 1
    nested = _nested_names(fn)
    cands = [c for c, k in counts.items() if k >= 2 and c not in called and not any(tuple(c[:i]) in stored_chains for i in range(2, len(c) + 1)) and c[0] not in nested]
    # maximal chains only
    cands = [c for c in cands if not any(o != c and o[: len(c)] == c for o in counts)]
    if not cands:
        return False
    chain = sorted(cands)[0]
    # every statement between function entry and the first use must not be able to change the
    # attribute: only hoist when the function contains no call before... keep it simple and safe:
    # require that no *call* in the function receives the root object's sub-objects by method that
    # could rebind it — we accept configuration-like chains only (second element 'env')
    if chain[1] != "env":
        return False
    local = "_" + "_".join(chain[1:])

    class R(ast.NodeTransformer):
        def visit_Attribute(self, node):
            if isinstance(node.ctx, ast.Load) and attr_chain(node) == list(chain):
                return ast.copy_location(ast.Name(id=local, ctx=ast.Load()), node)
            return self.generic_visit(node)

        def visit_FunctionDef(self, node):
            return node if node is not fn else self.generic_visit(node)

        visit_AsyncFunctionDef = visit_FunctionDef
        visit_Lambda = lambda self, node: node  # noqa: E731

    value = ast.parse(".".join(chain), mode="eval").body
    body = fn.body
    start = 1 if body and isinstance(body[0], ast.Expr) and isinstance(body[0].value, ast.Constant) and isinstance(body[0].value.value, str) else 0
    new_body = [R().visit(s) for s in body]
    new_body.insert(start, ast.Assign(targets=[ast.Name(id=local, ctx=ast.Store())], value=value))
    fn.body = new_body
    return True


def t_retvar(fn) -> bool:
    if _is_generator(fn):
        return False
    done = False

    def block(stmts):
        nonlocal done
        out = []
        for st in stmts:
            for fld in ("body", "orelse", "finalbody"):
                sub = getattr(st, fld, None)
                if isinstance(sub, list) and sub and isinstance(sub[0], ast.stmt) and not isinstance(st, (ast.FunctionDef, ast.AsyncFunctionDef, ast.ClassDef)):
                    setattr(st, fld, block(sub))
            if isinstance(st, ast.Try):
                for h in st.handlers:
                    h.body = block(h.body)
            if isinstance(st, ast.Return) and st.value is not None and not isinstance(st.value, (ast.Name, ast.Constant)):
                out.append(ast.copy_location(ast.Assign(targets=[ast.Name(id="_result", ctx=ast.Store())], value=st.value), st))
                out.append(ast.copy_location(ast.Return(value=ast.Name(id="_result", ctx=ast.Load())), st))
                done = True
            else:
                out.append(st)
        return out

    fn.body = block(fn.body)
    return done


def _simple(e) -> bool:
    return not any(isinstance(n, (ast.Call, ast.Await, ast.NamedExpr, ast.Yield, ast.YieldFrom, ast.Subscript)) for n in ast.walk(e))


def t_flipcmp(fn) -> bool:
    flip = {ast.Gt: ast.Lt, ast.Lt: ast.Gt, ast.GtE: ast.LtE, ast.LtE: ast.GtE}
    done = False
    for n in walk_no_nested(fn):
        if isinstance(n, ast.Compare) and len(n.ops) == 1 and type(n.ops[0]) in flip and _simple(n.left) and _simple(n.comparators[0]):
            n.left, n.comparators[0] = n.comparators[0], n.left
            n.ops[0] = flip[type(n.ops[0])]()
            done = True
    return done


def t_negif(fn) -> bool:
    done = False
    for n in walk_no_nested(fn):
        if isinstance(n, ast.If) and n.orelse and not (len(n.orelse) == 1 and isinstance(n.orelse[0], ast.If)):
            n.test = ast.UnaryOp(op=ast.Not(), operand=n.test)
            n.body, n.orelse = n.orelse, n.body
            done = True
    return done


def t_guardvar(fn) -> bool:
    def pure(e) -> bool:
        if isinstance(e, ast.BoolOp):
            return all(pure(v) for v in e.values)
        if isinstance(e, ast.UnaryOp) and isinstance(e.op, ast.Not):
            return pure(e.operand)
        if isinstance(e, ast.Compare) and len(e.ops) == 1 and isinstance(e.ops[0], (ast.Is, ast.IsNot)) and isinstance(e.comparators[0], ast.Constant):
            return pure(e.left)
        return isinstance(e, ast.Name) or (attr_chain(e) is not None and len(attr_chain(e)) <= 3)

    done = False
    counter = [0]

    def block(stmts):
        nonlocal done
        out = []
        for st in stmts:
            for fld in ("body", "orelse", "finalbody"):
                sub = getattr(st, fld, None)
                if isinstance(sub, list) and sub and isinstance(sub[0], ast.stmt) and not isinstance(st, (ast.FunctionDef, ast.AsyncFunctionDef, ast.ClassDef)):
                    setattr(st, fld, block(sub))
            if isinstance(st, ast.Try):
                for h in st.handlers:
                    h.body = block(h.body)
            if isinstance(st, ast.If) and isinstance(st.test, (ast.BoolOp, ast.UnaryOp)) and pure(st.test) and not done:
                counter[0] += 1
                flag = f"_flag{counter[0]}"
                out.append(ast.copy_location(ast.Assign(targets=[ast.Name(id=flag, ctx=ast.Store())], value=st.test), st))
                st.test = ast.copy_location(ast.Name(id=flag, ctx=ast.Load()), st)
                done = True
            out.append(st)
        return out

    fn.body = block(fn.body)
    return done


_T = {"rename": t_rename, "hoist": t_hoist, "retvar": t_retvar, "flipcmp": t_flipcmp, "negif": t_negif, "guardvar": t_guardvar}


def variants(repo: Repo, relpaths: Optional[list[str]] = None, transforms=TRANSFORMS, only_funcs: Optional[set[str]] = None) -> Iterator[tuple[str, dict[str, str]]]:
    for mod in repo.modules.values():
        if relpaths is not None and mod.relpath not in relpaths:
            continue
        tree = ast.parse(mod.source)
        targets = []
        for n in ast.walk(tree):
            if isinstance(n, (ast.FunctionDef, ast.AsyncFunctionDef)):
                targets.append(n)
        # identify by (lineno, name): stable within this parse
        for fn in targets:
            if only_funcs is not None and fn.name not in only_funcs:
                continue
            for tname in transforms:
                t2 = copy.deepcopy(tree)
                f2 = next(x for x in ast.walk(t2) if isinstance(x, (ast.FunctionDef, ast.AsyncFunctionDef)) and x.lineno == fn.lineno and x.name == fn.name)
                try:
                    if not _T[tname](f2):
                        continue
                    ast.fix_missing_locations(t2)
                    src = ast.unparse(t2)
                    compile(src, mod.relpath, "exec")
                except Exception:  # noqa: BLE001
                    continue
                yield f"meta:{tname}:{mod.relpath}:{fn.name}@{fn.lineno}", {mod.relpath: src}
