"""Metamorphic self-test of the rules: automatic *behaviour-preserving* rewrites of one function at
a time.  A check that raises a new finding on such a variant has a rule that depends on how the
code is spelled rather than on what it does — a false alarm in waiting.

Transforms (each local to one function, each obviously semantics-preserving):

  rename     every local variable (not parameters, not names used in nested scopes or declared
             global/nonlocal) gets a new name;
  hoist      a pure attribute chain rooted at a parameter (``self.env.x``), read at least twice and
             never stored to in the function, is read once into a fresh local at the top;
  retvar     ``return <expr>`` becomes ``_result = <expr>; return _result`` (not in generators);
  flipcmp    ``a > b`` is written ``b < a`` (likewise ``>=``, ``<``, ``<=``) when both sides are simple
             expressions without calls (no evaluation-order change);
  negif      ``if c: A else: B`` becomes ``if not c: B else: A``;
  guardvar   the test of an ``if`` whose test is a pure boolean combination of names/attributes is
             bound to a local flag right before it;
  swapeq     the operands of ``==`` / ``!=`` / ``is`` / ``is not`` are exchanged (operands without calls);
  negcmp     ``a != b`` is written ``not (a == b)``, ``x is not None`` as ``not (x is None)``,
             ``a not in b`` as ``not (a in b)``;
  kwreorder  the keyword arguments of a call are written in reverse order (all values without calls);
  ifexp      ``if c: x = A else: x = B`` (same simple target) becomes ``x = A if c else B``;
  elsereturn ``if c: <...return/raise>`` followed by more statements gets those statements as its
             ``else`` branch;
  augassign  ``x += <number>`` becomes ``x = x + <number>`` (and ``-=``) for plain names;
  demorgan   ``not a and not b`` in an ``if`` test is written ``not (a or b)`` and ``not a or not b``
             as ``not (a and b)``.

``variants(repo, relpaths)`` yields (name, overlay) pairs: one variant per (transform, function)
where the transform applies.  Nothing is executed; overlays are in-memory source texts.
"""

from __future__ import annotations

import ast
import copy
from typing import Iterator, Optional

from .astutil import attr_chain
from .model import Repo, walk_no_nested

TRANSFORMS = ("rename", "hoist", "retvar", "flipcmp", "negif", "guardvar", "swapeq", "negcmp", "kwreorder", "ifexp", "elsereturn", "augassign", "demorgan")


def _params(fn) -> set[str]:
    a = fn.args
    out = {x.arg for x in a.posonlyargs + a.args + a.kwonlyargs}
    if a.vararg:
        out.add(a.vararg.arg)
    if a.kwarg:
        out.add(a.kwarg.arg)
    return out


def _nested_names(fn) -> set[str]:
    """names referenced inside nested defs / lambdas / comprehensions / class bodies of fn"""
    out = set()
    for n in walk_no_nested(fn):
        if isinstance(n, (ast.FunctionDef, ast.AsyncFunctionDef, ast.Lambda, ast.ClassDef)):
            for x in ast.walk(n):
                if isinstance(x, ast.Name):
                    out.add(x.id)
                if isinstance(x, ast.arg):
                    out.add(x.arg)
    return out


def _is_generator(fn) -> bool:
    return any(isinstance(n, (ast.Yield, ast.YieldFrom)) for n in walk_no_nested(fn))


def t_rename(fn) -> bool:
    params = _params(fn)
    banned = _nested_names(fn) | params
    for n in walk_no_nested(fn):
        if isinstance(n, (ast.Global, ast.Nonlocal)):
            banned |= set(n.names)
    stored = []
    for n in walk_no_nested(fn):
        if isinstance(n, ast.Name) and isinstance(n.ctx, ast.Store) and n.id not in banned and n.id not in stored and not n.id.startswith("__"):
            stored.append(n.id)
        if isinstance(n, ast.ExceptHandler) and n.name and n.name not in banned and n.name not in stored:
            stored.append(n.name)
    # comprehension variables live in their own scope but may shadow: leave them alone
    comp = set()
    for n in walk_no_nested(fn):
        if isinstance(n, (ast.ListComp, ast.SetComp, ast.DictComp, ast.GeneratorExp)):
            for g in n.generators:
                comp |= {x.id for x in ast.walk(g.target) if isinstance(x, ast.Name)}
    stored = [s for s in stored if s not in comp]
    if not stored:
        return False
    mapping = {s: f"{s}_r" for s in stored}
    for n in walk_no_nested(fn):
        if isinstance(n, ast.Name) and n.id in mapping:
            n.id = mapping[n.id]
        if isinstance(n, ast.ExceptHandler) and n.name in mapping:
            n.name = mapping[n.name]
    return True


def t_hoist(fn) -> bool:
    if isinstance(fn, ast.Lambda):
        return False
    params = _params(fn)
    stored_roots = {n.id for n in walk_no_nested(fn) if isinstance(n, ast.Name) and isinstance(n.ctx, (ast.Store, ast.Del))}
    stored_chains = set()
    for n in walk_no_nested(fn):
        if isinstance(n, ast.Attribute) and isinstance(n.ctx, (ast.Store, ast.Del)):
            ch = attr_chain(n)
            if ch:
                stored_chains.add(tuple(ch))
    counts: dict[tuple, int] = {}
    called = set()
    for n in walk_no_nested(fn):
        if isinstance(n, ast.Call) and isinstance(n.func, ast.Attribute):
            ch = attr_chain(n.func)
            if ch:
                called.add(tuple(ch))
        if isinstance(n, ast.Attribute) and isinstance(n.ctx, ast.Load):
            ch = attr_chain(n)
            if ch and len(ch) >= 3 and ch[0] == "self" and ch[0] in params and ch[0] not in stored_roots:
                counts[tuple(ch)] = counts.get(tuple(ch), 0) + 1
    nested = _nested_names(fn)
    cands = [c for c, k in counts.items() if k >= 2 and c not in called and not any(tuple(c[:i]) in stored_chains for i in range(2, len(c) + 1)) and c[0] not in nested]
    # maximal chains only
    cands = [c for c in cands if not any(o != c and o[: len(c)] == c for o in counts)]
    if not cands:
        return False
    chain = sorted(cands)[0]
    # every statement between function entry and the first use must not be able to change the
    # attribute: only hoist when the function contains no call before... keep it simple and safe:
    # require that no *call* in the function receives the root object's sub-objects by method that
    # could rebind it — we accept configuration-like chains only (second element 'env')
    if chain[1] != "env":
        return False
    local = "_" + "_".join(chain[1:])

    class R(ast.NodeTransformer):
        def visit_Attribute(self, node):
            if isinstance(node.ctx, ast.Load) and attr_chain(node) == list(chain):
                return ast.copy_location(ast.Name(id=local, ctx=ast.Load()), node)
            return self.generic_visit(node)

        def visit_FunctionDef(self, node):
            return node if node is not fn else self.generic_visit(node)

        visit_AsyncFunctionDef = visit_FunctionDef
        visit_Lambda = lambda self, node: node  # noqa: E731

    value = ast.parse(".".join(chain), mode="eval").body
    body = fn.body
    start = 1 if body and isinstance(body[0], ast.Expr) and isinstance(body[0].value, ast.Constant) and isinstance(body[0].value.value, str) else 0
    new_body = [R().visit(s) for s in body]
    new_body.insert(start, ast.Assign(targets=[ast.Name(id=local, ctx=ast.Store())], value=value))
    fn.body = new_body
    return True


def t_retvar(fn) -> bool:
    if _is_generator(fn):
        return False
    done = False

    def block(stmts):
        nonlocal done
        out = []
        for st in stmts:
            for fld in ("body", "orelse", "finalbody"):
                sub = getattr(st, fld, None)
                if isinstance(sub, list) and sub and isinstance(sub[0], ast.stmt) and not isinstance(st, (ast.FunctionDef, ast.AsyncFunctionDef, ast.ClassDef)):
                    setattr(st, fld, block(sub))
            if isinstance(st, ast.Try):
                for h in st.handlers:
                    h.body = block(h.body)
            if isinstance(st, ast.Return) and st.value is not None and not isinstance(st.value, (ast.Name, ast.Constant)):
                out.append(ast.copy_location(ast.Assign(targets=[ast.Name(id="_result", ctx=ast.Store())], value=st.value), st))
                out.append(ast.copy_location(ast.Return(value=ast.Name(id="_result", ctx=ast.Load())), st))
                done = True
            else:
                out.append(st)
        return out

    fn.body = block(fn.body)
    return done


def _simple(e) -> bool:
    return not any(isinstance(n, (ast.Call, ast.Await, ast.NamedExpr, ast.Yield, ast.YieldFrom, ast.Subscript)) for n in ast.walk(e))


def t_flipcmp(fn) -> bool:
    flip = {ast.Gt: ast.Lt, ast.Lt: ast.Gt, ast.GtE: ast.LtE, ast.LtE: ast.GtE}
    done = False
    for n in walk_no_nested(fn):
        if isinstance(n, ast.Compare) and len(n.ops) == 1 and type(n.ops[0]) in flip and _simple(n.left) and _simple(n.comparators[0]):
            n.left, n.comparators[0] = n.comparators[0], n.left
            n.ops[0] = flip[type(n.ops[0])]()
            done = True
    return done


def t_negif(fn) -> bool:
    done = False
    for n in walk_no_nested(fn):
        if isinstance(n, ast.If) and n.orelse and not (len(n.orelse) == 1 and isinstance(n.orelse[0], ast.If)):
            n.test = ast.UnaryOp(op=ast.Not(), operand=n.test)
            n.body, n.orelse = n.orelse, n.body
            done = True
    return done


def t_guardvar(fn) -> bool:
    def pure(e) -> bool:
        if isinstance(e, ast.BoolOp):
            return all(pure(v) for v in e.values)
        if isinstance(e, ast.UnaryOp) and isinstance(e.op, ast.Not):
            return pure(e.operand)
        if isinstance(e, ast.Compare) and len(e.ops) == 1 and isinstance(e.ops[0], (ast.Is, ast.IsNot)) and isinstance(e.comparators[0], ast.Constant):
            return pure(e.left)
        return isinstance(e, ast.Name) or (attr_chain(e) is not None and len(attr_chain(e)) <= 3)

    done = False
    counter = [0]

    def block(stmts):
        nonlocal done
        out = []
        for st in stmts:
            for fld in ("body", "orelse", "finalbody"):
                sub = getattr(st, fld, None)
                if isinstance(sub, list) and sub and isinstance(sub[0], ast.stmt) and not isinstance(st, (ast.FunctionDef, ast.AsyncFunctionDef, ast.ClassDef)):
                    setattr(st, fld, block(sub))
            if isinstance(st, ast.Try):
                for h in st.handlers:
                    h.body = block(h.body)
            if isinstance(st, ast.If) and isinstance(st.test, (ast.BoolOp, ast.UnaryOp)) and pure(st.test) and not done:
                counter[0] += 1
                flag = f"_flag{counter[0]}"
                out.append(ast.copy_location(ast.Assign(targets=[ast.Name(id=flag, ctx=ast.Store())], value=st.test), st))
                st.test = ast.copy_location(ast.Name(id=flag, ctx=ast.Load()), st)
                done = True
            out.append(st)
        return out

    fn.body = block(fn.body)
    return done


def t_swapeq(fn) -> bool:
    done = False
    for n in walk_no_nested(fn):
        if isinstance(n, ast.Compare) and len(n.ops) == 1 and isinstance(n.ops[0], (ast.Eq, ast.NotEq, ast.Is, ast.IsNot)) and _simple(n.left) and _simple(n.comparators[0]):
            n.left, n.comparators[0] = n.comparators[0], n.left
            done = True
    return done


def t_negcmp(fn) -> bool:
    inv = {ast.NotEq: ast.Eq, ast.IsNot: ast.Is, ast.NotIn: ast.In}
    done = False

    class R(ast.NodeTransformer):
        def visit_FunctionDef(self, node):
            return node if node is not fn else self.generic_visit(node)

        visit_AsyncFunctionDef = visit_FunctionDef

        def visit_Lambda(self, node):
            return node

        def visit_Compare(self, node):
            nonlocal done
            self.generic_visit(node)
            if len(node.ops) == 1 and type(node.ops[0]) in inv:
                done = True
                return ast.copy_location(ast.UnaryOp(op=ast.Not(), operand=ast.Compare(left=node.left, ops=[inv[type(node.ops[0])]()], comparators=node.comparators)), node)
            return node

    R().visit(fn)
    return done


def t_kwreorder(fn) -> bool:
    done = False
    for n in walk_no_nested(fn):
        if isinstance(n, ast.Call) and len(n.keywords) >= 2 and all(k.arg is not None and _simple(k.value) for k in n.keywords) and all(_simple(a) for a in n.args):
            n.keywords = list(reversed(n.keywords))
            done = True
    return done


def _blocks(fn):
    for n in walk_no_nested(fn):
        for fld in ("body", "orelse", "finalbody"):
            blk = getattr(n, fld, None)
            if isinstance(blk, list) and blk and isinstance(blk[0], ast.stmt) and not isinstance(n, (ast.FunctionDef, ast.AsyncFunctionDef, ast.ClassDef)):
                yield blk
        if isinstance(n, ast.Try):
            for h in n.handlers:
                yield h.body
    yield fn.body


def t_ifexp(fn) -> bool:
    done = False
    for blk in _blocks(fn):
        for i, st in enumerate(blk):
            if isinstance(st, ast.If) and len(st.body) == 1 and len(st.orelse) == 1 and all(isinstance(x, ast.Assign) and len(x.targets) == 1 and isinstance(x.targets[0], ast.Name) for x in (st.body[0], st.orelse[0])) and st.body[0].targets[0].id == st.orelse[0].targets[0].id:
                blk[i] = ast.copy_location(ast.Assign(targets=[ast.Name(id=st.body[0].targets[0].id, ctx=ast.Store())], value=ast.IfExp(test=st.test, body=st.body[0].value, orelse=st.orelse[0].value)), st)
                done = True
    return done


def _leaves(body) -> bool:
    if not body:
        return False
    last = body[-1]
    if isinstance(last, (ast.Return, ast.Raise, ast.Continue, ast.Break)):
        return True
    if isinstance(last, ast.If):
        return bool(last.orelse) and _leaves(last.body) and _leaves(last.orelse)
    return False


def t_elsereturn(fn) -> bool:
    for blk in _blocks(fn):
        for i, st in enumerate(blk):
            if isinstance(st, ast.If) and not st.orelse and _leaves(st.body) and i + 1 < len(blk) and not any(isinstance(x, (ast.FunctionDef, ast.AsyncFunctionDef, ast.ClassDef)) for x in blk[i + 1 :]):
                st.orelse = blk[i + 1 :]
                del blk[i + 1 :]
                return True
    return False


def t_augassign(fn) -> bool:
    done = False
    for blk in _blocks(fn):
        for i, st in enumerate(blk):
            if isinstance(st, ast.AugAssign) and isinstance(st.target, ast.Name) and isinstance(st.op, (ast.Add, ast.Sub)) and isinstance(st.value, ast.Constant) and isinstance(st.value.value, (int, float)) and not isinstance(st.value.value, bool):
                blk[i] = ast.copy_location(ast.Assign(targets=[ast.Name(id=st.target.id, ctx=ast.Store())], value=ast.BinOp(left=ast.Name(id=st.target.id, ctx=ast.Load()), op=st.op, right=st.value)), st)
                done = True
    return done


def t_demorgan(fn) -> bool:
    done = False

    def neg(e):
        return isinstance(e, ast.UnaryOp) and isinstance(e.op, ast.Not)

    class R(ast.NodeTransformer):
        def visit_FunctionDef(self, node):
            return node if node is not fn else self.generic_visit(node)

        visit_AsyncFunctionDef = visit_FunctionDef

        def visit_Lambda(self, node):
            return node

        def visit_BoolOp(self, node):
            nonlocal done
            self.generic_visit(node)
            if all(neg(v) for v in node.values) and len(node.values) >= 2:
                done = True
                other = ast.Or() if isinstance(node.op, ast.And) else ast.And()
                return ast.copy_location(ast.UnaryOp(op=ast.Not(), operand=ast.BoolOp(op=other, values=[v.operand for v in node.values])), node)
            return node

    R().visit(fn)
    return done


_T = {"swapeq": t_swapeq, "negcmp": t_negcmp, "kwreorder": t_kwreorder, "ifexp": t_ifexp, "elsereturn": t_elsereturn, "augassign": t_augassign, "demorgan": t_demorgan, "rename": t_rename, "hoist": t_hoist, "retvar": t_retvar, "flipcmp": t_flipcmp, "negif": t_negif, "guardvar": t_guardvar}


def variants(repo: Repo, relpaths: Optional[list[str]] = None, transforms=TRANSFORMS, only_funcs: Optional[set[str]] = None) -> Iterator[tuple[str, dict[str, str]]]:
    for mod in repo.modules.values():
        if relpaths is not None and mod.relpath not in relpaths:
            continue
        tree = ast.parse(mod.source)
        targets = []
        for n in ast.walk(tree):
            if isinstance(n, (ast.FunctionDef, ast.AsyncFunctionDef)):
                targets.append(n)
        # identify by (lineno, name): stable within this parse
        for fn in targets:
            if only_funcs is not None and fn.name not in only_funcs:
                continue
            for tname in transforms:
                t2 = copy.deepcopy(tree)
                f2 = next(x for x in ast.walk(t2) if isinstance(x, (ast.FunctionDef, ast.AsyncFunctionDef)) and x.lineno == fn.lineno and x.name == fn.name)
                try:
                    if not _T[tname](f2):
                        continue
                    ast.fix_missing_locations(t2)
                    src = ast.unparse(t2)
                    compile(src, mod.relpath, "exec")
                except Exception:  # noqa: BLE001
                    continue
                yield f"meta:{tname}:{mod.relpath}:{fn.name}@{fn.lineno}", {mod.relpath: src}
