"""Static-analysis verification machinery for jg-rp/liquid (see /verif/DESIGN.md)."""
