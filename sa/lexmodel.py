"""Static model of the template lexer: the regular-expression alternatives of
``liquid.lex.compile_liquid_rules`` rebuilt from its AST with placeholder delimiters
and *parsed* (never matched) with ``re._parser``.
"""

from __future__ import annotations

import ast
import re
import re._parser as sre_parse  # type: ignore
from dataclasses import dataclass, field
from typing import Optional

from .astutil import callee_name, text
from .model import AnchorMissing, Repo, fold_str

# private-use placeholders standing for re.escape(<delimiter parameter>)
PLACEHOLDER_BASE = 0xE001


@dataclass
class Alt:
    kind: str  # rule name, folded ("RAW", "output", "TAG", ...)
    pattern: str
    groups: dict[str, int] = field(default_factory=dict)
    trailing_hyphen_group: Optional[str] = None  # named -? group right before the final closing delimiter
    lookahead_hyphen_group: Optional[str] = None  # named -? group inside a trailing look-ahead (content rule)
    closing_placeholder: Optional[str] = None
    opening_placeholder: Optional[str] = None


@dataclass
class RuleSet:
    condition: str  # "no-comments" / "comments"
    alts: list[Alt]


class LexModel:
    def __init__(self, repo: Repo):
        self.repo = repo
        self.fn = repo.func("liquid.lex.compile_liquid_rules")
        self.params = [p for p in self.fn.params()]
        self.placeholder = {p: chr(PLACEHOLDER_BASE + i) for i, p in enumerate(self.params)}
        self.escaped_vars: dict[str, str] = {}  # local var -> parameter it escapes
        self.unescaped_uses: list[tuple[str, ast.AST]] = []  # parameter interpolated without re.escape
        self.rulesets: list[RuleSet] = []
        self._build()

    # -- symbolic evaluation of compile_liquid_rules -------------------------------
    def _build(self) -> None:
        envs = self._exec(self.fn.node.body, [({}, "always")])
        for env, cond in envs:
            rules = env.get("__return__")
            if rules is None:
                continue
            alts = []
            for kind, pat in rules:
                alts.append(self._analyse(kind, pat))
            self.rulesets.append(RuleSet(cond, alts))
        if not self.rulesets:
            raise AnchorMissing("compile_liquid_rules: could not evaluate any rule set")

    def _eval(self, e: ast.AST, env: dict):
        mod = self.fn.module
        if isinstance(e, ast.Constant) and isinstance(e.value, str):
            return e.value
        if isinstance(e, ast.JoinedStr):
            out = []
            for v in e.values:
                if isinstance(v, ast.Constant):
                    out.append(str(v.value))
                elif isinstance(v, ast.FormattedValue):
                    s = self._eval(v.value, env)
                    if s is None:
                        return None
                    out.append(s)
            return "".join(out)
        if isinstance(e, ast.Name):
            if e.id in env:
                return env[e.id]
            if e.id in self.placeholder:
                # a delimiter parameter used directly in a pattern: NOT escaped
                self.unescaped_uses.append((e.id, e))
                return self.placeholder[e.id]
            return fold_str(self.repo, mod, e, 0)
        if isinstance(e, ast.BinOp) and isinstance(e.op, ast.Add):
            a, b = self._eval(e.left, env), self._eval(e.right, env)
            return a + b if a is not None and b is not None else None
        if isinstance(e, ast.Call) and text(e.func) == "re.escape" and len(e.args) == 1 and isinstance(e.args[0], ast.Name) and e.args[0].id in self.placeholder:
            return self.placeholder[e.args[0].id]
        if isinstance(e, (ast.List, ast.Tuple)):
            out = []
            for x in e.elts:
                if isinstance(x, (ast.Tuple, ast.List)) and len(x.elts) == 2:
                    k, p = self._eval(x.elts[0], env), self._eval(x.elts[1], env)
                    if k is None or p is None:
                        return None
                    out.append((k, p))
                else:
                    v = self._eval(x, env)
                    if not isinstance(v, str):
                        return None
                    out.append(v)
            return out
        if isinstance(e, ast.Call) and isinstance(e.func, ast.Attribute) and e.func.attr == "join" and len(e.args) == 1 and not e.keywords:
            sep, seq = self._eval(e.func.value, env), self._eval(e.args[0], env)
            if isinstance(sep, str) and isinstance(seq, list) and all(isinstance(x, str) for x in seq):
                return sep.join(seq)
            return None
        if isinstance(e, ast.BinOp) and isinstance(e.op, ast.Add):
            a, b = self._eval(e.left, env), self._eval(e.right, env)
            if isinstance(a, list) and isinstance(b, list):
                return a + b
        if isinstance(e, ast.Call) and isinstance(e.func, ast.Name) and e.func.id in ("list", "tuple") and len(e.args) == 1:
            v = self._eval(e.args[0], env)
            return list(v) if isinstance(v, list) else None
        return None

    def _exec(self, body, envs):
        for st in body:
            new_envs = []
            for env, cond in envs:
                if "__return__" in env:
                    new_envs.append((env, cond))
                    continue
                if isinstance(st, ast.Expr):
                    v = st.value
                    # list building: rules.append((kind, pattern)) / stops.append(x) / rules.extend([...])
                    if isinstance(v, ast.Call) and isinstance(v.func, ast.Attribute) and v.func.attr in ("append", "extend", "insert") and isinstance(v.func.value, ast.Name) and isinstance(env.get(v.func.value.id), list) and not v.keywords:
                        env = dict(env)
                        cur = list(env[v.func.value.id])
                        if v.func.attr == "append" and len(v.args) == 1:
                            item = self._eval(ast.List(elts=[v.args[0]], ctx=ast.Load()), env)
                            if item is None:
                                raise AnchorMissing(f"compile_liquid_rules: cannot evaluate `{text(st)[:60]}` statically")
                            cur += item
                        elif v.func.attr == "extend" and len(v.args) == 1:
                            items = self._eval(v.args[0], env)
                            if not isinstance(items, list):
                                raise AnchorMissing(f"compile_liquid_rules: cannot evaluate `{text(st)[:60]}` statically")
                            cur += items
                        elif v.func.attr == "insert" and len(v.args) == 2 and isinstance(v.args[0], ast.Constant) and isinstance(v.args[0].value, int):
                            item = self._eval(ast.List(elts=[v.args[1]], ctx=ast.Load()), env)
                            if item is None:
                                raise AnchorMissing(f"compile_liquid_rules: cannot evaluate `{text(st)[:60]}` statically")
                            cur[v.args[0].value : v.args[0].value] = item
                        else:
                            raise AnchorMissing(f"compile_liquid_rules: unsupported list operation `{text(st)[:60]}`")
                        env[v.func.value.id] = cur
                    new_envs.append((env, cond))
                elif isinstance(st, ast.AugAssign) and isinstance(st.target, ast.Name) and isinstance(st.op, ast.Add):
                    env = dict(env)
                    a, b = env.get(st.target.id), self._eval(st.value, env)
                    if isinstance(a, (str, list)) and type(a) is type(b):
                        env[st.target.id] = a + b
                    else:
                        raise AnchorMissing(f"compile_liquid_rules: cannot evaluate `{text(st)[:60]}` statically")
                    new_envs.append((env, cond))
                elif (isinstance(st, ast.Assign) and len(st.targets) == 1 and isinstance(st.targets[0], ast.Name)) or (isinstance(st, ast.AnnAssign) and isinstance(st.target, ast.Name) and st.value is not None):
                    env = dict(env)
                    v = self._eval(st.value, env)
                    name = st.targets[0].id if isinstance(st, ast.Assign) else st.target.id
                    if isinstance(st.value, ast.Call) and text(st.value.func) == "re.escape" and isinstance(st.value.args[0], ast.Name):
                        self.escaped_vars[name] = st.value.args[0].id
                    if v is None:
                        raise AnchorMissing(f"compile_liquid_rules: cannot evaluate `{text(st)[:60]}` statically")
                    env[name] = v
                    new_envs.append((env, cond))
                elif isinstance(st, ast.If):
                    t = text(st.test)
                    new_envs.extend(self._exec(st.body, [(dict(env), f"if {t}")]))
                    new_envs.extend(self._exec(st.orelse, [(dict(env), f"if not ({t})")]))
                elif isinstance(st, ast.Return):
                    env = dict(env)
                    v = st.value
                    if isinstance(v, ast.Call) and callee_name(v) == "_compile_rules" and v.args:
                        env["__return__"] = self._eval(v.args[0], env)
                    if env.get("__return__") is None:
                        raise AnchorMissing("compile_liquid_rules: cannot evaluate the returned rule list")
                    new_envs.append((env, cond))
                else:
                    raise AnchorMissing(f"compile_liquid_rules: unsupported statement `{text(st)[:50]}`")
            envs = new_envs
        return envs

    # -- regex structure -------------------------------------------------------------
    def _analyse(self, kind: str, pattern: str) -> Alt:
        try:
            parsed = sre_parse.parse(pattern, re.DOTALL)
        except re.error as err:
            raise AnchorMissing(f"lexer rule {kind}: pattern does not parse: {err}") from err
        groups = dict(parsed.state.groupdict)
        byidx = {v: k for k, v in groups.items()}
        alt = Alt(kind, pattern, groups)
        items = list(parsed)
        ph = set(self.placeholder.values())

        def is_hyphen_opt_group(op, av):
            # SUBPATTERN (group, add, del, [MAX_REPEAT (0,1,[LITERAL '-'])])
            if op is not sre_parse.SUBPATTERN:
                return None
            gid, _a, _d, sub = av
            sub = list(sub)
            if len(sub) == 1 and sub[0][0] in (sre_parse.MAX_REPEAT, sre_parse.MIN_REPEAT):
                lo, hi, inner = sub[0][1]
                inner = list(inner)
                if (lo, hi) == (0, 1) and len(inner) == 1 and inner[0] == (sre_parse.LITERAL, ord("-")):
                    return byidx.get(gid)
            return None

        # opening delimiter
        if items and items[0][0] is sre_parse.LITERAL and chr(items[0][1]) in ph:
            alt.opening_placeholder = chr(items[0][1])
        # closing delimiter + group right before it
        if items and items[-1][0] is sre_parse.LITERAL and chr(items[-1][1]) in ph:
            alt.closing_placeholder = chr(items[-1][1])
            if len(items) >= 2:
                alt.trailing_hyphen_group = is_hyphen_opt_group(*items[-2])
        # trailing look-ahead (content rule)
        if items and items[-1][0] is sre_parse.ASSERT:
            direction, sub = items[-1][1]
            for op, av in self._walk(sub):
                g = is_hyphen_opt_group(op, av)
                if g:
                    alt.lookahead_hyphen_group = g
        return alt

    def _walk(self, sub):
        for op, av in sub:
            yield op, av
            if op is sre_parse.SUBPATTERN:
                yield from self._walk(av[3])
            elif op is sre_parse.BRANCH:
                for b in av[1]:
                    yield from self._walk(b)
            elif op in (sre_parse.MAX_REPEAT, sre_parse.MIN_REPEAT):
                yield from self._walk(av[2])
            elif op in (sre_parse.ASSERT, sre_parse.ASSERT_NOT):
                yield from self._walk(av[1])

    def lookahead_sequences(self, alt: Alt) -> list[list]:
        """Linearise the trailing look-ahead of ``alt``: every way through its branches as a
        list of atoms — ``("lit", ch)``, ``("hyphen?", group name)`` for a named ``-?`` group,
        ``("end", "line")`` for ``$`` (also matches before a final newline) / ``("end", "string")`` for ``\\Z`` and ``("other", op)`` for anything else."""
        parsed = sre_parse.parse(alt.pattern, re.DOTALL)
        byidx = {v: k for k, v in parsed.state.groupdict.items()}
        items = list(parsed)
        if not items or items[-1][0] is not sre_parse.ASSERT:
            return []

        def hyphen_group(op, av):
            if op is not sre_parse.SUBPATTERN:
                return None
            gid, _a, _d, sub = av
            sub = list(sub)
            if len(sub) == 1 and sub[0][0] in (sre_parse.MAX_REPEAT, sre_parse.MIN_REPEAT):
                lo, hi, inner = sub[0][1]
                inner = list(inner)
                if (lo, hi) == (0, 1) and len(inner) == 1 and inner[0] == (sre_parse.LITERAL, ord("-")):
                    return byidx.get(gid) or "?"
            return None

        def seqs(sub) -> list[list]:
            acc: list[list] = [[]]
            for op, av in sub:
                g = hyphen_group(op, av)
                if g is not None:
                    parts = [[("hyphen?", g)]]
                elif op is sre_parse.LITERAL:
                    parts = [[("lit", chr(av))]]
                elif op is sre_parse.AT:
                    parts = [[("end", "string" if av is sre_parse.AT_END_STRING else "line" if av is sre_parse.AT_END else str(av))]]
                elif op is sre_parse.SUBPATTERN:
                    parts = seqs(av[3])
                elif op is sre_parse.BRANCH:
                    parts = [x for b in av[1] for x in seqs(b)]
                else:
                    parts = [[("other", str(op))]]
                acc = [a + p_ for a in acc for p_ in parts]
                if len(acc) > 256:
                    raise AnchorMissing(f"lexer rule {alt.kind}: look-ahead has too many alternatives to enumerate")
            return acc

        return seqs(items[-1][1][1])

    def param_of(self, placeholder: str) -> str:
        for p, ph in self.placeholder.items():
            if ph == placeholder:
                return p
        return "?"
