"""Cursor typestate of a tag's ``parse(self, stream)``.

The template parser dispatches on ``stream.current`` (the tag's first token), calls the tag's
``parse`` and then advances once (``next(stream)``).  So on every normal return ``stream.current``
must be a token that *belongs to the tag*: the tag token itself (a tag without expression) or the
expression token that follows it.  A parse that returns after it stepped onto a token it has not
verified to be the tag's expression leaves the parser to skip that token — the text, output
statement or tag after the tag silently disappears.

For tags without a block (class attribute ``block = False``) this is decided exactly by a four
state abstract run of ``parse`` (all paths, no loops over ``stream`` in these functions):

    TAG       current is the tag's first token                       (entry)
    EXPR      current is the tag's expression token (verified)
    LOOSE     advanced past the first token, kind of current unknown
    PAST      advanced past a verified expression token

    advance  (next(stream), stream.eat(..), into_inner(eat=True) after its check):
              TAG -> EXPR if the path knows ``stream.peek.kind == TOKEN_EXPRESSION`` else LOOSE
              EXPR, LOOSE -> PAST
    verify   (stream.expect(TOKEN_EXPRESSION), stream.into_inner(..), a branch on
              ``stream.current.kind == TOKEN_EXPRESSION``):  LOOSE -> EXPR  (the other outcome raises /
              is the else branch)
    end      a branch on ``stream.current.kind == TOKEN_EOF`` : LOOSE -> EOF (nothing follows; advancing at
              the end of the stream stays there)
    return   allowed in TAG, EXPR and EOF only.
"""

from __future__ import annotations

import ast
from dataclasses import dataclass
from typing import Optional

from .astutil import is_name, text

TAG, EXPR, LOOSE, PAST, NOTEXPR, OPAQUE, EOF = "TAG", "EXPR", "LOOSE", "PAST", "NOTEXPR", "OPAQUE", "EOF"


@dataclass(frozen=True)
class St:
    pos: str
    peek_expr: Optional[bool] = None  # what the path knows about stream.peek.kind == EXPRESSION


@dataclass
class BadReturn:
    node: ast.AST
    state: str
    why: str


EXPR_NAMES = ("TOKEN_EXPRESSION",)
EOF_NAMES = ("TOKEN_EOF",)
OK_AT_RETURN = (TAG, EXPR, EOF)


def _is_expr_const(e: ast.AST, names=EXPR_NAMES) -> bool:
    return (isinstance(e, ast.Name) and e.id in names) or (isinstance(e, ast.Attribute) and e.attr in names)


class CursorRun:
    def __init__(self, fn: ast.AST, stream: str):
        self.fn = fn
        self.stream = stream
        self.bad: list[BadReturn] = []
        self.returns = 0
        self.events = 0
        self.opaque: list[str] = []

    # -- events inside one expression, in evaluation order -------------------------------------
    def _is_stream(self, e: ast.AST) -> bool:
        return is_name(e, self.stream)

    def _advance(self, s: St) -> St:
        self.events += 1
        if s.pos == TAG:
            return St(EXPR if s.peek_expr else LOOSE)
        if s.pos in (EXPR, LOOSE, NOTEXPR):
            return St(PAST)
        if s.pos == EOF:
            return s
        return St(s.pos)

    def _verify(self, s: St) -> St:
        self.events += 1
        if s.pos == LOOSE:
            return St(EXPR)
        return s

    def expr(self, e: Optional[ast.AST], s: St) -> St:
        if e is None:
            return s
        if isinstance(e, (ast.Lambda, ast.FunctionDef, ast.AsyncFunctionDef)):
            return s
        if isinstance(e, ast.IfExp):
            s = self.expr(e.test, s)
            a = self.expr(e.body, self.assume(e.test, True, s))
            b = self.expr(e.orelse, self.assume(e.test, False, s))
            return a if a == b else St(_worse(a.pos, b.pos))
        if isinstance(e, ast.Call):
            # receiver / arguments first
            if isinstance(e.func, ast.Attribute):
                s = self.expr(e.func.value, s) if not self._is_stream(e.func.value) else s
            for a in e.args:
                if not self._is_stream(a):
                    s = self.expr(a, s)
            for k in e.keywords:
                if not self._is_stream(k.value):
                    s = self.expr(k.value, s)
            if isinstance(e.func, ast.Name) and e.func.id == "next" and e.args and self._is_stream(e.args[0]):
                return self._advance(s)
            if isinstance(e.func, ast.Attribute) and self._is_stream(e.func.value):
                m = e.func.attr
                if m in ("eat", "eat_one_of", "next_token", "__next__"):
                    return self._advance(s)
                if m == "expect":
                    if e.args and _is_expr_const(e.args[0]):
                        return self._verify(s)
                    return s
                if m == "expect_peek":
                    if e.args and _is_expr_const(e.args[0]):
                        return St(s.pos, True)
                    return s
                if m == "into_inner":
                    s = self._verify(s)
                    eat = next((k.value for k in e.keywords if k.arg == "eat"), None)
                    if eat is None or not (isinstance(eat, ast.Constant) and eat.value is False):
                        return self._advance(s)
                    return s
                if m in ("expect_eos",):
                    return s
                self.opaque.append(text(e)[:60])
                return St(OPAQUE)
            if any(self._is_stream(a) for a in e.args) or any(self._is_stream(k.value) for k in e.keywords):
                # the stream handed to something else
                self.opaque.append(text(e)[:60])
                return St(OPAQUE)
            return s
        for ch in ast.iter_child_nodes(e):
            if isinstance(ch, ast.expr):
                s = self.expr(ch, s)
            elif isinstance(ch, (ast.keyword, ast.comprehension)):
                for g in ast.iter_child_nodes(ch):
                    if isinstance(g, ast.expr):
                        s = self.expr(g, s)
        return s

    # -- branch knowledge ------------------------------------------------------------------------
    def _kind_test(self, t: ast.AST):
        """(which, positive) for  stream.current.kind ==/!= TOKEN_EXPRESSION  /  stream.peek.kind ..."""
        if isinstance(t, ast.Compare) and len(t.ops) == 1 and isinstance(t.ops[0], (ast.Eq, ast.NotEq, ast.Is, ast.IsNot)):
            l, r = t.left, t.comparators[0]
            if _is_expr_const(l, EXPR_NAMES + EOF_NAMES):
                l, r = r, l
            if _is_expr_const(r, EOF_NAMES) and isinstance(l, ast.Attribute) and l.attr == "kind" and isinstance(l.value, ast.Attribute) and self._is_stream(l.value.value) and l.value.attr == "current":
                return "eof", isinstance(t.ops[0], (ast.Eq, ast.Is))
            if _is_expr_const(r) and isinstance(l, ast.Attribute) and l.attr == "kind" and isinstance(l.value, ast.Attribute) and self._is_stream(l.value.value) and l.value.attr in ("current", "peek"):
                return l.value.attr, isinstance(t.ops[0], (ast.Eq, ast.Is))
        return None

    def assume(self, t: ast.AST, outcome: bool, s: St) -> St:
        if isinstance(t, ast.UnaryOp) and isinstance(t.op, ast.Not):
            return self.assume(t.operand, not outcome, s)
        if isinstance(t, ast.BoolOp):
            if isinstance(t.op, ast.And) and outcome or isinstance(t.op, ast.Or) and not outcome:
                for v in t.values:
                    s = self.assume(v, outcome, s)
            return s
        kt = self._kind_test(t)
        if kt is None:
            return s
        which, positive = kt
        holds = positive == outcome
        if which == "peek":
            return St(s.pos, holds)
        if which == "eof":
            return St(EOF) if holds and s.pos in (LOOSE, NOTEXPR, PAST) else s
        if s.pos == LOOSE:
            return St(EXPR if holds else NOTEXPR)
        return s

    # -- statements ---------------------------------------------------------------------------------
    def block(self, body: list[ast.stmt], states: set[St]) -> set[St]:
        for st in body:
            if not states:
                break
            states = self.stmt(st, states)
        return states

    def stmt(self, st: ast.stmt, states: set[St]) -> set[St]:
        if isinstance(st, ast.Return):
            for s in states:
                s2 = self.expr(st.value, s)
                self.returns += 1
                if s2.pos not in OK_AT_RETURN:
                    self.bad.append(BadReturn(st, s2.pos, ""))
            return set()
        if isinstance(st, ast.Raise):
            return set()
        if isinstance(st, ast.If):
            out: set[St] = set()
            for s in states:
                s1 = self.expr(st.test, s)
                out |= self.block(st.body, {self.assume(st.test, True, s1)})
                out |= self.block(st.orelse, {self.assume(st.test, False, s1)}) if st.orelse else {self.assume(st.test, False, s1)}
            return out
        if isinstance(st, (ast.For, ast.AsyncFor, ast.While)):
            # loops in these functions do not touch the stream; if one does, give up on the function
            touched = [c for c in ast.walk(st) if isinstance(c, ast.Name) and c.id == self.stream]
            if touched:
                self.opaque.append(f"loop at line {st.lineno} uses the stream")
                return {St(OPAQUE)}
            return states
        if isinstance(st, ast.Try):
            out = self.block(st.body, states)
            for h in st.handlers:
                out |= self.block(h.body, set(states) | out)
            out = self.block(st.orelse, out) if st.orelse else out
            return self.block(st.finalbody, out) if st.finalbody else out
        if isinstance(st, (ast.With, ast.AsyncWith)):
            for it in st.items:
                states = {self.expr(it.context_expr, s) for s in states}
            return self.block(st.body, states)
        if isinstance(st, (ast.FunctionDef, ast.AsyncFunctionDef, ast.ClassDef)):
            return states
        out = set()
        for s in states:
            for ch in ast.iter_child_nodes(st):
                if isinstance(ch, ast.expr):
                    s = self.expr(ch, s)
            out.add(s)
        return out

    def run(self) -> "CursorRun":
        end = self.block(self.fn.body, {St(TAG)})
        for s in end:  # falling off the end returns None
            self.returns += 1
            if s.pos not in OK_AT_RETURN:
                self.bad.append(BadReturn(self.fn, s.pos, "end of function"))
        return self


_ORDER = [TAG, EXPR, EOF, NOTEXPR, LOOSE, PAST, OPAQUE]


def _worse(a: str, b: str) -> str:
    return a if _ORDER.index(a) >= _ORDER.index(b) else b
