"""Symbolic normal forms of small straight-line functions (no solver: substitution + rewriting).

``summarise(fn_node)`` interprets a function whose body consists of assignments to local
names, ``if`` statements and ``return``s, and produces

* ``returns``  — list of ``(path_condition_texts, expr)`` with every local name replaced by
                 the expression that defines it (parameters and attributes stay symbolic);
* ``effects``  — the same for expression statements that are calls (``ctx.stopindex(...)``).

``if c: x = A else: x = B`` becomes ``A if c else B``; an ``if`` whose body returns contributes
its test to the path condition of the fall-through.  Anything else (loops, try, augmented
assignment to a tracked name, …) raises ``Unsupported`` — the caller reports *analysis broken*
rather than guessing.

``norm(expr)`` prints an expression in a normal form that is stable under the edits that do not
change behaviour: commutative ``+``/``*`` operands and ``min``/``max`` arguments are sorted,
``(None if c else e) is None``-selections are folded (``X if (None if c else e) is None else
f(None if c else e)`` -> ``X if c else f(e)``), redundant parentheses vanish (``ast.unparse``).
Two functions with the same normal forms compute the same values; a local rename, a reordering
of independent statements or an inlined temporary does not change the normal form.
"""

from __future__ import annotations

import ast
import copy
from typing import Optional


class Unsupported(Exception):
    pass


class _Subst(ast.NodeTransformer):
    def __init__(self, env: dict[str, ast.expr]):
        self.env = env

    def visit_Name(self, node: ast.Name):
        if isinstance(node.ctx, ast.Load) and node.id in self.env:
            return copy.deepcopy(self.env[node.id])
        return node

    # comprehension / lambda variables shadow; keep it simple: do not descend
    def visit_Lambda(self, node):
        return node


def subst(expr: ast.expr, env: dict[str, ast.expr]) -> ast.expr:
    return _Subst(env).visit(copy.deepcopy(expr))


def _t(e: ast.AST) -> str:
    return ast.unparse(e)


class _Norm(ast.NodeTransformer):
    def visit_BinOp(self, node: ast.BinOp):
        self.generic_visit(node)
        if isinstance(node.op, (ast.Add, ast.Mult)):
            ops = []

            def flat(n):
                if isinstance(n, ast.BinOp) and type(n.op) is type(node.op):
                    flat(n.left)
                    flat(n.right)
                else:
                    ops.append(n)

            flat(node)
            # only numbers commute; string concatenation does not — keep order when a str shows
            if any(isinstance(o, (ast.Constant,)) and isinstance(o.value, str) or isinstance(o, ast.JoinedStr) for o in ops):
                return node
            # identities: 1 * x, x + 0
            ident = 1 if isinstance(node.op, ast.Mult) else 0
            kept = [o for o in ops if not (isinstance(o, ast.Constant) and type(o.value) is int and o.value == ident)]
            ops = kept or ops[:1]
            ops.sort(key=_t)
            out = ops[0]
            for o in ops[1:]:
                out = ast.BinOp(left=out, op=node.op, right=o)
            return out
        return node

    def visit_Call(self, node: ast.Call):
        self.generic_visit(node)
        if isinstance(node.func, ast.Name) and node.func.id in ("min", "max") and not node.keywords and len(node.args) >= 2:
            node.args = sorted(node.args, key=_t)
        return node

    def visit_IfExp(self, node: ast.IfExp):
        self.generic_visit(node)
        # X if (None if c else e) is None else Y   ->   X if c else Y[sel := e]
        t = node.test
        if isinstance(t, ast.Compare) and len(t.ops) == 1 and isinstance(t.ops[0], (ast.Is, ast.IsNot)) and isinstance(t.comparators[0], ast.Constant) and t.comparators[0].value is None:
            sel = t.left
            if isinstance(sel, ast.IfExp) and isinstance(sel.body, ast.Constant) and sel.body.value is None:
                c, e = sel.test, sel.orelse
                sel_txt = _t(sel)

                class R(ast.NodeTransformer):
                    def generic_visit(self, n):
                        if isinstance(n, ast.expr) and _t(n) == sel_txt:
                            return copy.deepcopy(e)
                        return super().generic_visit(n)

                if isinstance(t.ops[0], ast.Is):
                    body, orelse = node.body, R().visit(copy.deepcopy(node.orelse))
                else:
                    # `Y if sel is not None else X`  ==  `X if c else Y[e]`
                    body, orelse = node.orelse, R().visit(copy.deepcopy(node.body))
                return _Norm().visit(ast.IfExp(test=c, body=body, orelse=orelse))
        return node


def norm(expr: ast.expr) -> str:
    e = _Norm().visit(copy.deepcopy(expr))
    ast.fix_missing_locations(e)
    return _t(e)


class Summary:
    def __init__(self):
        self.returns: list[tuple[list[str], ast.expr]] = []
        self.effects: list[tuple[list[str], ast.Call]] = []
        self.env: dict[str, ast.expr] = {}


def _neg(t: ast.expr) -> ast.expr:
    return ast.UnaryOp(op=ast.Not(), operand=t)


def summarise(fn: ast.AST) -> Summary:
    s = Summary()

    def block(body, env, cond) -> Optional[dict]:
        """returns env at fall-through or None if every path returned/raised"""
        for st in body:
            if isinstance(st, ast.Expr):
                if isinstance(st.value, ast.Constant):
                    continue  # docstring
                v = subst(st.value, env)
                if isinstance(v, ast.Await):
                    v = v.value
                if isinstance(v, ast.Call):
                    s.effects.append((list(cond), v))
                continue
            if isinstance(st, (ast.Assign, ast.AnnAssign)):
                tgt = st.targets[0] if isinstance(st, ast.Assign) else st.target
                if isinstance(st, ast.Assign) and len(st.targets) != 1:
                    raise Unsupported("chained assignment")
                if st.value is None:
                    continue
                if isinstance(tgt, ast.Name):
                    env = dict(env)
                    env[tgt.id] = subst(st.value, env)
                    continue
                if isinstance(tgt, ast.Tuple) and isinstance(st.value, ast.Tuple) and len(tgt.elts) == len(st.value.elts) and all(isinstance(x, ast.Name) for x in tgt.elts):
                    vals = [subst(v, env) for v in st.value.elts]
                    env = dict(env)
                    for x, v in zip(tgt.elts, vals):
                        env[x.id] = v
                    continue
                raise Unsupported(f"assignment to {_t(tgt)}")
            if isinstance(st, ast.Return):
                if st.value is not None:
                    s.returns.append((list(cond), subst(st.value, env)))
                return None
            if isinstance(st, ast.Raise):
                return None
            if isinstance(st, ast.If):
                test = subst(st.test, env)
                e1 = block(st.body, env, cond + [norm(test)])
                e2 = block(st.orelse, env, cond + [norm(_neg(test))]) if st.orelse else env
                if e1 is None and e2 is None:
                    return None
                if e1 is None:
                    env, cond = e2, cond + [norm(_neg(test))]
                    continue
                if e2 is None:
                    env, cond = e1, cond + [norm(test)]
                    continue
                merged = {}
                for k in set(e1) | set(e2):
                    a, b = e1.get(k), e2.get(k)
                    if a is not None and b is not None and _t(a) == _t(b):
                        merged[k] = a
                    else:
                        merged[k] = ast.IfExp(test=test, body=a if a is not None else ast.Name(id=k, ctx=ast.Load()), orelse=b if b is not None else ast.Name(id=k, ctx=ast.Load()))
                env = merged
                continue
            if isinstance(st, ast.Pass):
                continue
            raise Unsupported(type(st).__name__)
        return env

    body = [x for x in fn.body]
    out = block(body, {}, [])
    s.env = out or {}
    return s
