"""May-call resolution on the repository model (DESIGN 3.3).

``resolve_call(repo, f, call)`` returns the repo functions a call expression may reach:

* a plain name is looked up in the enclosing function's nested defs, the module
  (functions, classes -> ``__init__``/``__new__``) and its imports (through re-exports);
* ``self.m`` / ``cls.m`` resolve through the MRO plus every override in the subclass
  closure; ``super().m`` to the next class in the MRO;
* ``Cls.m`` (static/class calls such as ``Path.parse``) to that class's method;
* any other ``x.m(...)`` by a *role table* on the receiver (``context`` -> RenderContext,
  ``env`` -> Environment, ``stream``/``tokens`` -> TokenStream, ...) and otherwise by method
  name over the whole repo, except for names that collide with builtin container/str
  methods (those are builtins unless the receiver has a role).

Unresolved calls are returned as ``None`` so that engines can count them.
"""

from __future__ import annotations

import ast
from typing import Optional

from .astutil import attr_chain, callee_name
from .model import ClassInfo, FuncInfo, Module, Repo, expr_text

BUILTIN_METHOD_NAMES = {
    "get", "append", "pop", "add", "join", "items", "keys", "values", "split", "rsplit", "replace", "format",
    "strip", "lstrip", "rstrip", "lower", "upper", "encode", "decode", "write", "update", "index", "count",
    "sort", "extend", "insert", "remove", "clear", "setdefault", "popitem", "startswith", "endswith", "find",
    "isdigit", "isspace", "capitalize", "partition", "rpartition", "group", "groups", "start", "end", "sub",
    "match", "fullmatch", "search", "findall", "finditer", "move_to_end", "popleft", "appendleft", "getvalue",
    "timestamp", "strftime", "read", "open", "stat", "exists", "is_file", "resolve", "joinpath", "with_suffix",
    "is_absolute", "is_relative_to", "read_text", "unescape", "lstrip", "title", "splitlines", "copy", "close",
    "feed", "reset", "as_dict", "warn", "run_in_executor", "gettext", "ngettext", "pgettext", "npgettext",
    "isoformat", "quantize", "to_integral_value", "is_tag", "test", "push", "size", "parse", "filter",
}
# receiver (last component of the attribute chain before the method) -> class qualname
ROLES = {
    "context": "liquid.context.RenderContext",
    "ctx": "liquid.context.RenderContext",
    "static_context": "liquid.context.RenderContext",
    "macro_context": "liquid.context.RenderContext",
    "env": "liquid.environment.Environment",
    "environment": "liquid.environment.Environment",
    "stream": "liquid.stream.TokenStream",
    "tokens": "liquid.stream.TokenStream",
    "template": "liquid.template.BoundTemplate",
    "base_template": "liquid.template.BoundTemplate",
    "cached_template": "liquid.template.BoundTemplate",
    "loader": "liquid.loader.BaseLoader",
    "scope": "liquid.utils.chain_map.ReadOnlyChainMap",
    "cache": "liquid.utils.lru_cache.LRUCache",
    "parser": "liquid.parser.Parser",
    "block": "liquid.ast.Node",
    "node": "liquid.ast.Node",
}


class CallGraph:
    def __init__(self, repo: Repo):
        self.repo = repo
        self.by_name: dict[str, list[FuncInfo]] = {}
        for f in repo.all_functions():
            if f.cls is not None:
                self.by_name.setdefault(f.name, []).append(f)
        self._nested: dict[int, dict[str, FuncInfo]] = {}
        self._edges: dict[str, list[FuncInfo]] = {}
        self.unresolved = 0
        self.resolved = 0

    # ------------------------------------------------------------------
    def nested_defs(self, f: FuncInfo) -> dict[str, FuncInfo]:
        key = id(f.node)
        if key not in self._nested:
            out = {}
            for n in ast.walk(f.node):
                if n is not f.node and isinstance(n, (ast.FunctionDef, ast.AsyncFunctionDef)):
                    out[n.name] = FuncInfo(n.name, f"{f.qual}.<locals>.{n.name}", n, f.module, cls=f.cls, parent=f)
            self._nested[key] = out
        return self._nested[key]

    def overrides(self, cls: ClassInfo, name: str) -> list[FuncInfo]:
        out = []
        m = self.repo.find_method(cls, name)
        if m is not None:
            out.append(m)
        for c in self.repo.subclasses(cls.qual, strict=True):
            if name in c.methods:
                out.append(c.methods[name])
        seen, uniq = set(), []
        for x in out:
            if x.qual not in seen:
                seen.add(x.qual)
                uniq.append(x)
        return uniq

    def resolve_call(self, f: FuncInfo, call: ast.Call) -> Optional[list[FuncInfo]]:
        repo = self.repo
        fn = call.func
        if isinstance(fn, ast.Name):
            nd = self.nested_defs(f)
            if fn.id in nd:
                return [nd[fn.id]]
            if f.parent is not None:
                pd = self.nested_defs(f.parent)
                if fn.id in pd:
                    return [pd[fn.id]]
            r = repo.resolve_in(f.module, fn.id)
            if isinstance(r, FuncInfo):
                return [r]
            if isinstance(r, ClassInfo):
                out = []
                for m in ("__init__", "__new__", "__post_init__"):
                    x = repo.find_method(r, m)
                    if x is not None:
                        out.append(x)
                return out
            return None
        if not isinstance(fn, ast.Attribute):
            return None
        name = fn.attr
        recv = fn.value
        # super().m
        if isinstance(recv, ast.Call) and callee_name(recv) == "super" and f.cls is not None:
            mro = repo.mro_classes(f.cls)
            for k in mro[1:]:
                if name in k.methods:
                    return [k.methods[name]]
            return None
        chain = attr_chain(recv)
        if chain == ["self"] or chain == ["cls"]:
            if f.cls is not None:
                r = self.overrides(f.cls, name)
                if r:
                    return r
            return None
        # Cls.m / module.func
        if chain is not None:
            r = repo.resolve_in(f.module, ".".join(chain + [name]))
            if isinstance(r, FuncInfo):
                return [r]
            if isinstance(r, ClassInfo):
                x = repo.find_method(r, "__init__")
                return [x] if x is not None else []
            # an imported external module / object (dateutil's `parser`, `re`, `math`, ...)
            if chain[0] in f.module.imports and chain[0] not in ("self", "cls"):
                head = repo.resolve_in(f.module, chain[0])
                if isinstance(head, tuple) and head[0] == "ext":
                    return None
            # role table
            role = ROLES.get(chain[-1])
            if role is not None:
                try:
                    c = repo.cls(role)
                except Exception:  # noqa: BLE001
                    c = None
                if c is not None:
                    r2 = self.overrides(c, name)
                    if r2:
                        return r2
                    return None
        if name in BUILTIN_METHOD_NAMES:
            return None
        cands = self.by_name.get(name)
        if cands:
            return list(cands)
        return None

    def callees(self, f: FuncInfo) -> list[FuncInfo]:
        if f.qual in self._edges:
            return self._edges[f.qual]
        out, seen = [], set()
        self._edges[f.qual] = out
        for n in ast.walk(f.node):
            if isinstance(n, ast.Call):
                r = self.resolve_call(f, n)
                if r is None:
                    self.unresolved += 1
                    continue
                self.resolved += 1
                for g in r:
                    if g.qual not in seen:
                        seen.add(g.qual)
                        out.append(g)
        return out


def sccs(nodes: list[str], edges: dict[str, list[str]]) -> list[list[str]]:
    """Tarjan's strongly connected components (iterative)."""
    index, low, on, stack, out = {}, {}, set(), [], []
    counter = [0]
    for root in nodes:
        if root in index:
            continue
        work = [(root, iter(edges.get(root, [])))]
        index[root] = low[root] = counter[0]
        counter[0] += 1
        stack.append(root)
        on.add(root)
        while work:
            v, it = work[-1]
            advanced = False
            for w in it:
                if w not in index:
                    index[w] = low[w] = counter[0]
                    counter[0] += 1
                    stack.append(w)
                    on.add(w)
                    work.append((w, iter(edges.get(w, []))))
                    advanced = True
                    break
                elif w in on:
                    low[v] = min(low[v], index[w])
            if advanced:
                continue
            work.pop()
            if work:
                u = work[-1][0]
                low[u] = min(low[u], low[v])
            if low[v] == index[v]:
                comp = []
                while True:
                    w = stack.pop()
                    on.discard(w)
                    comp.append(w)
                    if w == v:
                        break
                out.append(comp)
    return out
