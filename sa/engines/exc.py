"""EXC — exception-escape analysis (DESIGN 4 / Appendix A).

For every function reachable from a boundary, under a calling *context* (the kinds of its
parameters, see ``sa/kinds.py``), compute the set of exceptions that may leave it:

    escape(f, ctx) =   { (site, E) : a risk primitive at `site` in f may raise E given the
                                      kinds of its arguments, and no enclosing handler of f
                                      consumes E }
                     ∪ { x ∈ escape(g, ctx_g) : f calls g with argument kinds ctx_g at a call
                                      site whose enclosing handlers do not consume x }

The risk primitives are a closed table (``primitives`` below: CPython / stdlib documented
behaviour, third-party entry points as trusted rows).  Handlers are subtracted with the
exception hierarchy of ``engines/hnd.py`` (a handler that re-raises lets the exception
continue).  Calls are resolved with ``sa/callgraph.py`` plus the dynamic edges the repo has:
``Filter.evaluate*`` -> every registered filter *through its decorator wrappers* (the
wrapper's ``_filter(...)`` call is a hole filled with the decorated function, so changing a
decorator changes the verdict of every filter it decorates), ``run_in_executor(None, f, …)``
-> f, function references passed as arguments (``key=_getitem``) -> called with unknown
arguments.  The computation is a worklist fixed point over (function, context) pairs; at most
``MAX_CTX`` contexts per function are kept (then the context is widened to "unknown").

Nothing is executed; no value is ever concretised.
"""

from __future__ import annotations

import ast
from collections import deque
from dataclasses import dataclass, field
from typing import Optional

from ..astutil import attr_chain, callee_name, handler_types, index_below_len_guarded, text, unwrap_await
from ..callgraph import CallGraph
from ..kinds import ALL, DATA, NUM, KindFlow, _k
from ..model import ClassInfo, FuncInfo, Repo
from ..registry import Registry
from . import hnd

MAX_CTX = 8
BOTTOM = frozenset()

# exception classes armed by the primitives
TE, VE, OE, ZE = "TypeError", "ValueError", "OverflowError", "ZeroDivisionError"
IE, KE, AE = "IndexError", "KeyError", "AttributeError"
DIO, DOV, DDZ = "decimal.InvalidOperation", "decimal.Overflow", "decimal.DivisionByZero"
UDE, UEE, BAE = "UnicodeDecodeError", "UnicodeEncodeError", "binascii.Error"
ASE, SIE, OSE = "AssertionError", "StopIteration", "OSError"

STR_ONLY_METHODS = {
    "strip", "lstrip", "rstrip", "lower", "upper", "title", "capitalize", "casefold", "swapcase", "startswith", "endswith", "splitlines", "encode", "isdigit", "isspace", "zfill",
    "ljust", "rjust", "center", "partition", "rpartition", "format", "removeprefix", "removesuffix", "isalpha", "isalnum",
}
LIST_ONLY_METHODS = {"append", "extend", "sort", "reverse", "insert"}
DICT_ONLY_METHODS = {"items", "keys", "values", "setdefault", "update"}
HAS_METHOD = {
    **{m: "S" for m in STR_ONLY_METHODS},
    **{m: "L" for m in LIST_ONLY_METHODS},
    **{m: "D" for m in DICT_ONLY_METHODS},
    "split": "SY",
    "rsplit": "SY",
    "replace": "SY",
    "join": "SY",
    "find": "SY",
    "count": "SLYR",
    "index": "SLYR",
    "decode": "Y",
    "is_integer": "F",
    "get": "D",
    "pop": "LD",
    "copy": "LD",
    "clear": "LD",
}


@dataclass(frozen=True)
class Site:
    func: str
    file: str
    line: int
    prim: str
    arg: str
    exc: str
    kinds: str = field(default="", compare=False)

    @property
    def key(self) -> str:
        return f"{self.func}|{self.prim}:{self.arg}|{self.exc}"


@dataclass
class Summary:
    escapes: dict = field(default_factory=dict)  # Site -> set of via (None | (qual, ctxkey))
    ret: frozenset = BOTTOM
    analysed: bool = False


def ctx_key(ctx: dict[str, frozenset]) -> tuple:
    return tuple(sorted((p, "".join(sorted(k))) for p, k in ctx.items() if k != ALL))


class Exc:
    def __init__(self, repo: Repo, arm_type_error_in_filters: bool = True):
        self.repo = repo
        self.H = hnd.Hier(repo)
        self.cg = CallGraph(repo)
        self.reg = Registry(repo)
        self.summaries: dict[tuple, Summary] = {}
        self.ctxs: dict[str, dict[tuple, dict]] = {}
        self.funcs: dict[str, FuncInfo] = {}
        self.deps: dict[tuple, set] = {}
        self.queue: deque = deque()
        self.queued: set = set()
        self._try_maps: dict[int, dict[int, list]] = {}
        self.n_sites = 0
        self.arm_intstr = True  # str() of an int beyond the int/str conversion limit (also inside a list/dict)
        self.n_calls = 0
        self.n_unresolved = 0
        self.prim_counts: dict[str, int] = {}
        # extra per-expression observers: hook(f, node, st, flow, summary_key) — run inside the same
        # context-sensitive kind flow as the exception primitives (used by C16-RAWEQ)
        self.expr_hooks: list = []
        # filter entries: name -> (impl FuncInfo, [decorator FuncInfo wrappers outer->inner])
        self.filter_entries = []
        for fi in self.reg.filter_functions():
            chain = []
            for d in fi.decorators:
                dn = d.split(".")[-1]
                dec = self._decorator(fi.func, dn)
                if dec is not None:
                    chain.append(dec)
            self.filter_entries.append((fi, chain))
        self._class_kind_cache: dict[str, Optional[str]] = {}
        self._hkinds: dict[int, set] = {}
        # holes of the decorator wrappers: (wrapper qual, hole name) -> [(filter, chain, next level)]
        self._holes: dict[tuple, list] = {}
        for fi, chain in self.filter_entries:
            for idx, (_dec, wrapper, hole) in enumerate(chain):
                self._holes.setdefault((wrapper.qual, hole), []).append((fi, chain, idx + 1))

    # ------------------------------------------------------------------ helpers
    def _decorator(self, f: FuncInfo, name: str) -> Optional[tuple[FuncInfo, FuncInfo, str]]:
        """(decorator, its nested wrapper, hole parameter name) or None for pass-through decorators."""
        r = self.repo.resolve_in(f.module, name)
        if not isinstance(r, FuncInfo):
            return None
        nested = self.cg.nested_defs(r)
        params = r.params()
        if not params:
            return None
        hole = params[0]
        for w in nested.values():
            if any(isinstance(c, ast.Call) and isinstance(c.func, ast.Name) and c.func.id == hole for c in ast.walk(w.node)):
                return (r, w, hole)
        return None

    def class_kinds(self, name: str) -> Optional[str]:
        if name in self._class_kind_cache:
            return self._class_kind_cache[name]
        out = None
        for c in self.repo.all_classes():
            if c.name == name:
                mro = [k.name for k in self.repo.mro_classes(c)]
                bases = set(mro)
                for b in self.repo.mro(c):
                    bases.add(b.name if hasattr(b, "name") else str(b[1]) if isinstance(b, tuple) else str(b))
                if "Undefined" in bases:
                    out = "U"
                elif "str" in bases or "Markup" in bases:
                    out = "S"
                elif "dict" in bases:
                    out = "D"
                elif "list" in bases or "tuple" in bases:
                    out = "L"
                else:
                    out = "O"
                break
        self._class_kind_cache[name] = out
        return out

    def try_map(self, f: FuncInfo) -> dict[int, list]:
        """node id -> enclosing try statements whose *body* contains the node (innermost first)."""
        key = id(f.node)
        if key in self._try_maps:
            return self._try_maps[key]
        m: dict[int, list] = {}

        def rec(node, stack):
            m[id(node)] = stack
            if isinstance(node, ast.Try):
                for s in node.body:
                    rec(s, [node] + stack)
                for part in (node.handlers, node.orelse, node.finalbody):
                    for s in part:
                        rec(s, stack)
                return
            if isinstance(node, (ast.FunctionDef, ast.AsyncFunctionDef, ast.ClassDef)) and node is not f.node:
                return
            for ch in ast.iter_child_nodes(node):
                rec(ch, stack)

        rec(f.node, [])
        self._try_maps[key] = m
        return m

    def escapes_handlers(self, f: FuncInfo, node: ast.AST, exc: str) -> bool:
        """Does an exception of class ``exc`` raised at ``node`` leave function ``f``?"""
        for tr in self.try_map(f).get(id(node), []):
            for h in tr.handlers:
                types = handler_types(h)
                if not types or self.H.catches(types, exc):
                    kinds = self._hkinds.get(id(h))
                    if kinds is None:
                        kinds = self._hkinds[id(h)] = hnd.classify(h)[0]
                    if "reraise" in kinds:
                        break  # continues outward from this try
                    return False
            # not caught by this try (or re-raised): look further out
        return True

    def local_const(self, f: FuncInfo, e: ast.AST) -> bool:
        """``e`` is a name bound exactly once in ``f`` (or at module level) to a string literal,
        possibly wrapped in Markup(...)."""
        while isinstance(e, ast.Call) and callee_name(e) in ("Markup",) and e.args:
            e = e.args[0]
        if isinstance(e, ast.Constant):
            return True
        if not isinstance(e, ast.Name):
            return False
        vals = [n.value for n in ast.walk(f.node) if isinstance(n, ast.Assign) and any(isinstance(t, ast.Name) and t.id == e.id for t in n.targets)]
        if len(vals) == 1 and isinstance(vals[0], ast.Constant) and isinstance(vals[0].value, str):
            return True
        if not vals and e.id in f.module.assigns and isinstance(f.module.assigns[e.id], ast.Constant):
            return True
        return False

    def islice_guard(self, f: FuncInfo, node: ast.Call, bad: list) -> bool:
        """Are all non-constant islice bounds provably None or >= 0 (clamps, len, abs)?"""
        from ..model import walk_no_nested

        assigns: dict[str, list] = {}
        for st in walk_no_nested(f.node):
            if isinstance(st, ast.Assign) and len(st.targets) == 1 and isinstance(st.targets[0], ast.Name):
                assigns.setdefault(st.targets[0].id, []).append(st.value)
            elif isinstance(st, ast.AnnAssign) and isinstance(st.target, ast.Name) and st.value is not None:
                assigns.setdefault(st.target.id, []).append(st.value)

        def nonneg(e, depth=0) -> bool:
            if depth > 6:
                return False
            if isinstance(e, ast.Constant):
                return e.value is None or (isinstance(e.value, int) and not isinstance(e.value, bool) and e.value >= 0)
            if isinstance(e, ast.Call) and isinstance(e.func, ast.Name):
                if e.func.id in ("len", "abs"):
                    return True
                if e.func.id == "max" and len(e.args) >= 2:
                    return any(nonneg(a, depth + 1) for a in e.args)
                if e.func.id == "min" and len(e.args) >= 2:
                    return all(nonneg(a, depth + 1) for a in e.args)
            if isinstance(e, ast.IfExp):
                return nonneg(e.body, depth + 1) and nonneg(e.orelse, depth + 1)
            if isinstance(e, ast.Name):
                vals = assigns.get(e.id)
                return bool(vals) and all(nonneg(v, depth + 1) for v in vals)
            return False

        return all(nonneg(a) for a in bad)

    # ------------------------------------------------------------------ contexts
    def get_summary(self, f: FuncInfo, ctx: dict[str, frozenset], requester: Optional[tuple]) -> tuple:
        """Key of the summary for ``f`` under ``ctx`` (created and queued on first request)."""
        self.funcs[f.qual] = f
        known = self.ctxs.setdefault(f.qual, {})
        ck = ctx_key(ctx)
        if ck not in known:
            if len(known) >= MAX_CTX:
                ctx, ck = {}, ()
            known.setdefault(ck, ctx)
        key = (f.qual, ck)
        if key not in self.summaries:
            self.summaries[key] = Summary()
            self._enqueue(key)
        if requester is not None:
            self.deps.setdefault(key, set()).add(requester)
        return key

    def _enqueue(self, key):
        if key not in self.queued:
            self.queued.add(key)
            self.queue.append(key)

    def _ctx_of(self, key) -> dict:
        return self.ctxs.get(key[0], {}).get(key[1], {})

    # ------------------------------------------------------------------ the fixed point
    def run(self, roots: list[tuple[FuncInfo, dict]]):
        self.root_keys = [self.get_summary(f, ctx, None) for f, ctx in roots]
        rounds = 0
        while self.queue:
            key = self.queue.popleft()
            self.queued.discard(key)
            rounds += 1
            if rounds > 200000:
                raise RuntimeError("EXC fixed point did not converge")
            f = self.funcs[key[0]]
            ctx = self._ctx_of(key)
            new = self.analyse(f, ctx, key)
            old = self.summaries[key]
            changed = (not old.analysed) or new.escapes != old.escapes or new.ret != old.ret
            old.escapes, old.ret, old.analysed = new.escapes, new.ret, True
            if changed:
                for d in self.deps.get(key, ()):
                    self._enqueue(d)
        self.rounds = rounds

    # ------------------------------------------------------------------ one function
    def analyse(self, f: FuncInfo, ctx: dict[str, frozenset], key: tuple) -> Summary:
        out = Summary()
        params = f.params()
        pk = {}
        for p in params:
            if p in ("self", "cls"):
                pk[p] = _k("O")
            elif p in ctx:
                pk[p] = ctx[p]
        a = f.node.args
        if a.vararg:
            pk[a.vararg.arg] = _k("L")
        if a.kwarg:
            pk[a.kwarg.arg] = _k("D")
        call_cache: dict = {}

        def callee_results(call: ast.Call, st, flow):
            ck = (id(call), st)
            if ck in call_cache:
                return call_cache[ck]
            outl = []
            for g, gctx in self.resolve_targets(f, call, st, flow):
                gkey = self.get_summary(g, gctx, key)
                outl.append((gkey, self.summaries[gkey]))
            call_cache[ck] = outl
            return outl

        def call_kinds(call, st, flow):
            res = callee_results(call, st, flow)
            if not res:
                return None
            if any(self.funcs[k2[0]].name in ("__init__", "__new__", "__post_init__") for k2, _ in res):
                owner = self.funcs[res[0][0][0]].cls
                ck = self.class_kinds(owner.name) if owner is not None else None
                return frozenset(ck or "O")
            if len(res) > 6:
                return None
            ks = set()
            for (_k2, s) in res:
                if not s.analysed and not s.ret:
                    continue
                ks |= s.ret
            g_async = any(self.funcs[k2[0]].is_async or _is_generator(self.funcs[k2[0]].node) for k2, _ in res)
            if g_async and not isinstance(call, ast.Call):
                return None
            if not ks:
                return None if any(not s.analysed for _, s in res) else frozenset("N")
            return frozenset(ks)

        def on_expr(node, st, flow):
            if isinstance(node, ast.Call):
                for (gkey, s) in callee_results(node, st, flow):
                    self.n_calls += 1
                    for site in s.escapes:
                        if self.escapes_handlers(f, node, site.exc):
                            out.escapes.setdefault(site, set()).add(gkey)
            for hook in self.expr_hooks:
                hook(f, node, st, flow, key)
            for prim, arg, excs in primitives(self, f, node, st, flow):
                self.prim_counts[prim] = self.prim_counts.get(prim, 0) + 1
                for e in excs:
                    self.n_sites += 1
                    if self.escapes_handlers(f, node, e):
                        a_txt, _, a_k = arg.partition("\x00")
                        site = Site(f.qual, f.file, getattr(node, "lineno", f.line), prim, a_txt, e, a_k)
                        out.escapes.setdefault(site, set()).add(None)

        flow = KindFlow(param_kinds=pk, on_expr=on_expr, call_kinds=call_kinds, class_kinds=self.class_kinds, module_consts=f.module.assigns)
        flow.analyse(f.node)
        if _is_generator(f.node):
            out.ret = _k("O")
        else:
            out.ret = flow.return_kinds() or _k("N")
            if out.ret == ALL:
                # nothing inferred: fall back on the declared return type of the repo function
                ann = _annotation_kinds(f.node.returns)
                if ann:
                    out.ret = ann
        return out

    # ------------------------------------------------------------------ call targets + contexts
    def resolve_targets(self, f: FuncInfo, call: ast.Call, st, flow: KindFlow) -> list[tuple[FuncInfo, dict]]:
        name = callee_name(call)
        out: list[tuple[FuncInfo, dict]] = []
        # dynamic edge 1: Filter.evaluate* -> every registered filter entry
        if isinstance(call.func, ast.Name) and call.func.id == "func" and f.qual.startswith("liquid.builtin.expressions.filtered.Filter.evaluate"):
            for fi, chain in self.filter_entries:
                out.append(self._filter_entry(fi, chain, 0, DATA))
            return out
        if isinstance(call.func, ast.Attribute) and call.func.attr == "filter_async" and f.qual.startswith("liquid.builtin.expressions.filtered.Filter.evaluate"):
            for fi, chain in self.filter_entries:
                if fi.cls is not None and "filter_async" in fi.cls.methods:
                    g = fi.cls.methods["filter_async"]
                    out.append((g, self._data_ctx(g)))
            return out
        # dynamic edge 2: the hole of a decorator wrapper
        if f.parent is not None and isinstance(call.func, ast.Name):
            holes = self._holes
            hk = (f.qual, call.func.id)
            if hk in holes:
                first = flow.kinds_of(call.args[0], st) if call.args and not isinstance(call.args[0], ast.Starred) else DATA
                for fi, chain, idx in holes[hk]:
                    out.append(self._filter_entry(fi, chain, idx, first))
                return out
        # run_in_executor(None, fn, *args)
        if name == "run_in_executor" and len(call.args) >= 2:
            tgt = self._resolve_ref(f, call.args[1])
            for g in tgt:
                out.append((g, {}))
            return out
        r = self.cg.resolve_call(f, call)
        if r is None:
            self.n_unresolved += 1
            r = []
        for g in r:
            if not self._arity_ok(g, call):
                continue
            out.append((g, self._bind_ctx(g, call, st, flow)))
        # function references passed as arguments are assumed to be called
        for a in list(call.args) + [k.value for k in call.keywords]:
            if isinstance(a, (ast.Name, ast.Attribute)) and not isinstance(a, ast.Starred):
                for g in self._resolve_ref(f, a):
                    out.append((g, {}))
        return out

    def _resolve_ref(self, f: FuncInfo, e: ast.AST) -> list[FuncInfo]:
        if isinstance(e, ast.Name):
            nd = self.cg.nested_defs(f)
            if e.id in nd:
                return [nd[e.id]]
            if f.parent is not None and e.id in self.cg.nested_defs(f.parent):
                return [self.cg.nested_defs(f.parent)[e.id]]
            r = self.repo.resolve_in(f.module, e.id)
            if isinstance(r, FuncInfo):
                return [r]
            return []
        ch = attr_chain(e)
        if ch and ch[0] in ("self", "cls") and len(ch) == 2 and f.cls is not None:
            return self.cg.overrides(f.cls, ch[1])
        if ch:
            r = self.repo.resolve_in(f.module, ".".join(ch))
            if isinstance(r, FuncInfo):
                return [r]
        return []

    def _data_ctx(self, g: FuncInfo, first: Optional[frozenset] = None) -> dict:
        ctx = {}
        ps = [p for p in g.params() if p not in ("self", "cls")]
        a = g.node.args
        star = {a.vararg.arg if a.vararg else None, a.kwarg.arg if a.kwarg else None}
        for i, p in enumerate(ps):
            if p in star:
                continue
            if p in ("context", "environment", "env"):
                ctx[p] = _k("O")
            elif i == 0 and first is not None:
                ctx[p] = first
            else:
                ctx[p] = DATA
        return ctx

    def _filter_entry(self, fi, chain, idx: int, first: frozenset) -> tuple[FuncInfo, dict]:
        """The callable reached when the filter is invoked at decorator level ``idx``."""
        if idx < len(chain):
            dec, wrapper, hole = chain[idx]
            return wrapper, self._data_ctx(wrapper, first)
        return fi.func, self._data_ctx(fi.func, first)

    def _arity_ok(self, g: FuncInfo, call: ast.Call) -> bool:
        """Can ``call`` be a call of ``g`` at all?  (Name-based method resolution offers every
        method of that name; the argument list rules most of them out.)"""
        a = g.node.args
        pos = [x.arg for x in a.posonlyargs + a.args]
        if g.cls is not None and pos and pos[0] in ("self", "cls") and "staticmethod" not in g.decorators():
            pos = pos[1:]
        if any(isinstance(x, ast.Starred) for x in call.args) or any(k.arg is None for k in call.keywords):
            return True
        npos = len(call.args)
        if npos > len(pos) and a.vararg is None:
            return False
        names = set(pos) | {x.arg for x in a.kwonlyargs}
        for k in call.keywords:
            if k.arg not in names and a.kwarg is None:
                return False
            if k.arg in pos[:npos]:
                return False
        required = pos[: len(pos) - len(a.defaults)]
        given = set(pos[:npos]) | {k.arg for k in call.keywords}
        if any(p not in given for p in required):
            return False
        for p, d in zip(a.kwonlyargs, a.kw_defaults):
            if d is None and p.arg not in given:
                return False
        return True

    def _bind_ctx(self, g: FuncInfo, call: ast.Call, st, flow: KindFlow) -> dict:
        a = g.node.args
        pos = [x.arg for x in a.posonlyargs + a.args]
        is_method = g.cls is not None and pos and pos[0] in ("self", "cls")
        decos = g.decorators()
        if is_method and "staticmethod" not in decos:
            # bound call (obj.m(...), self.m(...), Cls(...)): self is implicit.  `Cls.m(obj, ...)` is rare.
            pos = pos[1:]
        ctx: dict[str, frozenset] = {}
        i = 0
        starred = False
        for arg in call.args:
            if isinstance(arg, ast.Starred):
                starred = True
                continue
            if i < len(pos):
                ctx[pos[i]] = flow.kinds_of(arg, st)
            i += 1
        names = set(pos) | {x.arg for x in a.kwonlyargs}
        for k in call.keywords:
            if k.arg is None:
                starred = True
            elif k.arg in names:
                ctx[k.arg] = flow.kinds_of(k.value, st)
        # defaults for unbound parameters
        defaults = {}
        allpos = a.posonlyargs + a.args
        for p, d in zip(allpos[len(allpos) - len(a.defaults):], a.defaults):
            defaults[p.arg] = d
        for p, d in zip(a.kwonlyargs, a.kw_defaults):
            if d is not None:
                defaults[p.arg] = d
        for p in names:
            if p not in ctx:
                if starred:
                    ctx[p] = ALL
                elif p in defaults:
                    ctx[p] = flow.kinds_of(defaults[p], frozenset())
        # keep contexts small: drop uninformative entries
        return {p: k for p, k in ctx.items() if k != ALL}

    # ------------------------------------------------------------------ reporting
    def constructs(self, root: tuple, site: Site, is_construct) -> dict[str, list[str]]:
        """Every construct (filter implementation, node render method, expression evaluate
        method ...) that is the *last* construct on some path from ``root`` to ``site``,
        with one witness chain each."""
        out: dict[str, list[str]] = {}
        seen = set()
        stack = deque([(root, None, (root[0],))])
        while stack:
            key, last, path = stack.popleft()  # breadth first: shortest witness chains
            if (key, last) in seen:
                continue
            seen.add((key, last))
            if is_construct(self.funcs[key[0]]):
                last = key[0]
            for via in self.summaries[key].escapes.get(site, ()):
                if via is None:
                    out.setdefault(last or root[0], list(path))
                else:
                    stack.append((via, last, path + (via[0],) if len(path) < 60 else path))
        return out


_ANN = {"int": "I", "str": "S", "bool": "B", "float": "F", "bytes": "Y", "None": "N"}


def _annotation_kinds(a) -> frozenset:
    if a is None:
        return frozenset()
    if isinstance(a, ast.Constant) and isinstance(a.value, str):
        try:
            a = ast.parse(a.value, mode="eval").body
        except SyntaxError:
            return frozenset()
    if isinstance(a, ast.Constant) and a.value is None:
        return frozenset("N")
    if isinstance(a, ast.Name) and a.id in _ANN:
        return frozenset(_ANN[a.id])
    if isinstance(a, ast.Subscript) and isinstance(a.value, ast.Name):
        if a.value.id in ("list", "List", "tuple", "Tuple", "Sequence"):
            return frozenset("L")
        if a.value.id in ("dict", "Dict"):
            return frozenset("D")
        if a.value.id == "Optional":
            inner = _annotation_kinds(a.slice)
            return inner | frozenset("N") if inner else frozenset()
    if isinstance(a, ast.BinOp) and isinstance(a.op, ast.BitOr):
        l, r = _annotation_kinds(a.left), _annotation_kinds(a.right)
        return l | r if l and r else frozenset()
    return frozenset()


def _is_generator(fn: ast.AST) -> bool:
    from ..model import walk_no_nested

    for n in walk_no_nested(fn):
        if isinstance(n, (ast.Yield, ast.YieldFrom)):
            return True
    return False


# ---------------------------------------------------------------------------- primitive table
def _const(e) -> bool:
    return isinstance(e, ast.Constant)


def _argtext(e) -> str:
    return text(e)[:40] if e is not None else ""


def _nonzero_const(e) -> bool:
    return isinstance(e, ast.Constant) and isinstance(e.value, (int, float)) and not isinstance(e.value, bool) and e.value != 0


def primitives(x: Exc, f: FuncInfo, node: ast.AST, st, flow: KindFlow):
    """Yield (primitive label, argument text, [exception classes]) for one AST node."""
    K = lambda e: flow.kinds_of(e, st)  # noqa: E731
    if isinstance(node, ast.Assert):
        if not _assert_implied_by_callers(x, f, node):
            yield "assert", _argtext(node.test), [ASE]
        return
    if isinstance(node, ast.Raise):
        if node.exc is not None:
            e = node.exc.func if isinstance(node.exc, ast.Call) else node.exc
            nm = text(e)
            short = nm.split(".")[-1]
            if isinstance(e, (ast.Name, ast.Attribute)) and (short in x.H.parent or nm in x.H.parent):
                cls = nm if nm in x.H.parent else short
                if not x.H.is_liquid_error(cls) and x.H.is_sub(cls, "BaseException") and not x.H.is_sub(cls, "LiquidInterrupt") and not x.H.is_sub(cls, "StopRender"):
                    yield "raise", cls, [cls]
        return
    if isinstance(node, ast.Call):
        name = callee_name(node)
        fn = node.func
        args = [a for a in node.args if not isinstance(a, ast.Starred)]
        plain = isinstance(fn, ast.Name)
        if plain and name == "int" and args:
            k = K(args[0])
            ex = []
            if "F" in k:
                ex += [OE, VE]
            if k & _k("SY"):
                ex += [VE]
            if k & _k("NLDRUO"):
                ex += [TE]
            if ex:
                yield "int()", _argtext(args[0]) + "\x00" + "".join(sorted(k)), sorted(set(ex))
        elif plain and name == "str" and args and x.arm_intstr:
            k = K(args[0])
            if k != ALL and "O" not in k and k & _k("ILD"):
                yield "str(int)", _argtext(args[0]) + "\x00" + "".join(sorted(k)), [VE]
        elif plain and name == "soft_str" and args and x.arm_intstr:
            k = K(args[0])
            if "O" not in k or k == ALL:
                if k == ALL or k & _k("ILD"):
                    yield "str(int)", "soft_str:" + _argtext(args[0]) + "\x00" + "".join(sorted(k)), [VE]
        elif plain and name == "sum" and args:
            a0 = args[0]
            ek = K(a0.elt) if isinstance(a0, (ast.GeneratorExp, ast.ListComp)) else None
            if ek is not None and "C" in ek and ek != ALL:
                # Decimal('Infinity') + Decimal('-Infinity'), or an exponent overflow
                yield "sum(Decimal)", _argtext(a0.elt) + "\x00" + "".join(sorted(ek)), [DIO, DOV]
        elif plain and name == "float" and args:
            k = K(args[0])
            ex = []
            if k & _k("SY"):
                ex += [VE]
            if k & _k("IB") and "I" in k:
                ex += [OE]
            if k & _k("NLDRUO"):
                ex += [TE]
            if ex:
                yield "float()", _argtext(args[0]) + "\x00" + "".join(sorted(k)), sorted(set(ex))
        elif name == "Decimal" and args:
            a0 = args[0]
            k = K(a0)
            ex = []
            if isinstance(a0, ast.Call) and callee_name(a0) == "str" and a0.args:
                ki = K(a0.args[0])
                if not ki <= _k("IFC"):
                    ex += [DIO]  # Decimal(str(True)), Decimal(str(None)), ...
            elif k & _k("S"):
                ex += [DIO]
            if k & _k("NLDRUOY"):
                ex += [TE]
            if ex and not _const(a0):
                yield "Decimal()", _argtext(a0) + "\x00" + "".join(sorted(k)), sorted(set(ex))
        elif name in ("ceil", "floor") and isinstance(fn, ast.Attribute) and attr_chain(fn.value) == ["math"] and args:
            k = K(args[0])
            if "F" in k:
                yield f"math.{name}()", _argtext(args[0]) + "\x00" + "".join(sorted(k)), [OE, VE]
            if k & _k("NSLDRUO"):
                yield f"math.{name}()", _argtext(args[0]) + "\x00" + "".join(sorted(k)), [TE]
        elif plain and name == "round" and args:
            k = K(args[0])
            if len(args) == 1 and "F" in k:
                yield "round()", _argtext(args[0]) + "\x00" + "".join(sorted(k)), [OE, VE]
            if len(args) == 2 and not _const(args[1]):
                yield "round(x,n)", _argtext(args[1]), [OE]
            if len(args) == 2 and "C" in k:
                yield "round(x,n)", _argtext(args[0]) + "\x00C", [DIO]
        elif plain and name == "len" and args:
            k = K(args[0])
            if "O" not in k and k & _k("NBIF"):
                yield "len()", _argtext(args[0]) + "\x00" + "".join(sorted(k)), [TE]
            if k != ALL and "R" in k:
                yield "len(range)", _argtext(args[0]) + "\x00" + "".join(sorted(k)), [OE]
        elif plain and name == "islice" and len(args) >= 2:
            bad = [a for a in args[1:] if not (isinstance(a, ast.Constant) and (a.value is None or (isinstance(a.value, int) and a.value >= 0)))]
            if bad and not x.islice_guard(f, node, bad):
                yield "islice()", ",".join(_argtext(a) for a in bad), [VE]
        elif plain and name == "next" and len(args) == 1:
            yield "next()", _argtext(args[0]), [SIE]
        elif plain and name in ("min", "max") and len(args) == 1 and not any(k.arg == "default" for k in node.keywords):
            yield f"{name}(iterable)", _argtext(args[0]), [VE]
        elif plain and name == "range" and len(args) == 3 and not _nonzero_const(args[2]):
            yield "range(step)", _argtext(args[2]), [VE]
        elif plain and name == "getattr" and len(args) == 2:
            yield "getattr()", _argtext(args[1]), [AE]
        elif plain and name == "chr" and args and not _const(args[0]):
            yield "chr()", _argtext(args[0]), [VE, OE]
        elif name in ("b64decode", "urlsafe_b64decode"):
            yield f"{name}()", _argtext(args[0]) if args else "", [BAE]
        elif name in ("quote_plus", "quote") and args and not any(k.arg == "errors" for k in node.keywords):
            if not _const(args[0]):
                yield f"{name}()", _argtext(args[0]), [UEE]
        elif name in ("fromtimestamp", "utcfromtimestamp"):
            yield "fromtimestamp()", _argtext(args[0]) if args else "", [OE, OSE, VE]
        elif name == "strptime":
            yield "strptime()", _argtext(args[0]) if args else "", [VE]
        elif name == "dumps" and isinstance(fn, ast.Attribute) and attr_chain(fn.value) == ["json"]:
            yield "json.dumps()", _argtext(args[0]) if args else "", [TE, VE]
            ind = next((k.value for k in node.keywords if k.arg == "indent"), None)
            if ind is not None and not (isinstance(ind, ast.Constant)):
                ki = K(ind)
                if ki == ALL or "I" in ki:
                    # ' ' * indent with an int that does not fit in a machine word
                    yield "json.dumps(indent)", _argtext(ind) + "\x00" + "".join(sorted(ki)), [OE]
        elif name == "loads" and isinstance(fn, ast.Attribute) and attr_chain(fn.value) == ["json"]:
            yield "json.loads()", _argtext(args[0]) if args else "", [VE]
        elif name == "parse" and isinstance(fn, ast.Attribute) and attr_chain(fn.value) in (["parser"], ["dateutil", "parser"]) and _is_external(x, f, fn.value):
            yield "dateutil.parse()", _argtext(args[0]) if args else "", ["ParserError", OE]
        elif name in ("format_datetime", "format_date", "format_time") and isinstance(fn, ast.Attribute) and attr_chain(fn.value) == ["dates"]:
            # trusted row (babel.dates): timestamps go through datetime.fromtimestamp
            yield f"babel.{name}()", _argtext(args[0]) if args else "", [OE, OSE, VE]
        elif name in ("format_decimal", "format_currency", "format_percent", "format_scientific", "format_compact_decimal", "format_compact_currency") and isinstance(fn, ast.Attribute) and attr_chain(fn.value) == ["numbers"]:
            # trusted row (babel.numbers): Decimal quantize/arithmetic in the current context
            yield f"babel.{name}()", _argtext(args[0]) if args else "", [DIO, DOV, OE, VE]
        elif name in ("format_unit", "format_compound_unit") and isinstance(fn, ast.Attribute) and attr_chain(fn.value) == ["units"]:
            yield f"babel.{name}()", _argtext(args[0]) if args else "", [DIO, DOV, OE, VE, "units.UnknownUnitError"]
        elif name == "parse_decimal" and isinstance(fn, ast.Attribute) and attr_chain(fn.value) == ["numbers"]:
            yield "babel.parse_decimal()", _argtext(args[0]) if args else "", ["numbers.NumberFormatError"]
        elif name == "parse" and isinstance(fn, ast.Attribute) and attr_chain(fn.value) == ["Locale"]:
            yield "babel.Locale.parse()", _argtext(args[0]) if args else "", ["UnknownLocaleError", VE, TE]
        elif name == "timezone" and isinstance(fn, ast.Attribute) and attr_chain(fn.value) == ["pytz"]:
            yield "pytz.timezone()", _argtext(args[0]) if args else "", ["pytz.UnknownTimeZoneError"]
        elif isinstance(fn, ast.Attribute):
            recv = fn.value
            kr = K(recv)
            if name == "encode" and not any(k.arg == "errors" for k in node.keywords) and len(args) < 2:
                codec = args[0].value if args and _const(args[0]) else "utf-8"
                if not _const(recv):
                    yield "str.encode()", _argtext(recv) + f":{codec}", [UEE]
            elif name == "decode" and isinstance(recv, ast.Call) and callee_name(recv) in ("b64encode", "urlsafe_b64encode", "hexlify"):
                pass  # the base64 / hex alphabets are ASCII
            elif name == "decode" and not any(k.arg == "errors" for k in node.keywords) and len(args) < 2:
                yield "bytes.decode()", _argtext(recv), [UDE]
            elif name in ("split", "rsplit", "partition", "rpartition") and args and not _const(args[0]):
                a0 = args[0]
                if not (isinstance(a0, ast.Name) and flow.nonempty(st, a0.id)):
                    yield f"str.{name}(sep)", _argtext(a0), [VE]
            elif name == "index" and args and kr & _k("SLYR") and "O" not in kr:
                yield "x.index()", _argtext(recv), [VE]
            elif name == "remove" and args and kr <= _k("L"):
                yield "list.remove()", _argtext(recv), [VE]
            elif name == "pop" and not args and kr <= _k("L") and not (isinstance(recv, ast.Name) and flow.nonempty(st, recv.id)):
                yield "list.pop()", _argtext(recv), [IE]
            elif name == "strftime" and args and not _const(args[0]):
                yield "strftime()", _argtext(args[0]), [VE]
            elif name in ("format", "format_map") and not _const(recv) and not isinstance(recv, ast.JoinedStr) and kr <= _k("S") and not x.local_const(f, recv):
                yield "str.format()", _argtext(recv), [KE, IE, VE]
            elif name == "to_bytes":
                yield "int.to_bytes()", _argtext(recv), [OE]
            elif name in ("fullmatch", "match", "search", "findall", "finditer", "sub", "subn", "split") and _is_regex_recv(recv) and args:
                # a compiled pattern applied to a data value that may not be a string
                subj = args[1] if name in ("sub", "subn") and len(args) > 1 else args[0]
                ks = K(subj)
                if ks != ALL and "O" not in ks and not ks <= _k("SY"):
                    yield "re.match(non-str)", _argtext(subj) + "\x00" + "".join(sorted(ks)), [TE]
            # a str/list/dict-only method on a data value that may be something else
            if isinstance(recv, ast.Name) and "O" not in kr and name in HAS_METHOD and not kr <= _k(HAS_METHOD[name]):
                yield f"attr .{name}", recv.id + "\x00" + "".join(sorted(kr)), [AE]
        return
    if isinstance(node, ast.BinOp):
        kl, kr = K(node.left), K(node.right)
        op = node.op
        if isinstance(op, ast.Mod) and kl <= _k("S") and kl:
            if not _const(node.left):
                yield "str % x", _argtext(node.left), [VE, TE, KE]
            return
        if isinstance(op, (ast.Div, ast.FloorDiv)) and kr <= NUM and kr and not (kl <= NUM) and not _nonzero_const(node.right):
            # whatever the dividend is, a numeric divisor may be zero
            yield "x / y", _argtext(node.right), [ZE]
            return
        if kl == ALL or kr == ALL or "O" in kl or "O" in kr:
            return
        if kl <= NUM and kr <= NUM:
            dec = "C" in kl | kr
            if isinstance(op, (ast.Div, ast.FloorDiv, ast.Mod)):
                if not _nonzero_const(node.right):
                    yield "x / y", _argtext(node.right), [DIO, DDZ] if dec else [ZE]
                elif dec:
                    yield "x / y", _argtext(node.right), [DIO]
                if not dec and isinstance(op, ast.Div) and (kl | kr) & _k("I"):
                    yield "int / x", _argtext(node), [OE]
                if not dec and not isinstance(op, ast.Div) and "F" in kl | kr and "I" in kl | kr:
                    yield "int op float", _argtext(node), [OE]
            elif isinstance(op, (ast.Add, ast.Sub, ast.Mult)):
                if dec:
                    yield "Decimal op", _argtext(node), [DIO, DOV]
                elif "F" in kl | kr and "I" in kl | kr:
                    yield "int op float", _argtext(node), [OE]
            elif isinstance(op, ast.Pow):
                yield "x ** y", _argtext(node), [OE, ZE]
            return
        ok = (
            (isinstance(op, ast.Add) and ((kl <= _k("S") and kr <= _k("S")) or (kl <= _k("L") and kr <= _k("L")) or (kl <= _k("Y") and kr <= _k("Y"))))
            or (isinstance(op, ast.Mult) and ((kl <= _k("SLY") and kr <= _k("IB")) or (kr <= _k("SLY") and kl <= _k("IB"))))
            or (isinstance(op, (ast.BitOr, ast.BitAnd)) and kl <= _k("DIB") and kr <= _k("DIB"))
        )
        if not ok and isinstance(op, (ast.Add, ast.Sub, ast.Mult, ast.Div, ast.FloorDiv, ast.Mod, ast.Pow)):
            yield "binop kinds", f"{_argtext(node)}\x00{''.join(sorted(kl))}/{''.join(sorted(kr))}", [TE]
        return
    if isinstance(node, ast.Compare) and len(node.ops) == 1 and isinstance(node.ops[0], (ast.Lt, ast.Gt, ast.LtE, ast.GtE)):
        kl, kr = K(node.left), K(node.comparators[0])
        if kl == ALL or kr == ALL or "O" in kl or "O" in kr:
            return
        ok = (kl <= NUM and kr <= NUM) or (kl <= _k("S") and kr <= _k("S")) or (kl <= _k("L") and kr <= _k("L"))
        if not ok:
            yield "order compare", f"{_argtext(node)}\x00{''.join(sorted(kl))}/{''.join(sorted(kr))}", [TE]
        elif "C" in kl | kr and "F" in kl | kr:
            pass
        return
    if isinstance(node, ast.FormattedValue) and x.arm_intstr and node.conversion in (-1, ord("s")):
        # f"{x}" is str(x): the same int/str conversion limit applies to an int (also inside a
        # list / dict) of render data.  Armed only where the kind is known to be data.
        k = K(node.value)
        if k != ALL and "O" not in k and k & _k("ILD"):
            yield "str(int)", "fstring:" + _argtext(node.value) + "\x00" + "".join(sorted(k)), [VE]
        return
    if isinstance(node, ast.Subscript) and isinstance(node.ctx, ast.Load) and not isinstance(node.slice, ast.Slice):
        kb = K(node.value)
        if kb == ALL or "O" in kb:
            return
        idx = node.slice
        ex = []
        guarded = False
        if kb & _k("LSYR"):
            safe = isinstance(idx, ast.Constant) and idx.value in (0, -1) and isinstance(node.value, ast.Name) and flow.nonempty(st, node.value.id)
            if isinstance(node.value, ast.Call) and callee_name(node.value) in ("split", "rsplit", "partition", "rpartition") and isinstance(idx, ast.Constant) and idx.value in (0, -1):
                safe = True  # split always returns at least one element; partition exactly three
            if isinstance(node.value, ast.Call) and callee_name(node.value) in ("partition", "rpartition") and isinstance(idx, ast.Constant) and idx.value in (0, 1, 2, -1, -2, -3):
                safe = True
            if not safe and _int_const(idx) is not None and isinstance(node.value, ast.Name):
                safe = _const_index_within_len(f.node, node)
            if not safe:
                ex.append(IE)
                if index_below_len_guarded(f.node, node):
                    # the upper bound is machine-checked; what remains is the lower bound
                    guarded = True
        if "D" in kb:
            ex.append(KE)
        if kb & _k("NBIFU"):
            ex.append(TE)
        if ex:
            yield ("x[k<len]" if guarded else "x[k]"), f"{_argtext(node)}\x00{''.join(sorted(kb))}", sorted(set(ex))
        return
    if isinstance(node, ast.Compare) and len(node.ops) == 1 and isinstance(node.ops[0], (ast.In, ast.NotIn)):
        kl, kr = K(node.left), K(node.comparators[0])
        if "O" not in kr and kr & _k("NBIF"):
            yield "x in y", f"{_argtext(node)}\x00{''.join(sorted(kr))}", [TE]
        elif isinstance(node.comparators[0], (ast.Set, ast.Dict)) and "O" not in kl and kl & _k("LD"):
            yield "unhashable in", f"{_argtext(node)}\x00{''.join(sorted(kl))}", [TE]
        elif (kl != ALL or kr != ALL) and "D" in kr and kl & _k("LD"):
            # `x in <mapping>` hashes x
            yield "unhashable in", f"{_argtext(node)}\x00{''.join(sorted(kl))}/{''.join(sorted(kr))}", [TE]
        return
    if isinstance(node, (ast.For, ast.AsyncFor)):
        k = K(node.iter)
        if "O" not in k and k & _k("NBIF"):
            yield "iterate", f"{_argtext(node.iter)}\x00{''.join(sorted(k))}", [TE]
        return


def _assert_implied_by_callers(x: Exc, f: FuncInfo, node: ast.Assert) -> bool:
    """``assert P`` in a private method where P speaks only about ``self.<attributes>`` and every
    call site ``self.<method>(...)`` in the class sits under a path condition that contains P
    (the assertion restates for the type checker what the caller already tested)."""
    from ..guards import canon, conditions

    if f.cls is None or not f.name.startswith("_") or f.name.startswith("__"):
        return False
    test = node.test
    for n in ast.walk(test):
        if isinstance(n, ast.Name) and n.id != "self" and not (n.id[:1].isupper() or n.id in ("isinstance", "hasattr", "callable", "None")):
            return False  # mentions a local or a parameter: the caller's fact is about other objects
    # the attributes it speaks of are not stored to in the method before the assert
    for n in ast.walk(f.node):
        if isinstance(n, ast.Attribute) and isinstance(n.ctx, (ast.Store, ast.Del)) and isinstance(n.value, ast.Name) and n.value.id == "self":
            return False
    want = canon(test)
    sites = 0
    for g in f.cls.methods.values():
        if g.qual == f.qual:
            continue
        for st, cs in conditions(g.node):
            if isinstance(st, (ast.If, ast.For, ast.AsyncFor, ast.While, ast.With, ast.AsyncWith, ast.Try)):
                continue
            for c in ast.walk(st):
                if isinstance(c, ast.Call) and isinstance(c.func, ast.Attribute) and c.func.attr == f.name and isinstance(c.func.value, ast.Name) and c.func.value.id == "self":
                    sites += 1
                    if want not in {canon(k) for k in cs}:
                        return False
    return sites > 0


def _is_regex_recv(e: ast.AST) -> bool:
    """``RE_PROPERTY`` / ``self.re_vars`` / ``re_whitespace``: a compiled pattern by the repository's naming"""
    nm = e.attr if isinstance(e, ast.Attribute) else e.id if isinstance(e, ast.Name) else ""
    return nm.lower().startswith("re_")


def _int_const(e):
    """the value of an integer literal, `-1` (a unary minus in the AST) included; None otherwise"""
    if isinstance(e, ast.Constant) and isinstance(e.value, int) and not isinstance(e.value, bool):
        return e.value
    if isinstance(e, ast.UnaryOp) and isinstance(e.op, ast.USub) and isinstance(e.operand, ast.Constant) and isinstance(e.operand.value, int) and not isinstance(e.operand.value, bool):
        return -e.operand.value
    return None


def _const_index_within_len(fn: ast.AST, sub: ast.Subscript) -> bool:
    """``seq[K]`` with an integer constant K is reached only where the path conditions bound
    ``len(seq)`` from below far enough: ``len(seq) == n`` / ``>= n`` / ``> n`` (also as the negation
    of an earlier ``if len(seq) < n: return``), or the truthiness of ``seq`` (at least one).
    The sequence must not be rebound or mutated in the function after its first binding."""
    from ..astutil import _rebinds
    from ..guards import conditions

    seq, k = sub.value.id, _int_const(sub.slice)
    need = k + 1 if k >= 0 else -k
    # one binding at most, no in-place mutation
    binds = [n for n in ast.walk(fn) if isinstance(n, ast.Name) and n.id == seq and isinstance(n.ctx, (ast.Store, ast.Del))]
    if len(binds) > 1:
        return False
    for st in ast.walk(fn):
        if isinstance(st, ast.Call) and isinstance(st.func, ast.Attribute) and isinstance(st.func.value, ast.Name) and st.func.value.id == seq and st.func.attr in ("pop", "remove", "clear", "__delitem__"):
            return False
        if isinstance(st, ast.Delete) and any(isinstance(t, ast.Subscript) and isinstance(t.value, ast.Name) and t.value.id == seq for t in st.targets):
            return False

    def is_len(e) -> bool:
        return isinstance(e, ast.Call) and isinstance(e.func, ast.Name) and e.func.id == "len" and len(e.args) == 1 and isinstance(e.args[0], ast.Name) and e.args[0].id == seq

    def lower_bound(c) -> int:
        if isinstance(c, ast.Name) and c.id == seq:
            return 1
        if isinstance(c, ast.Compare) and len(c.ops) == 1:
            l, op, r = c.left, c.ops[0], c.comparators[0]
            if is_len(l) and isinstance(r, ast.Constant) and isinstance(r.value, int):
                n = r.value
                if isinstance(op, ast.Eq):
                    return n
                if isinstance(op, ast.GtE):
                    return n
                if isinstance(op, ast.Gt):
                    return n + 1
                if isinstance(op, ast.NotEq) and n == 0:
                    return 1
            if is_len(r) and isinstance(l, ast.Constant) and isinstance(l.value, int):
                n = l.value
                if isinstance(op, ast.Eq):
                    return n
                if isinstance(op, ast.LtE):
                    return n
                if isinstance(op, ast.Lt):
                    return n + 1
        return 0

    for st, cs in conditions(fn):
        if isinstance(st, (ast.If, ast.For, ast.While, ast.With, ast.Try)):
            continue
        if any(x is sub for x in ast.walk(st)):
            return max([lower_bound(c) for c in cs] + [0]) >= need
    return False


def _is_external(x: Exc, f: FuncInfo, recv: ast.AST) -> bool:
    ch = attr_chain(recv)
    if not ch:
        return False
    r = x.repo.resolve_in(f.module, ch[0])
    return isinstance(r, tuple) and r and r[0] == "ext"
