"""BLANK — soundness of the ``blank`` flag (blank-block suppression).

``BlockNode.render_to_output`` sends a block whose nodes are all ``blank`` to a ``NullIO`` when
``suppress_blank_control_flow_blocks`` is on (the default).  ``blank`` is computed once, at parse
time, so it is a *claim*: "whatever this node writes to the output buffer is whitespace".  The
claim is sound iff

  * a node that writes anything not produced by its own child blocks — ``buffer.write(x)`` of a
    computed value, a partial (``render_with_context``), another template's nodes (an inheritance
    block's most-derived override) — sets ``blank`` to the constant ``False``; and
  * a node that only renders its own child blocks derives ``blank`` from the flags of *all* the
    fields it renders (or is ``False``).

Otherwise real output is silently dropped whenever the node sits in a container whose other
nodes are blank.  Used by C18 (inheritance blocks) and C10 (text is output verbatim).
"""

from __future__ import annotations

import ast
from typing import Callable, Optional

from ..astutil import call_recv, attr_chain, callee_name, is_name, text
from ..core import Result
from ..model import AnchorMissing, ClassInfo, Repo, walk_no_nested

RENDER = {"render", "render_async", "render_with_context", "render_with_context_async"}


def _buffer_param(fn: ast.AST) -> Optional[str]:
    args = [a.arg for a in fn.args.args]
    return args[2] if len(args) >= 3 else None


def _effects(fn: ast.AST) -> tuple[set[str], list[tuple[int, str]]]:
    """(own fields rendered into the output buffer, foreign effects [(line, what)])."""
    bufp = _buffer_param(fn)
    own: set[str] = set()
    foreign: list[tuple[int, str]] = []
    if bufp is None:
        return own, foreign
    # loop variables over self.<field>  ->  field
    loopvar: dict[str, str] = {}
    for n in ast.walk(fn):
        gens = []
        if isinstance(n, (ast.For, ast.AsyncFor)):
            gens = [(n.target, n.iter)]
        elif isinstance(n, (ast.ListComp, ast.GeneratorExp, ast.SetComp)):
            gens = [(g.target, g.iter) for g in n.generators]
        for tgt, it in gens:
            ch = attr_chain(it)
            if isinstance(tgt, ast.Name) and ch and ch[0] == "self" and len(ch) == 2:
                loopvar[tgt.id] = ch[1]
    # local buffers and what is rendered into them
    local_bufs: dict[str, set[str]] = {}
    for n in walk_no_nested(fn):
        if isinstance(n, ast.Assign) and len(n.targets) == 1 and isinstance(n.targets[0], ast.Name) and isinstance(n.value, ast.Call) and callee_name(n.value) in ("get_buffer", "StringIO", "NullIO"):
            local_bufs[n.targets[0].id] = set()
    getvalue_of: dict[str, str] = {}
    for n in walk_no_nested(fn):
        if isinstance(n, ast.Assign) and len(n.targets) == 1 and isinstance(n.targets[0], ast.Name) and isinstance(n.value, ast.Call) and callee_name(n.value) == "getvalue" and isinstance(n.value.func, ast.Attribute) and isinstance(call_recv(n.value), ast.Name):
            getvalue_of[n.targets[0].id] = call_recv(n.value).id

    def receiver_field(e: ast.AST) -> Optional[str]:
        ch = attr_chain(e)
        if not ch:
            return None
        if ch[0] == "self" and len(ch) >= 2:
            return ch[1]
        if ch[0] in loopvar:
            return loopvar[ch[0]]
        return None

    def target_buffer(call: ast.Call) -> Optional[ast.AST]:
        for k in call.keywords:
            if k.arg == "buffer":
                return k.value
        return call.args[1] if len(call.args) >= 2 else None

    pending: list[tuple[ast.Call, Optional[str]]] = []
    for n in ast.walk(fn):
        if not isinstance(n, ast.Call):
            continue
        nm = callee_name(n)
        if nm in RENDER and isinstance(n.func, ast.Attribute):
            tb = target_buffer(n)
            fld = receiver_field(call_recv(n))
            if isinstance(tb, ast.Name) and tb.id == bufp:
                if fld is not None and nm in ("render", "render_async"):
                    own.add(fld)
                else:
                    foreign.append((n.lineno, f"`{text(n)[:60]}` renders something that is not one of the node's own child blocks"))
            elif isinstance(tb, ast.Name) and tb.id in local_bufs:
                local_bufs[tb.id].add(fld if (fld is not None and nm in ("render", "render_async")) else "\x00foreign")
            elif tb is not None and not (isinstance(tb, ast.Name)):
                foreign.append((n.lineno, f"`{text(n)[:60]}` renders into `{text(tb)[:20]}`"))
        elif nm in ("write", "writelines") and isinstance(n.func, ast.Attribute) and is_name(call_recv(n), bufp):
            a = n.args[0] if n.args else None
            src = getvalue_of.get(a.id) if isinstance(a, ast.Name) else None
            if isinstance(a, ast.Call) and callee_name(a) == "getvalue" and isinstance(a.func, ast.Attribute) and isinstance(call_recv(a), ast.Name):
                src = call_recv(a).id
            if src is not None and src in local_bufs:
                pending.append((n, src))
            elif isinstance(a, ast.Attribute) and is_name(a.value, "self"):
                # literal text held by the node: blank must be exactly "this text is whitespace"
                own.add("\x00text:" + a.attr)
            else:
                foreign.append((n.lineno, f"`{text(n)[:60]}` writes a computed value"))
    for n, src in pending:
        into = local_bufs.get(src, set())
        if "\x00foreign" in into or not into:
            foreign.append((n.lineno, f"`{text(n)[:60]}` writes the contents of `{src}`, which is not filled from the node's own child blocks only"))
        else:
            own |= {x for x in into if x}
    return own, foreign


def check_blank(repo: Repo, res: Result, rule: str, only: Optional[Callable[[ClassInfo], bool]] = None, min_classes: int = 1) -> int:
    node_root = "liquid.ast.Node"
    n_checked = 0
    for c in repo.subclasses(node_root):
        if only is not None and not only(c):
            continue
        rm = repo.find_method(c, "render_to_output")
        if rm is None or rm.cls.qual == node_root:
            continue
        # nearest __init__ in the MRO that assigns self.blank
        blank_val, blank_owner = None, None
        for k in repo.mro_classes(c):
            ini = k.methods.get("__init__")
            if ini is None:
                continue
            vals = [st.value for st in walk_no_nested(ini.node) if isinstance(st, ast.Assign) and any(isinstance(t, ast.Attribute) and is_name(t.value, "self") and t.attr == "blank" for t in st.targets)]
            if vals:
                blank_val, blank_owner = vals, ini
                break
        if blank_val is None:
            raise AnchorMissing(f"{c.qual}: no __init__ in the MRO assigns self.blank")
        n_checked += 1
        own, foreign = set(), []
        for m in ("render_to_output", "render_to_output_async"):
            f = repo.find_method(c, m)
            if f is None:
                continue
            o, fr = _effects(f.node)
            own |= o
            foreign += fr
        res.ob(f"blank:{c.qual}")
        for v in blank_val:
            is_false = isinstance(v, ast.Constant) and v.value is False
            if is_false:
                continue
            if foreign:
                ln, what = foreign[0]
                res.add(
                    rule,
                    c.qual,
                    f"blank-but-writes:{text(v)[:30]}",
                    f"{c.name} sets blank = `{text(v)[:50]}` ({blank_owner.qual}) but {what} ({rm.file.split('/')[-1]}:{ln}): inside a container whose other nodes are blank this output is discarded by blank-block suppression — blank must be False",
                    blank_owner.file,
                    getattr(v, "lineno", blank_owner.line),
                )
                continue
            if isinstance(v, ast.Constant) and v.value is True and own:
                res.add(rule, c.qual, "blank-true-renders-children", f"{c.name} is always blank but renders its child field(s) {sorted(own)} into the output buffer", blank_owner.file, getattr(v, "lineno", blank_owner.line))
                continue
            texts = sorted(f[6:] for f in own if f.startswith("\x00text:"))
            own_f = {f for f in own if not f.startswith("\x00text:")}
            if texts:
                t0 = texts[0]
                if len(texts) != 1 or own_f or text(v) not in (f"not {t0} or {t0}.isspace()", f"not self.{t0} or self.{t0}.isspace()"):
                    res.add(rule, c.qual, f"blank-text:{text(v)[:30]}", f"{c.name} writes its literal text self.{t0}; blank must be exactly `not {t0} or {t0}.isspace()` (found `{text(v)[:50]}`)", blank_owner.file, getattr(v, "lineno", blank_owner.line))
                continue
            own = own_f
            mentioned = {n.id for n in ast.walk(v) if isinstance(n, ast.Name)} | {n.attr for n in ast.walk(v) if isinstance(n, ast.Attribute)}
            missing = sorted(f for f in own if f not in mentioned)
            if missing:
                res.add(
                    rule,
                    c.qual,
                    f"blank-ignores:{','.join(missing)}",
                    f"{c.name} sets blank = `{text(v)[:60]}` without consulting its child field(s) {missing}, which it renders into the output buffer: their text is discarded when the rest of the container is blank",
                    blank_owner.file,
                    getattr(v, "lineno", blank_owner.line),
                )
    if n_checked < min_classes:
        raise AnchorMissing(f"BLANK: only {n_checked} node classes examined (expected at least {min_classes})")
    return n_checked
