"""HND — exception hierarchy and handler discipline.

``Hier`` knows the builtin exception tree (a literal table of CPython's documented
hierarchy) and reads the ``liquid.exceptions`` tree from source.  ``handlers(repo)``
enumerates every ``except`` clause with its enclosing function and classifies the
handler body: re-raise / convert-and-raise / route to an ``error`` dispatcher /
loop control / swallow.
"""

from __future__ import annotations

import ast
from dataclasses import dataclass
from typing import Iterator, Optional

from ..astutil import callee_name, handler_types
from ..model import AnchorMissing, FuncInfo, Repo, walk_no_nested

BUILTIN_PARENT = {
    "BaseException": None,
    "Exception": "BaseException",
    "KeyboardInterrupt": "BaseException",
    "SystemExit": "BaseException",
    "GeneratorExit": "BaseException",
    "ArithmeticError": "Exception",
    "ZeroDivisionError": "ArithmeticError",
    "OverflowError": "ArithmeticError",
    "FloatingPointError": "ArithmeticError",
    "AssertionError": "Exception",
    "AttributeError": "Exception",
    "BufferError": "Exception",
    "EOFError": "Exception",
    "ImportError": "Exception",
    "ModuleNotFoundError": "ImportError",
    "LookupError": "Exception",
    "IndexError": "LookupError",
    "KeyError": "LookupError",
    "MemoryError": "Exception",
    "NameError": "Exception",
    "OSError": "Exception",
    "FileNotFoundError": "OSError",
    "PermissionError": "OSError",
    "NotADirectoryError": "OSError",
    "IsADirectoryError": "OSError",
    "RuntimeError": "Exception",
    "NotImplementedError": "RuntimeError",
    "RecursionError": "RuntimeError",
    "StopIteration": "Exception",
    "StopAsyncIteration": "Exception",
    "SyntaxError": "Exception",
    "TypeError": "Exception",
    "ValueError": "Exception",
    "UnicodeError": "ValueError",
    "UnicodeDecodeError": "UnicodeError",
    "UnicodeEncodeError": "UnicodeError",
    "Warning": "Exception",
    "UserWarning": "Warning",
    # stdlib / third party classes the repo names (documented bases)
    "binascii.Error": "ValueError",
    "decimal.DecimalException": "ArithmeticError",
    "decimal.InvalidOperation": "decimal.DecimalException",
    "decimal.DivisionByZero": "decimal.DecimalException",  # also ZeroDivisionError
    "decimal.Overflow": "decimal.DecimalException",
    "decimal.ConversionSyntax": "decimal.InvalidOperation",
    "json.JSONDecodeError": "ValueError",
    "parser.ParserError": "ValueError",  # dateutil.parser.ParserError(ValueError)
    "ParserError": "ValueError",
    "UnknownLocaleError": "Exception",  # babel.core.UnknownLocaleError
    "numbers.NumberFormatError": "ValueError",  # babel.numbers.NumberFormatError
    "units.UnknownUnitError": "ValueError",  # babel.units.UnknownUnitError
    "pytz.UnknownTimeZoneError": "KeyError",
}
EXTRA_PARENTS = {"decimal.DivisionByZero": ["ZeroDivisionError"]}


class Hier:
    def __init__(self, repo: Repo):
        self.parent: dict[str, list[str]] = {k: ([v] if v else []) for k, v in BUILTIN_PARENT.items()}
        for k, v in EXTRA_PARENTS.items():
            self.parent[k] = self.parent.get(k, []) + v
        exc_mod = repo.module("liquid.exceptions")
        self.liquid: set[str] = set()
        for c in exc_mod.classes.values():
            bases = []
            for b in repo.bases(c):
                bases.append(b.name if hasattr(b, "name") else b[1])
            self.parent[c.name] = bases
            self.liquid.add(c.name)
        # exception classes defined elsewhere in the repo
        for c in repo.all_classes():
            if c.name in self.parent:
                continue
            bases = [b.name if hasattr(b, "name") else b[1] for b in repo.bases(c)]
            if any(b in self.parent for b in bases):
                self.parent[c.name] = bases
        if "LiquidError" not in self.parent:
            raise AnchorMissing("liquid.exceptions.LiquidError not found")

    def ancestors(self, name: str) -> set[str]:
        name = self.norm(name)
        seen, todo = set(), [name]
        while todo:
            n = todo.pop()
            if n in seen:
                continue
            seen.add(n)
            todo.extend(self.parent.get(n, []))
        return seen

    ALIASES = {"parser.ParserError": "ParserError", "dateutil.parser.ParserError": "ParserError"}

    def norm(self, name: str) -> str:
        name = self.ALIASES.get(name, name)
        if name in self.parent:
            return name
        short = name.rsplit(".", 1)[-1]
        if short in self.parent:
            return short
        return name

    def is_sub(self, a: str, b: str) -> bool:
        """a is b or a subclass of b.  Unknown classes are only subclasses of
        Exception/BaseException."""
        a, b = self.norm(a), self.norm(b)
        if a == b:
            return True
        anc = self.ancestors(a)
        if b in anc:
            return True
        if a not in self.parent and b in ("Exception", "BaseException"):
            return True
        return False

    def is_liquid_error(self, name: str) -> bool:
        return self.is_sub(name, "LiquidError")

    def descendants(self, name: str) -> set[str]:
        return {k for k in self.parent if self.is_sub(k, name)}

    def catches(self, handler_classes: list[str], exc: str) -> bool:
        return any(self.is_sub(exc, h) for h in handler_classes)

    def may_catch_family(self, handler_classes: list[str], family: str) -> bool:
        """Handler catches *some* member of the family rooted at ``family``
        (a superclass of it, or a subclass of it)."""
        return any(self.is_sub(family, h) or self.is_sub(h, family) for h in handler_classes)


@dataclass
class Handler:
    func: FuncInfo
    try_node: ast.Try
    node: ast.ExceptHandler
    classes: list[str]
    kinds: set  # subset of {"reraise","convert","route","control","swallow"}
    raised: list[str]  # classes raised by convert

    @property
    def key(self) -> str:
        return f"{self.func.qual}:except {','.join(self.classes)}"


def _paths_all_raise(body: list[ast.stmt]) -> bool:
    if not body:
        return False
    last = body[-1]
    if isinstance(last, ast.Raise):
        return True
    if isinstance(last, ast.If):
        return _paths_all_raise(last.body) and _paths_all_raise(last.orelse)
    return False


def classify(h: ast.ExceptHandler) -> tuple[set, list[str]]:
    kinds: set = set()
    raised: list[str] = []
    for n in walk_no_nested(h):
        if isinstance(n, ast.Raise):
            if n.exc is None or (isinstance(n.exc, ast.Name) and n.exc.id == h.name):
                kinds.add("reraise")
            else:
                kinds.add("convert")
                e = n.exc
                if isinstance(e, ast.Call):
                    e = e.func
                raised.append(ast.unparse(e))
        elif isinstance(n, ast.Call) and callee_name(n) == "error" and isinstance(n.func, ast.Attribute):
            kinds.add("route")
        elif isinstance(n, (ast.Break, ast.Continue)):
            kinds.add("control")
    if not _paths_all_raise(h.body):
        only_control = all(isinstance(s, (ast.Break, ast.Continue)) for s in h.body)
        if "route" not in kinds and not only_control:
            kinds.add("swallow")
        elif "route" not in kinds and only_control:
            pass
    return kinds, raised


def handlers(repo: Repo) -> Iterator[Handler]:
    """every except handler of the repo, classified on the function with local aliases
    propagated (``error = self.env.error`` ... ``error(err)`` is still a route)"""
    import copy

    from ..normalize import propagate_aliases

    for f in repo.all_functions():
        if not any(isinstance(n, ast.Try) for n in ast.walk(f.node)):
            continue
        node = propagate_aliases(copy.deepcopy(f.node))
        for n in ast.walk(node):
            if isinstance(n, ast.Try):
                for h in n.handlers:
                    kinds, raised = classify(h)
                    yield Handler(f, n, h, handler_types(h), kinds, raised)


def enclosing_try_handlers(fn: ast.AST, target: ast.AST) -> list[tuple[ast.Try, list[ast.ExceptHandler]]]:
    """Try statements whose *body* contains ``target`` (innermost first)."""
    out = []

    def rec(node, stack):
        if node is target:
            out.extend(reversed(stack))
            return True
        if isinstance(node, ast.Try):
            for s in node.body:
                if rec(s, stack + [(node, node.handlers)]):
                    return True
            for part in (node.handlers, node.orelse, node.finalbody):
                for s in part:
                    if rec(s, stack):
                        return True
            return False
        for ch in ast.iter_child_nodes(node):
            if rec(ch, stack):
                return True
        return False

    rec(fn, [])
    return out
