"""SIB — sibling equivalence of hand-maintained sync/async pairs.

``normal_form(fn)`` maps a function to a canonical AST in which everything that
*must* differ between a sync function and its async copy has been erased
(await, async def/with/for, the ``_async`` suffix of callee names, ...) together
with everything that cannot influence behaviour (docstrings, annotations, local
variable names, keyword order, comprehension kind inside an eager consumer, single
use temporaries).  Two members of a pair are equivalent for every input when
their normal forms are identical and every callee is either shared or itself a
verified pair (induction on call depth; DESIGN section 4, SIB).
"""

from __future__ import annotations

import ast
import copy
import difflib
import hashlib

from ..model import body_without_docstring

PURE_BUILTINS = {"str", "len", "isinstance", "Path", "repr", "bool"}
EAGER_CONSUMERS = {"sum", "list", "tuple", "dict", "set", "frozenset", "any", "all", "sorted", "max", "min"}


def strip_async_name(name: str) -> str:
    if name == "__getitem_async__":
        return "__getitem__"
    if name.endswith("_async"):
        return name[: -len("_async")]
    if name.endswith("_async__"):
        return name[: -len("_async__")] + "__"
    return name


class _Norm(ast.NodeTransformer):
    """Erase the async surface and behaviour-irrelevant syntax."""

    def visit_AsyncFunctionDef(self, node):
        new = ast.FunctionDef(
            name=strip_async_name(node.name),
            args=node.args,
            body=node.body,
            decorator_list=node.decorator_list,
            returns=None,
            type_comment=None,
            type_params=[],
        )
        return self.visit_FunctionDef(new)

    def visit_FunctionDef(self, node):
        node.name = strip_async_name(node.name)
        node.returns = None
        node.type_comment = None
        node.body = body_without_docstring(node) or [ast.Pass()]
        for a in node.args.posonlyargs + node.args.args + node.args.kwonlyargs:
            a.annotation = None
            a.type_comment = None
        if node.args.vararg:
            node.args.vararg.annotation = None
        if node.args.kwarg:
            node.args.kwarg.annotation = None
        self.generic_visit(node)
        return node

    def visit_Await(self, node):
        return self.visit(node.value)

    def visit_AsyncWith(self, node):
        new = ast.With(items=node.items, body=node.body, type_comment=None)
        return self.generic_visit(new)

    def visit_With(self, node):
        node.type_comment = None
        return self.generic_visit(node)

    def visit_AsyncFor(self, node):
        new = ast.For(
            target=node.target, iter=node.iter, body=node.body, orelse=node.orelse, type_comment=None
        )
        return self.generic_visit(new)

    def visit_For(self, node):
        node.type_comment = None
        return self.generic_visit(node)

    def visit_comprehension(self, node):
        node.is_async = 0
        return self.generic_visit(node)

    def visit_Attribute(self, node):
        node.attr = strip_async_name(node.attr)
        return self.generic_visit(node)

    def visit_Name(self, node):
        node.id = strip_async_name(node.id)
        return node

    def visit_Constant(self, node):
        # getattr(obj, "filter_async") style strings are rare; keep constants as they are
        node.kind = None
        return node

    def visit_AnnAssign(self, node):
        if node.value is None:
            return None
        new = ast.Assign(targets=[node.target], value=node.value, type_comment=None)
        return self.generic_visit(new)

    def visit_Assign(self, node):
        node.type_comment = None
        return self.generic_visit(node)

    def visit_Call(self, node):
        self.generic_visit(node)
        # loop.run_in_executor(None, f, *a)  ==>  f(*a)
        if (
            isinstance(node.func, ast.Attribute)
            and node.func.attr == "run_in_executor"
            and len(node.args) >= 2
            and isinstance(node.args[0], ast.Constant)
            and node.args[0].value is None
        ):
            node = ast.Call(func=node.args[1], args=node.args[2:], keywords=[])
        # [x for ...] directly consumed by an eager consumer  ==>  generator
        fn = node.func
        consumer = fn.id if isinstance(fn, ast.Name) else (fn.attr if isinstance(fn, ast.Attribute) else "")
        if consumer in EAGER_CONSUMERS or consumer == "join":
            if len(node.args) >= 1 and isinstance(node.args[0], ast.ListComp):
                lc = node.args[0]
                node.args[0] = ast.GeneratorExp(elt=lc.elt, generators=lc.generators)
        # canonical keyword order
        if node.keywords:
            star = [k for k in node.keywords if k.arg is None]
            named = sorted((k for k in node.keywords if k.arg is not None), key=lambda k: k.arg)
            # ``**x`` after the named keywords (the repo never puts one in front)
            if not star or node.keywords[-len(star):] == star:
                node.keywords = named + star
        # (lambda: e)()  ==>  e
        if isinstance(node.func, ast.Lambda) and not node.args and not node.keywords:
            la = node.func.args
            if not (la.args or la.posonlyargs or la.kwonlyargs or la.vararg or la.kwarg):
                return node.func.body
        return node

    def visit_Expr(self, node):
        self.generic_visit(node)
        return node


def _assigned_names(fn: ast.FunctionDef) -> list[str]:
    """Parameter and local names in first-binding order (for alpha renaming)."""
    order: list[str] = []

    def add(n):
        if n not in order:
            order.append(n)

    a = fn.args
    for x in a.posonlyargs + a.args + a.kwonlyargs:
        add(x.arg)
    if a.vararg:
        add(a.vararg.arg)
    if a.kwarg:
        add(a.kwarg.arg)

    class V(ast.NodeVisitor):
        def visit_Name(self, n):
            if isinstance(n.ctx, (ast.Store, ast.Del)):
                add(n.id)

        def visit_FunctionDef(self, n):
            add(n.name)
            for x in n.args.posonlyargs + n.args.args + n.args.kwonlyargs:
                add(x.arg)
            self.generic_visit(n)

        visit_AsyncFunctionDef = visit_FunctionDef

        def visit_ExceptHandler(self, n):
            if n.name:
                add(n.name)
            self.generic_visit(n)

        def visit_Lambda(self, n):
            for x in n.args.posonlyargs + n.args.args + n.args.kwonlyargs:
                add(x.arg)
            self.generic_visit(n)

    # visit in source order
    for stmt in fn.body:
        V().visit(stmt)
    return order


def _inline_single_use_temps(fn: ast.FunctionDef) -> None:
    """``t = e`` immediately followed by a statement that reads ``t`` exactly once,
    with no other use of ``t`` in the function, becomes that statement with ``e``
    substituted — only when ``e`` is evaluated first in the consuming statement's
    own order (we require the use to be the first Name/Call evaluated, or ``e`` to be
    free of calls), so evaluation order is preserved."""

    def count_uses(node, name):
        return sum(
            1 for n in ast.walk(node) if isinstance(n, ast.Name) and n.id == name
        )

    def process(body: list[ast.stmt]) -> list[ast.stmt]:
        out: list[ast.stmt] = []
        i = 0
        while i < len(body):
            st = body[i]
            for fld in ("body", "orelse", "finalbody"):
                if hasattr(st, fld) and isinstance(getattr(st, fld), list):
                    setattr(st, fld, process(getattr(st, fld)))
            if isinstance(st, ast.Try):
                for h in st.handlers:
                    h.body = process(h.body)
            if (
                isinstance(st, ast.Assign)
                and len(st.targets) == 1
                and isinstance(st.targets[0], ast.Name)
                and i + 1 < len(body)
            ):
                name = st.targets[0].id
                nxt = body[i + 1]
                total = count_uses(fn, name)
                # uses: 1 store + 1 load in nxt
                if (
                    total == 2
                    and isinstance(nxt, (ast.Return, ast.Expr, ast.Assign, ast.With, ast.If))
                    and _first_evaluated_is(nxt, name)
                ):
                    _substitute(nxt, name, st.value)
                    i += 1
                    continue
            out.append(st)
            i += 1
        return out

    fn.body = process(fn.body)


def _eval_order(node):
    """Names/calls in (approximate) evaluation order for simple statements."""
    if isinstance(node, ast.With):
        for it in node.items:
            yield from _eval_order(it.context_expr)
        return
    if isinstance(node, ast.If):
        yield from _eval_order(node.test)
        return
    if isinstance(node, (ast.Return, ast.Expr)):
        if node.value is not None:
            yield from _eval_order(node.value)
        return
    if isinstance(node, ast.Assign):
        yield from _eval_order(node.value)
        return
    if isinstance(node, ast.Call):
        yield from _eval_order(node.func)
        for a in node.args:
            yield from _eval_order(a)
        for k in node.keywords:
            yield from _eval_order(k.value)
        yield node
        return
    if isinstance(node, ast.Name):
        yield node
        return
    if isinstance(node, ast.Attribute):
        yield from _eval_order(node.value)
        return
    for ch in ast.iter_child_nodes(node):
        yield from _eval_order(ch)


def _first_evaluated_is(stmt, name) -> bool:
    for n in _eval_order(stmt):
        if isinstance(n, ast.Name):
            if n.id == name:
                return True
            if n.id in ("self", "cls"):
                continue
            # another plain name read first: harmless (reading a local has no effect)
            continue
        if isinstance(n, ast.Call):
            if isinstance(n.func, ast.Name) and n.func.id in PURE_BUILTINS:
                continue
            return False
    return False


def _substitute(stmt, name, value):
    class S(ast.NodeTransformer):
        def visit_Name(self, n):
            if n.id == name and isinstance(n.ctx, ast.Load):
                return copy.deepcopy(value)
            return n

    S().visit(stmt)


def _drop_dead_bindings(fn: ast.FunctionDef) -> None:
    """Remove ``x = asyncio.get_running_loop()`` style bindings whose name is never read
    (after run_in_executor normalisation) and whose value is a call with no arguments to
    a known effect-free function."""
    EFFECT_FREE = {"asyncio.get_running_loop", "asyncio.get_event_loop"}

    def uses(name):
        return sum(
            1
            for n in ast.walk(fn)
            if isinstance(n, ast.Name) and n.id == name and isinstance(n.ctx, ast.Load)
        )

    def process(body):
        out = []
        for st in body:
            for fld in ("body", "orelse", "finalbody"):
                if hasattr(st, fld) and isinstance(getattr(st, fld), list):
                    setattr(st, fld, process(getattr(st, fld)) or ([ast.Pass()] if fld == 'body' else []))
            if (
                isinstance(st, ast.Assign)
                and len(st.targets) == 1
                and isinstance(st.targets[0], ast.Name)
                and isinstance(st.value, ast.Call)
                and ast.unparse(st.value.func) in EFFECT_FREE
                and not st.value.args
                and uses(st.targets[0].id) == 0
            ):
                continue
            out.append(st)
        return out

    fn.body = process(fn.body)


def _generator_tail(fn: ast.FunctionDef) -> None:
    """Used only when exactly one sibling is a generator and the other returns an
    iterable (``children`` / ``children_async``; the caller just iterates).  In the
    generator, a ``yield from X`` in *tail position* (nothing else executes after it
    on its path) is the same as ``return X`` in the non-generator; a trailing
    ``return []`` in the non-generator equals falling off the end of the generator."""

    def tail(body: list[ast.stmt]) -> None:
        if not body:
            return
        last = body[-1]
        if isinstance(last, ast.Expr) and isinstance(last.value, ast.YieldFrom):
            body[-1] = ast.Return(value=last.value.value)
        elif isinstance(last, ast.If):
            tail(last.body)
            tail(last.orelse)
        elif isinstance(last, ast.Try) and not last.finalbody and not last.orelse:
            tail(last.body)
            for h in last.handlers:
                tail(h.body)
        elif isinstance(last, ast.With):
            tail(last.body)

    tail(fn.body)
    if fn.body and isinstance(fn.body[-1], ast.Return):
        v = fn.body[-1].value
        if isinstance(v, (ast.List, ast.Tuple)) and not v.elts:
            fn.body = fn.body[:-1] or [ast.Pass()]


def _canon_positional(fn: ast.FunctionDef, sigs: dict) -> None:
    """Bind positional arguments of calls to repo methods to their parameter names,
    when every definition of that method name in the repo agrees on the positional
    parameter list (``sigs``: name -> list of names).  ``f(a, k=b)`` == ``f(x=a, k=b)``."""

    class C(ast.NodeTransformer):
        def visit_Call(self, node):
            self.generic_visit(node)
            f = node.func
            if not isinstance(f, ast.Attribute):
                return node
            names = sigs.get(f.attr)
            if not names or any(isinstance(a, ast.Starred) for a in node.args):
                return node
            if len(node.args) > len(names) or any(k.arg is None for k in node.keywords) and False:
                return node
            given = {k.arg for k in node.keywords}
            new_kw = []
            for a, n in zip(node.args, names):
                if n in given:
                    return node
                new_kw.append(ast.keyword(arg=n, value=a))
            node.args = []
            star = [k for k in node.keywords if k.arg is None]
            named = sorted(new_kw + [k for k in node.keywords if k.arg is not None], key=lambda k: k.arg)
            node.keywords = named + star
            return node

    C().visit(fn)


def _alpha(fn: ast.FunctionDef) -> None:
    order = _assigned_names(fn)
    mapping = {}
    for n in order:
        if n in ("self", "cls"):
            continue
        mapping[n] = f"v{len(mapping)}"

    class R(ast.NodeTransformer):
        def visit_Name(self, n):
            if n.id in mapping:
                n.id = mapping[n.id]
            return n

        def visit_arg(self, n):
            # keep parameter *names* (they are part of the keyword interface) but record order
            return n

        def visit_ExceptHandler(self, n):
            if n.name in mapping:
                n.name = mapping[n.name]
            return self.generic_visit(n)

        def visit_FunctionDef(self, n):
            if n.name in mapping and n is not fn:
                n.name = mapping[n.name]
            return self.generic_visit(n)

        visit_AsyncFunctionDef = visit_FunctionDef

    # parameters: renaming keyword-capable parameters would hide an interface change, so
    # parameters keep their names in the signature but are renamed consistently in the body
    # only when both siblings use the same names (checked by comparing signatures as-is).
    params = set()
    a = fn.args
    for x in a.posonlyargs + a.args + a.kwonlyargs:
        params.add(x.arg)
    if a.vararg:
        params.add(a.vararg.arg)
    if a.kwarg:
        params.add(a.kwarg.arg)
    for p in params:
        mapping.pop(p, None)
    # re-number after removing params
    renum = {}
    for n in order:
        if n in mapping:
            renum[n] = f"v{len(renum)}"
    mapping.clear()
    mapping.update(renum)
    R().visit(fn)


ASYNC_PROTOCOLS = ("__getitem_async__", "filter_async")


def _drop_extension_points(fn: ast.AST) -> None:
    """Assumption SIB-EXT made structural: render data and built-in filters do not implement the
    optional async protocols, so ``hasattr(x, "__getitem_async__")`` / ``hasattr(f, "filter_async")``
    is false.  (i) an ``if hasattr(<x>, <protocol>): ...`` statement is replaced by its ``else``
    part; (ii) a nested helper that — after (i) — is just ``return <expr over its parameters>``
    is inlined at its call sites (``await _get_item(obj, k)`` -> ``obj[k]``) and dropped."""

    def is_probe(t) -> bool:
        return isinstance(t, ast.Call) and isinstance(t.func, ast.Name) and t.func.id == "hasattr" and len(t.args) == 2 and isinstance(t.args[1], ast.Constant) and t.args[1].value in ASYNC_PROTOCOLS

    def clean(body: list) -> list:
        out = []
        for st in body:
            for fld in ("body", "orelse", "finalbody"):
                sub = getattr(st, fld, None)
                if isinstance(sub, list) and sub and isinstance(sub[0], ast.stmt):
                    setattr(st, fld, clean(sub) or [ast.Pass()])
            if isinstance(st, ast.Try):
                for h in st.handlers:
                    h.body = clean(h.body) or [ast.Pass()]
            if isinstance(st, ast.If) and is_probe(st.test):
                out.extend(st.orelse)
                continue
            out.append(st)
        return out

    fn.body = clean(fn.body)
    helpers = {}
    for st in list(fn.body):
        if isinstance(st, (ast.FunctionDef, ast.AsyncFunctionDef)):
            body = [x for x in st.body if not (isinstance(x, ast.Expr) and isinstance(x.value, ast.Constant))]
            if len(body) == 1 and isinstance(body[0], ast.Return) and body[0].value is not None and not st.args.kwonlyargs and not st.args.vararg and not st.args.kwarg:
                params = [a.arg for a in st.args.args]
                free = {n.id for n in ast.walk(body[0].value) if isinstance(n, ast.Name)} - set(params)
                if not free:
                    helpers[st.name] = (params, body[0].value, st)
    if not helpers:
        return

    class Inl(ast.NodeTransformer):
        def visit_Await(self, node):
            self.generic_visit(node)
            return node

        def visit_Call(self, node):
            self.generic_visit(node)
            if isinstance(node.func, ast.Name) and node.func.id in helpers and not node.keywords and len(node.args) == len(helpers[node.func.id][0]):
                params, expr, _ = helpers[node.func.id]
                env = dict(zip(params, node.args))

                class Sub(ast.NodeTransformer):
                    def visit_Name(self, n):
                        return copy.deepcopy(env[n.id]) if n.id in env and isinstance(n.ctx, ast.Load) else n

                return Sub().visit(copy.deepcopy(expr))
            return node

    fn.body = [st for st in fn.body if not (isinstance(st, (ast.FunctionDef, ast.AsyncFunctionDef)) and st.name in helpers)]
    Inl().visit(fn)
    # `await <non-call>` left behind by the substitution
    class UnAwait(ast.NodeTransformer):
        def visit_Await(self, node):
            self.generic_visit(node)
            return node.value if not isinstance(node.value, ast.Call) else node

    UnAwait().visit(fn)


def normal_form(fn_node, is_generator_ok: bool = False, sigs=None) -> ast.FunctionDef:
    node = copy.deepcopy(fn_node)
    # a configuration attribute read once into a local (`flag = self.env.x`, never stored to in
    # the function) is the attribute: one twin may hoist it, the other read it in place
    from ..normalize import propagate_aliases

    node = propagate_aliases(node)
    _drop_extension_points(node)
    node.decorator_list = [
        d for d in node.decorator_list if ast.unparse(d) not in ("abstractmethod",)
    ]
    node = _Norm().visit(node)
    _drop_dead_bindings(node)
    if sigs:
        _canon_positional(node, sigs)
    _inline_single_use_temps(node)
    if is_generator_ok:
        _generator_tail(node)
    _alpha(node)
    ast.fix_missing_locations(node)
    return node


def is_generator(fn_node) -> bool:
    from ..model import walk_no_nested

    return any(isinstance(n, (ast.Yield, ast.YieldFrom)) for n in walk_no_nested(fn_node))


def dump(node) -> str:
    return ast.unparse(node)


def digest(text: str) -> str:
    return hashlib.sha256(text.encode()).hexdigest()[:16]


def is_delegation(async_fn, sync_name: str, owners=("self",)) -> bool:
    """``return self.<sync>(<same params>)``: the async member simply calls the sync one."""
    body = body_without_docstring(async_fn)
    if len(body) != 1 or not isinstance(body[0], ast.Return):
        return False
    v = body[0].value
    if isinstance(v, ast.Await):
        return False
    if not isinstance(v, ast.Call):
        return False
    f = v.func
    if isinstance(f, ast.Attribute) and isinstance(f.value, ast.Name) and f.value.id in owners:
        callee = f.attr
    elif isinstance(f, ast.Name):
        callee = f.id
    else:
        return False
    if callee != sync_name:
        return False
    a = async_fn.args
    pos = [x.arg for x in a.posonlyargs + a.args if x.arg not in ("self", "cls")]
    kwonly = [x.arg for x in a.kwonlyargs]
    got_pos = []
    for x in v.args:
        if isinstance(x, ast.Name):
            got_pos.append(x.id)
        elif isinstance(x, ast.Starred) and isinstance(x.value, ast.Name) and a.vararg and x.value.id == a.vararg.arg:
            continue
        else:
            return False
    got_kw = {}
    for k in v.keywords:
        if k.arg is None:
            if not (isinstance(k.value, ast.Name) and a.kwarg and k.value.id == a.kwarg.arg):
                return False
            continue
        if not isinstance(k.value, ast.Name) or k.value.id != k.arg:
            return False
        got_kw[k.arg] = True
    # every parameter forwarded, positionally in order or by its own name
    rest = list(pos)
    for g in got_pos:
        if not rest or rest[0] != g:
            return False
        rest.pop(0)
    for p in rest + kwonly:
        if p not in got_kw:
            return False
    return True


def diff(sync_text: str, async_text: str) -> list[str]:
    return [
        l
        for l in difflib.unified_diff(
            sync_text.splitlines(), async_text.splitlines(), "sync", "async(normalised)", lineterm="", n=1
        )
    ]
