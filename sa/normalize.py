"""Behaviour-preserving normalisation of one function before a shape rule looks at it.

Shape rules decide a property on the code of an *anchor* function.  Maintainers routinely make
edits that move that code without changing what runs:

* a few statements are extracted into a private helper (``self._loop_iterations(...)``,
  ``_unclosed_markup_error(...)``, a method shared by a sync/async pair) — **helper inlining**;
* an attribute chain or bound method is read once into a local (``limit = self.env.x_limit``,
  ``write = buffer.write``, ``error = self.env.error``), or a condition is hoisted into a local
  flag (``propagate = partial and not block_scope``) — **alias propagation**.

``normalize(repo, f)`` undoes both on a deep copy of ``f.node`` (the repo model is not touched),
so that a rule sees the same statements it would have seen before the refactor.  Everything here
is conservative: when a helper does not fit the supported forms it is simply left as a call and
the rule then reports whatever it reports — a possible false alarm, never a missed change.

Helper inlining (depth <= 2):
  * callee resolvable as ``self.h`` / ``cls.h`` / ``ClassName.h`` through the MRO, or ``h`` in the
    same module; only *private* names (leading underscore) unless listed in ``also``; never a
    name in ``keep``; not recursive; no ``yield``; not a context manager / property / overridden
    in a subclass of the owner;
  * expression helpers (body = optional docstring + ``return <expr>``) are substituted wherever
    they are called; statement helpers (no ``return`` except a final top-level one) are spliced
    where the call is a whole statement: ``x = h(..)``, ``a, b = h(..)``, ``return h(..)``, ``h(..)``
    (with or without ``await``); their locals are renamed ``<name>__<helper>``;
  * arguments that are names, constants or attribute chains are substituted; anything else is
    bound to a fresh local first (evaluation order is preserved for the cases the repo has:
    helpers evaluate each parameter at most once before any side effect).

Alias propagation:
  * a local bound exactly once, by a plain top-level assignment (not inside a loop / try / with /
    branch), to (a) a pure attribute chain whose root is a parameter and that is not stored to
    anywhere in the function, or (b) a boolean combination (and/or/not/comparisons with constants)
    of parameters and such chains — and only read afterwards — is replaced by its definition.
"""

from __future__ import annotations

import ast
import copy
from typing import Iterable, Optional

from .astutil import attr_chain, bind_args
from .model import FuncInfo, Repo, walk_no_nested

MAX_HELPER_STMTS = 40


# ---------------------------------------------------------------------------------------------
def _strip_doc(body: list[ast.stmt]) -> list[ast.stmt]:
    if body and isinstance(body[0], ast.Expr) and isinstance(body[0].value, ast.Constant) and isinstance(body[0].value.value, str):
        return body[1:]
    return body


def _has_yield(fn: ast.AST) -> bool:
    return any(isinstance(n, (ast.Yield, ast.YieldFrom)) for n in walk_no_nested(fn))


def _returns(fn: ast.AST) -> list[ast.Return]:
    return [n for n in walk_no_nested(fn) if isinstance(n, ast.Return)]


def _simple_arg(e: ast.AST) -> bool:
    if isinstance(e, (ast.Name, ast.Constant)) or attr_chain(e) is not None:
        return True
    # a bound method of the parent class: `super().keys`
    return isinstance(e, ast.Attribute) and isinstance(e.value, ast.Call) and isinstance(e.value.func, ast.Name) and e.value.func.id == "super" and not e.value.args


def _tailify(body: list[ast.stmt], deliver) -> Optional[list[ast.stmt]]:
    """Rewrite a helper body whose ``return``s are in tail position (possibly early returns
    guarded by ``if``) into statements that *deliver* the value at the call site instead:

        if c: return A            if c: <deliver A>
        rest; return B     ->     else: rest; <deliver B>

    Returns None when a ``return`` sits where this is not possible (inside a loop / try / with).
    A body that can fall off its end delivers ``None`` there.
    """

    def has_return(nodes) -> bool:
        return any(isinstance(n, ast.Return) for s in nodes for n in [s] + list(walk_no_nested(s)))

    def go(stmts: list[ast.stmt]) -> Optional[list[ast.stmt]]:
        out: list[ast.stmt] = []
        for i, st in enumerate(stmts):
            if isinstance(st, ast.Return):
                out += deliver(st.value)
                return out
            if isinstance(st, ast.Raise):
                out.append(st)
                return out
            if isinstance(st, ast.If) and (has_return(st.body) or has_return(st.orelse)):
                rest = stmts[i + 1 :]
                b1 = go(st.body + (rest if not _ends(st.body) else []))
                b2 = go(st.orelse + (rest if not _ends(st.orelse) else []))
                if b1 is None or b2 is None:
                    return None
                new_if = ast.copy_location(ast.If(test=st.test, body=b1 or [ast.Pass()], orelse=b2), st)
                out.append(new_if)
                return out
            if isinstance(st, (ast.With, ast.AsyncWith)) and has_return(st.body) and _ends(st.body):
                # `with lock: ...; return v`: the value is delivered inside the with block
                inner = go(st.body)
                if inner is None:
                    return None
                new_with = copy.copy(st)
                new_with.body = inner or [ast.Pass()]
                out.append(new_with)
                return out
            if has_return([st]):
                return None  # return inside a loop / try
            out.append(st)
        out += deliver(None)
        return out

    def _ends(block) -> bool:
        if not block:
            return False
        last = block[-1]
        if isinstance(last, (ast.Return, ast.Raise)):
            return True
        if isinstance(last, ast.If):
            return bool(last.orelse) and _ends(last.body) and _ends(last.orelse)
        if isinstance(last, (ast.With, ast.AsyncWith)):
            return _ends(last.body)
        return False

    return go(list(body))


def _block_ends(block) -> bool:
    if not block:
        return False
    last = block[-1]
    if isinstance(last, (ast.Return, ast.Raise, ast.Continue, ast.Break)):
        return True
    if isinstance(last, (ast.With, ast.AsyncWith)):
        return _block_ends(last.body)
    if isinstance(last, ast.If):
        return bool(last.orelse) and _block_ends(last.body) and _block_ends(last.orelse)
    return False


def _push_continuation(if_node: ast.If, rest: list[ast.stmt]) -> None:
    for fld in ("body", "orelse"):
        blk = getattr(if_node, fld)
        if _block_ends(blk):
            continue
        if blk and isinstance(blk[-1], ast.If) and blk[-1].orelse and not isinstance(blk[-1], ast.Pass):
            # a nested generated if: continue inside it
            _push_continuation(blk[-1], rest)
        else:
            if len(blk) == 1 and isinstance(blk[0], ast.Pass):
                blk.clear()
            blk.extend(copy.deepcopy(rest))


def _fold_const_tests(block: list[ast.stmt], _nonnone=None) -> list[ast.stmt]:
    """within one block: after ``x = None`` / ``x = <constant>`` fold a directly following
    ``if not x`` / ``if x`` / ``if x is None`` (nothing in between rebinding x)"""
    out: list[ast.stmt] = []
    known: dict[str, object] = {}
    nonnone: set[str] = set(_nonnone or ())
    for st in block:
        for fld in ("body", "orelse"):
            sub = getattr(st, fld, None)
            if isinstance(st, ast.If) and isinstance(sub, list):
                setattr(st, fld, _fold_const_tests(sub, nonnone))
        if isinstance(st, ast.If):
            t = st.test
            verdict = None
            if isinstance(t, ast.Compare) and len(t.ops) == 1 and isinstance(t.left, ast.Name) and t.left.id in nonnone and t.left.id not in known and isinstance(t.comparators[0], ast.Constant) and t.comparators[0].value is None and isinstance(t.ops[0], (ast.Is, ast.IsNot)):
                # an attribute of this name was read on the way here: it is not None
                verdict = isinstance(t.ops[0], ast.IsNot)
            if isinstance(t, ast.Name) and t.id in known:
                verdict = bool(known[t.id])
            elif isinstance(t, ast.UnaryOp) and isinstance(t.op, ast.Not) and isinstance(t.operand, ast.Name) and t.operand.id in known:
                verdict = not bool(known[t.operand.id])
            elif isinstance(t, ast.Compare) and len(t.ops) == 1 and isinstance(t.left, ast.Name) and t.left.id in known and isinstance(t.comparators[0], ast.Constant) and t.comparators[0].value is None and isinstance(t.ops[0], (ast.Is, ast.IsNot)):
                verdict = (known[t.left.id] is None) == isinstance(t.ops[0], ast.Is)
            if verdict is not None:
                chosen = st.body if verdict else st.orelse
                out.extend(chosen)
                if _block_ends(chosen):
                    return out
                continue
        if isinstance(st, ast.Assign) and len(st.targets) == 1 and isinstance(st.targets[0], ast.Name) and isinstance(st.value, ast.Constant):
            known[st.targets[0].id] = st.value.value
            nonnone.discard(st.targets[0].id)
        else:
            copied = None
            if isinstance(st, ast.Assign) and len(st.targets) == 1 and isinstance(st.targets[0], ast.Name) and isinstance(st.value, ast.Name) and st.value.id in nonnone:
                copied = st.targets[0].id
            for n in ast.walk(st):
                if isinstance(n, ast.Name) and isinstance(n.ctx, (ast.Store, ast.Del)):
                    known.pop(n.id, None)
                    nonnone.discard(n.id)
            if copied:
                nonnone.add(copied)
        # `x.attr` evaluated unconditionally by this statement (its test, for an `if`): x is not None below
        probe = st.test if isinstance(st, (ast.If, ast.While)) else st if not hasattr(st, "body") else None
        if probe is not None:
            for n in ast.walk(probe):
                if isinstance(n, ast.Attribute) and isinstance(n.value, ast.Name) and isinstance(n.ctx, ast.Load) and n.value.id not in known:
                    nonnone.add(n.value.id)
        out.append(st)
    return out


class _Rename(ast.NodeTransformer):
    def __init__(self, mapping: dict[str, ast.expr]):
        self.mapping = mapping

    def visit_Name(self, node: ast.Name):
        if node.id in self.mapping:
            new = copy.deepcopy(self.mapping[node.id])
            if isinstance(node.ctx, ast.Store):
                if isinstance(new, ast.Name):
                    return ast.copy_location(ast.Name(id=new.id, ctx=ast.Store()), node)
                return node
            return ast.copy_location(new, node)
        return node

    def visit_FunctionDef(self, node):
        return node  # nested defs keep their own scope

    visit_AsyncFunctionDef = visit_FunctionDef
    visit_Lambda = visit_FunctionDef


class Inliner:
    def __init__(self, repo: Repo, keep: Iterable[str] = (), also: Iterable[str] = (), depth: int = 2, small_public: int = 0):
        self.repo = repo
        self.keep = set(keep)
        self.also = set(also)
        self.depth = depth
        self.small_public = small_public  # also inline public repo functions of at most this many statements
        self.inlined: list[str] = []

    # -- resolution ---------------------------------------------------------------------------
    def resolve(self, f: FuncInfo, call: ast.Call) -> Optional[FuncInfo]:
        fn = call.func
        name = fn.attr if isinstance(fn, ast.Attribute) else fn.id if isinstance(fn, ast.Name) else None
        if name is None or name in self.keep:
            return None
        private = name.startswith("_") and not name.startswith("__")
        if not private and name not in self.also and not self.small_public:
            return None
        target: Optional[FuncInfo] = None
        if isinstance(fn, ast.Attribute) and isinstance(fn.value, ast.Name):
            owner = None
            if fn.value.id in ("self", "cls") and f.cls is not None:
                owner = f.cls
            elif f.cls is not None and fn.value.id == f.cls.name:
                owner = f.cls
            else:
                r = self.repo.resolve_in(f.module, fn.value.id)
                if hasattr(r, "methods"):
                    owner = r
            if owner is not None:
                target = self.repo.find_method(owner, name)
                if target is not None and fn.value.id in ("self", "cls"):
                    # dynamic dispatch: a subclass override would make the inlining unsound
                    for sub in self.repo.subclasses(owner.qual, strict=True):
                        if name in sub.methods:
                            return None
        elif isinstance(fn, ast.Name):
            # a nested def of the enclosing function, then a module-level function
            cur = f
            while cur is not None and target is None:
                for n in walk_no_nested(cur.node):
                    if isinstance(n, (ast.FunctionDef, ast.AsyncFunctionDef)) and n.name == name:
                        return None  # closures capture variables: not inlined
                cur = cur.parent
            target = f.module.functions.get(name)
            if target is None:
                r = self.repo.resolve_in(f.module, name)
                if isinstance(r, FuncInfo):
                    target = r
        if target is None or target.node is f.node:
            return None
        if not private and name not in self.also and len(_strip_doc(target.node.body)) > self.small_public:
            return None
        decs = target.decorators()
        if any(d not in ("staticmethod", "classmethod") for d in decs):
            return None
        if _has_yield(target.node) or len(list(walk_no_nested(target.node))) > 900:
            return None
        if len(_strip_doc(target.node.body)) > MAX_HELPER_STMTS:
            return None
        return target

    # -- binding ------------------------------------------------------------------------------
    def _bind(self, call: ast.Call, target: FuncInfo, tag: str):
        """-> (mapping param -> expr, prelude statements) or None"""
        is_method = target.cls is not None and "staticmethod" not in target.decorators()
        explicit_self = False
        if is_method and isinstance(call.func, ast.Attribute) and isinstance(call.func.value, ast.Name) and target.cls is not None and call.func.value.id == target.cls.name and "classmethod" not in target.decorators():
            explicit_self = True  # ClassName.method(self, ...)
        b = bind_args(call, target.node, skip_self=is_method and not explicit_self)
        if b is None or any(k in b for k in ("*", "**", "*extra")):
            return None
        a = target.node.args
        params = [x.arg for x in a.posonlyargs + a.args + a.kwonlyargs]
        if is_method and not explicit_self and params and params[0] in ("self", "cls"):
            recv = call.func.value if isinstance(call.func, ast.Attribute) else ast.Name(id="self", ctx=ast.Load())
            b[params[0]] = recv
        # defaults
        pos = a.posonlyargs + a.args
        for p_, d in zip(pos[len(pos) - len(a.defaults) :], a.defaults):
            b.setdefault(p_.arg, d)
        for p_, d in zip(a.kwonlyargs, a.kw_defaults):
            if d is not None:
                b.setdefault(p_.arg, d)
        if a.vararg or a.kwarg:
            return None
        if any(p_ not in b for p_ in params):
            return None
        mapping: dict[str, ast.expr] = {}
        prelude: list[ast.stmt] = []
        comp_vars = set()
        for n in walk_no_nested(target.node):
            if isinstance(n, (ast.ListComp, ast.SetComp, ast.DictComp, ast.GeneratorExp)):
                for g in n.generators:
                    comp_vars |= {x.id for x in ast.walk(g.target) if isinstance(x, ast.Name)}
        stored = {n.id for n in walk_no_nested(target.node) if isinstance(n, ast.Name) and isinstance(n.ctx, ast.Store)} - comp_vars
        uses = {}
        for n in walk_no_nested(target.node):
            if isinstance(n, ast.Name) and isinstance(n.ctx, ast.Load):
                uses[n.id] = uses.get(n.id, 0) + 1
        body_ = _strip_doc(target.node.body)
        single_expr = len(body_) == 1 and isinstance(body_[0], ast.Return)
        for p_ in params:
            e = b[p_]
            if (_simple_arg(e) or (single_expr and uses.get(p_, 0) <= 1)) and p_ not in stored:
                mapping[p_] = e
            else:
                fresh = f"{p_}__{tag}"
                prelude.append(ast.copy_location(ast.Assign(targets=[ast.Name(id=fresh, ctx=ast.Store())], value=copy.deepcopy(e)), call))
                mapping[p_] = ast.Name(id=fresh, ctx=ast.Load())
        # locals of the helper
        for n in walk_no_nested(target.node):
            if isinstance(n, ast.Name) and isinstance(n.ctx, ast.Store) and n.id not in mapping and n.id not in comp_vars:
                mapping[n.id] = ast.Name(id=f"{n.id}__{tag}", ctx=ast.Load())
        return mapping, prelude

    # -- the transformation -------------------------------------------------------------------
    def run(self, f: FuncInfo) -> ast.AST:
        node = copy.deepcopy(f.node)
        for _ in range(self.depth):
            changed = self._pass(f, node)
            if not changed:
                break
        ast.fix_missing_locations(node)
        return node

    def _pass(self, f: FuncInfo, node: ast.AST) -> bool:
        changed = False
        inl = self

        # 1. expression helpers, anywhere
        class ExprInline(ast.NodeTransformer):
            def visit_Lambda(self, n):
                return n

            def visit_Call(self, call: ast.Call):
                self.generic_visit(call)
                target = inl.resolve(f, call)
                if target is None:
                    return call
                body = _strip_doc(target.node.body)
                if len(body) == 1 and isinstance(body[0], ast.Return) and body[0].value is not None:
                    bound = inl._bind(call, target, target.name.strip("_"))
                    if bound is None or bound[1]:
                        return call
                    nonlocal changed
                    changed = True
                    inl.inlined.append(target.qual)
                    new = _Rename(bound[0]).visit(copy.deepcopy(body[0].value))
                    for x in ast.walk(new):
                        if hasattr(x, "lineno"):
                            x.lineno = getattr(call, "lineno", 0)
                    return new
                return call

        ExprInline().visit(node)

        # 2. statement helpers, where the call is a whole statement
        def splice(block: list[ast.stmt]) -> list[ast.stmt]:
            nonlocal changed
            out: list[ast.stmt] = []
            for bi, st in enumerate(block):
                for fld in ("body", "orelse", "finalbody"):
                    sub = getattr(st, fld, None)
                    if isinstance(sub, list) and sub and isinstance(sub[0], ast.stmt) and not isinstance(st, ast.ClassDef):
                        setattr(st, fld, splice(sub))
                if isinstance(st, ast.Try):
                    for h in st.handlers:
                        h.body = splice(h.body)
                call, kind, tgt = None, None, None
                v = getattr(st, "value", None)
                if isinstance(v, ast.Await):
                    v = v.value
                if isinstance(v, ast.Call):
                    if isinstance(st, ast.Return):
                        call, kind = v, "return"
                    elif isinstance(st, ast.Expr):
                        call, kind = v, "expr"
                    elif isinstance(st, ast.Assign) and len(st.targets) == 1:
                        call, kind, tgt = v, "assign", st.targets[0]
                    elif isinstance(st, ast.AnnAssign) and st.value is not None:
                        call, kind, tgt = v, "assign", st.target
                target = inl.resolve(f, call) if call is not None else None
                if target is None:
                    out.append(st)
                    continue
                body = _strip_doc(target.node.body)
                if any(isinstance(n, (ast.FunctionDef, ast.AsyncFunctionDef, ast.Lambda, ast.Global, ast.Nonlocal)) for n in walk_no_nested(target.node)):
                    out.append(st)
                    continue
                bound = inl._bind(call, target, target.name.strip("_"))
                if bound is None:
                    out.append(st)
                    continue
                mapping, prelude = bound

                def deliver(value, st=st, kind=kind, tgt=tgt):
                    """what a `return value` of the helper becomes at the call site"""
                    if value is None:
                        value = ast.Constant(value=None)
                    if kind == "return":
                        return [ast.copy_location(ast.Return(value=value), st)]
                    if kind == "assign":
                        return [ast.copy_location(ast.Assign(targets=[copy.deepcopy(tgt)], value=value), st)]
                    if isinstance(value, ast.Constant):
                        return []
                    return [ast.copy_location(ast.Expr(value=value), st)]

                renamed = [_Rename(mapping).visit(copy.deepcopy(s)) for s in body]
                tail = _tailify(renamed, deliver)
                if tail is None:
                    out.append(st)
                    continue
                changed = True
                inl.inlined.append(target.qual)
                for s in prelude + tail:
                    for x in ast.walk(s):
                        if hasattr(x, "lineno"):
                            x.lineno = getattr(st, "lineno", 0)
                out.extend(prelude)
                rest = block[bi + 1 :]
                if kind == "assign" and tail and isinstance(tail[-1], ast.If) and rest and len(rest) <= 30 and not any(isinstance(n, (ast.FunctionDef, ast.AsyncFunctionDef)) for r in rest for n in [r]):
                    # the helper returned early on some path: keep the analysis path-sensitive by
                    # continuing the caller's block separately in each branch (and folding the
                    # `if not x:` tests whose outcome the branch has just fixed)
                    _push_continuation(tail[-1], splice(list(rest)))
                    out.extend(_fold_const_tests(tail))
                    return out
                out.extend(tail)
            return out

        node.body = splice(node.body)
        return changed


# ---------------------------------------------------------------------------------------------
def _is_pure_cond(e: ast.AST, leaf_ok) -> bool:
    """and/or/not/comparison-with-constant over leaves accepted by ``leaf_ok``"""
    if isinstance(e, ast.BoolOp):
        return all(_is_pure_cond(v, leaf_ok) for v in e.values)
    if isinstance(e, ast.UnaryOp) and isinstance(e.op, ast.Not):
        return _is_pure_cond(e.operand, leaf_ok)
    if isinstance(e, ast.Compare) and len(e.ops) == 1 and isinstance(e.comparators[0], ast.Constant):
        return _is_pure_cond(e.left, leaf_ok)
    return leaf_ok(e)


def propagate_aliases(fn: ast.AST) -> ast.AST:
    """see module docstring; works in place on ``fn`` (pass a copy)."""
    a = fn.args
    params = {x.arg for x in a.posonlyargs + a.args + a.kwonlyargs}
    store_count: dict[str, int] = {}
    for n in walk_no_nested(fn):
        if isinstance(n, ast.Name) and isinstance(n.ctx, (ast.Store, ast.Del)):
            store_count[n.id] = store_count.get(n.id, 0) + 1
    stored_chains = set()
    for n in walk_no_nested(fn):
        if isinstance(n, ast.Attribute) and isinstance(n.ctx, (ast.Store, ast.Del)):
            ch = attr_chain(n)
            if ch:
                stored_chains.add(tuple(ch))

    def path_chain(e):
        """like attr_chain, with constant subscripts as parts: self.ns["k"] -> ['self', 'ns', "['k']"]"""
        parts = []
        while True:
            if isinstance(e, ast.Attribute):
                parts.append(e.attr)
                e = e.value
            elif isinstance(e, ast.Subscript) and isinstance(e.slice, ast.Constant):
                parts.append(f"[{e.slice.value!r}]")
                e = e.value
            else:
                break
        if isinstance(e, ast.Name):
            parts.append(e.id)
            return parts[::-1]
        return None

    for n in walk_no_nested(fn):
        if isinstance(n, ast.Subscript) and isinstance(n.ctx, (ast.Store, ast.Del)) and isinstance(n.slice, ast.Constant):
            ch = path_chain(n)
            if ch:
                stored_chains.add(tuple(ch))

    def chain_ok(e) -> bool:
        ch = path_chain(e)
        # rooted at a parameter, or at a module-level constant (ALL_CAPS name never bound here)
        if ch is None or len(ch) < 2 or store_count.get(ch[0], 0) or not (ch[0] in params or (ch[0].isupper() and len(ch[0]) > 1)):
            return False
        # no prefix of the chain (and not the chain itself) is stored to in this function
        return not any(tuple(ch[:i]) in stored_chains for i in range(2, len(ch) + 1))

    aliases: dict[str, ast.expr] = {}
    new_body = []
    for st in fn.body:
        tgt, val = None, None
        if isinstance(st, ast.Assign) and len(st.targets) == 1 and isinstance(st.targets[0], ast.Name):
            tgt, val = st.targets[0].id, st.value
        elif isinstance(st, ast.AnnAssign) and isinstance(st.target, ast.Name) and st.value is not None:
            tgt, val = st.target.id, st.value
        if tgt is not None and store_count.get(tgt) == 1 and tgt not in params:
            # definitions may mention earlier aliases
            v2 = _Rename(aliases).visit(copy.deepcopy(val))
            def leaf_ok(x):
                if isinstance(x, ast.Name):
                    return x.id in params and not store_count.get(x.id, 0)
                return chain_ok(x)

            pure = chain_ok(v2) or (isinstance(v2, (ast.BoolOp, ast.UnaryOp, ast.Compare)) and _is_pure_cond(v2, leaf_ok))
            if pure:
                aliases[tgt] = v2
                continue  # drop the binding statement
        new_body.append(st)
    if not aliases:
        return fn
    fn.body = [_Rename(aliases).visit(s) for s in new_body]
    ast.fix_missing_locations(fn)
    return fn


# ---------------------------------------------------------------------------------------------
def normalize(repo: Repo, f: FuncInfo, keep: Iterable[str] = (), also: Iterable[str] = (), depth: int = 2, aliases: bool = True, small_public: int = 0) -> ast.AST:
    """A deep copy of ``f.node`` with private helpers inlined and local aliases propagated."""
    node = Inliner(repo, keep=keep, also=also, depth=depth, small_public=small_public).run(f)
    if aliases:
        node = propagate_aliases(node)
    return node


class NFunc:
    """Duck-types ``FuncInfo`` around a normalised node (same name/qual/module/cls)."""

    def __init__(self, f: FuncInfo, node: ast.AST):
        self.name, self.qual, self.module, self.cls, self.parent = f.name, f.qual, f.module, f.cls, f.parent
        self.node = node
        self.orig = f

    @property
    def file(self):
        return self.module.relpath

    @property
    def line(self):
        return self.node.lineno

    @property
    def is_async(self):
        return isinstance(self.node, ast.AsyncFunctionDef)

    def decorators(self):
        return self.orig.decorators()

    def params(self):
        return self.orig.params()


def nfunc(repo: Repo, f: FuncInfo, **kw) -> NFunc:
    return NFunc(f, normalize(repo, f, **kw))


_OPERATOR = {"add": ast.Add, "sub": ast.Sub, "mul": ast.Mult, "mod": ast.Mod, "truediv": ast.Div, "floordiv": ast.FloorDiv, "pow": ast.Pow}


class _OperatorCalls(ast.NodeTransformer):
    def visit_Call(self, node: ast.Call):
        self.generic_visit(node)
        f = node.func
        if isinstance(f, ast.Attribute) and isinstance(f.value, ast.Name) and f.value.id == "operator" and f.attr in _OPERATOR and len(node.args) == 2 and not node.keywords:
            return ast.copy_location(ast.BinOp(left=node.args[0], op=_OPERATOR[f.attr](), right=node.args[1]), node)
        return node


def desugar_operator_calls(node: ast.AST) -> ast.AST:
    """``operator.add(a, b)`` -> ``a + b`` etc. (after a helper taking the operator as an argument
    was inlined); in place."""
    node = _OperatorCalls().visit(node)
    ast.fix_missing_locations(node)
    return node


# ---------------------------------------------------------------------------------------------
def rename_by_definition(fn: ast.AST, table: list[tuple[str, str]], loop_table: list[tuple[str, str]] = ()) -> ast.AST:
    """A deep copy of ``fn`` in which locals are named after what they are *defined as*:
    ``table`` maps a regular expression over the text of a local's first binding (earlier renames
    applied) to the canonical name, ``loop_table`` does the same for ``for`` targets by the text
    of the iterable.  Rules written against the canonical names then do not depend on what the
    author called ``match.lastgroup``.  A rename is skipped when the canonical name is already
    bound to something else in the function."""
    import re as _re

    node = copy.deepcopy(fn)
    bound = {n.id for n in ast.walk(node) if isinstance(n, ast.Name) and isinstance(n.ctx, ast.Store)} | {a.arg for a in ast.walk(node) if isinstance(a, ast.arg)}
    mapping: dict[str, str] = {}

    def apply(old: str, new: str) -> None:
        if old == new or new in bound or old in mapping:
            return
        mapping[old] = new
        bound.add(new)
        for n in ast.walk(node):
            if isinstance(n, ast.Name) and n.id == old:
                n.id = new

    for n in walk_no_nested(node):
        if isinstance(n, (ast.For, ast.AsyncFor)) and isinstance(n.target, ast.Name):
            it = ast.unparse(n.iter)
            for pat, new in loop_table:
                if _re.search(pat, it):
                    apply(n.target.id, new)
                    break
    seen: set[str] = set()
    for n in walk_no_nested(node):
        tgt = val = None
        if isinstance(n, ast.Assign) and len(n.targets) == 1 and isinstance(n.targets[0], ast.Name):
            tgt, val = n.targets[0].id, n.value
        elif isinstance(n, ast.AnnAssign) and isinstance(n.target, ast.Name) and n.value is not None:
            tgt, val = n.target.id, n.value
        if tgt is None or tgt in seen:
            continue
        seen.add(tgt)
        t = ast.unparse(val)
        for pat, new in table:
            if _re.search(pat, t):
                apply(tgt, new)
                break
    return node


LEXER_NAMES = ([(r"^match\.lastgroup$", "kind"), (r"^match\.group\(\)$", "value"), (r"^match\.group\('name'\)$", "name")], [(r"\.finditer\(", "match")])


def lexer_canonical(fn: ast.AST) -> ast.AST:
    """``rename_by_definition`` with the roles of a regex-driven tokenizer loop: the loop variable
    over ``<rules>.finditer(...)`` is ``match``, ``match.lastgroup`` is ``kind``, ``match.group()``
    is ``value`` and ``match.group('name')`` is ``name``."""
    return rename_by_definition(fn, LEXER_NAMES[0], LEXER_NAMES[1])


def rename_locals(fn: ast.AST, mapping: dict[str, str]) -> ast.AST:
    """A deep copy of ``fn`` with the given locals renamed (old -> canonical).  Pairs whose
    canonical name is already used for something else in the function are skipped."""
    node = copy.deepcopy(fn)
    used = {n.id for n in ast.walk(node) if isinstance(n, ast.Name)} | {a.arg for a in ast.walk(node) if isinstance(a, ast.arg)}
    todo = {o: n for o, n in mapping.items() if o != n and n not in used and o in used}
    if not todo:
        return node
    for n in ast.walk(node):
        if isinstance(n, ast.Name) and n.id in todo:
            n.id = todo[n.id]
    return node
