"""A small structured forward *must* dataflow over Python statement lists.

Python functions in the repo are structured (no goto), so instead of building an
explicit CFG we interpret the statement tree directly.  The state is the set of
facts that hold on *every* path reaching a program point (``None`` = unreachable).

    flow = MustFlow(gen=..., gen_cond=..., kill=..., visit=...)
    exits = flow.run(fn_node)        # list of (kind, node, state) for return/raise/fall-through

* ``gen(stmt) -> set``          facts established by executing a simple statement
* ``gen_cond(test, truth) -> set``  facts established on the true / false edge of a test
* ``kill(stmt, facts) -> set``  facts destroyed by a simple statement (default: none)
* ``visit(node, state)``        called for every simple statement, every branch test
                                 (``ast.expr`` of if/while), for/with headers — with the
                                 state *before* the node executes.

Exceptions: inside ``try`` the handlers start from the intersection of the state
at entry and after every statement of the body (an exception may leave the body
anywhere).  Calls that raise outside a ``try`` simply end the path (sound for must
facts at later points).
"""

from __future__ import annotations

import ast
from typing import Callable, Optional

State = Optional[frozenset]


def join(a: State, b: State) -> State:
    if a is None:
        return b
    if b is None:
        return a
    return a & b


class MustFlow:
    def __init__(
        self,
        gen: Callable[[ast.stmt], set] = lambda s: set(),
        gen_cond: Callable[[ast.expr, bool], set] = lambda t, v: set(),
        kill: Callable[[ast.stmt, frozenset], set] = lambda s, f: set(),
        visit: Callable[[ast.AST, frozenset], None] = lambda n, s: None,
    ):
        self.gen, self.gen_cond, self.kill, self.visit = gen, gen_cond, kill, visit
        # hook: state at the top of a for-loop body (bind the loop target); identity by default
        self.loop_entry = lambda s, st: st
        self.exits: list[tuple[str, ast.AST, frozenset]] = []

    # ------------------------------------------------------------------
    def run(self, fn: ast.AST, init: frozenset = frozenset()):
        self.exits = []
        self._loops: list[dict] = []
        self._try_acc: list[list] = []
        out = self.block(fn.body, frozenset(init))
        if out is not None:
            self.exits.append(("fallthrough", fn, out))
        return self.exits

    def _note(self, st: State):
        # record intermediate states for enclosing try blocks
        if st is not None:
            for acc in self._try_acc:
                acc.append(st)

    def block(self, body: list[ast.stmt], st: State) -> State:
        for s in body:
            if st is None:
                break
            st = self.stmt(s, st)
            self._note(st)
        return st

    def _apply(self, s: ast.stmt, st: frozenset) -> frozenset:
        return frozenset((st - frozenset(self.kill(s, st))) | frozenset(self.gen(s)))

    def stmt(self, s: ast.stmt, st: frozenset) -> State:
        if isinstance(s, (ast.FunctionDef, ast.AsyncFunctionDef, ast.ClassDef)):
            return st
        if isinstance(s, ast.If):
            self.visit(s.test, st)
            t = self.block(s.body, frozenset(st | frozenset(self.gen_cond(s.test, True))))
            f = self.block(s.orelse, frozenset(st | frozenset(self.gen_cond(s.test, False))))
            return join(t, f)
        if isinstance(s, (ast.For, ast.AsyncFor, ast.While)):
            if isinstance(s, ast.While):
                self.visit(s.test, st)
            else:
                self.visit(s, st)
            head: State = st
            ctx = {"breaks": [], "continues": []}
            for _ in range(4):  # must facts shrink monotonically; tiny lattices converge fast
                self._loops.append(ctx)
                ctx["breaks"], ctx["continues"] = [], []
                entry = head
                if isinstance(s, ast.While):
                    entry = frozenset(head | frozenset(self.gen_cond(s.test, True)))
                else:
                    entry = self.loop_entry(s, head)
                body_out = self.block(s.body, entry)
                self._loops.pop()
                back = body_out
                for c in ctx["continues"]:
                    back = join(back, c)
                new_head = join(st, back) if back is not None else st
                if new_head == head:
                    break
                head = new_head
            exit_st: State = head
            if isinstance(s, ast.While):
                infinite = isinstance(s.test, ast.Constant) and bool(s.test.value)
                exit_st = None if infinite else frozenset(head | frozenset(self.gen_cond(s.test, False)))
            if s.orelse and exit_st is not None:
                exit_st = self.block(s.orelse, exit_st)
            for b in ctx["breaks"]:
                exit_st = join(exit_st, b)
            return exit_st
        if isinstance(s, (ast.With, ast.AsyncWith)):
            self.visit(s, st)
            st2 = self._apply(s, st)
            return self.block(s.body, st2)
        if isinstance(s, ast.Try):
            acc: list = [st]
            self._try_acc.append(acc)
            body_out = self.block(s.body, st)
            self._try_acc.pop()
            h_in: State = None
            for x in acc:
                h_in = join(h_in, x) if h_in is not None else x
            outs = []
            if body_out is not None and s.orelse:
                body_out = self.block(s.orelse, body_out)
            outs.append(body_out)
            for h in s.handlers:
                self.visit(h, h_in)
                outs.append(self.block(h.body, h_in))
            res: State = None
            for o in outs:
                res = join(res, o)
            if s.finalbody:
                # finally also runs on exceptional exits; for must-facts after the try
                # statement only the normal continuation matters
                fin_in = res if res is not None else h_in
                fin_out = self.block(s.finalbody, fin_in)
                return fin_out if res is not None else None
            return res
        if isinstance(s, ast.Return):
            self.visit(s, st)
            self.exits.append(("return", s, st))
            return None
        if isinstance(s, ast.Raise):
            self.visit(s, st)
            self.exits.append(("raise", s, st))
            return None
        if isinstance(s, ast.Break):
            if self._loops:
                self._loops[-1]["breaks"].append(st)
            return None
        if isinstance(s, ast.Continue):
            if self._loops:
                self._loops[-1]["continues"].append(st)
            return None
        if isinstance(s, ast.Match):  # unused in the repo; be conservative
            self.visit(s, st)
            res = st
            for c in s.cases:
                res = join(res, self.block(c.body, st))
            return res
        # simple statement
        self.visit(s, st)
        return self._apply(s, st)


def calls_in(node: ast.AST):
    """All Call nodes inside *node* (not descending into nested defs/lambdas)."""
    from .model import walk_no_nested

    if isinstance(node, ast.Call):
        yield node
    for n in walk_no_nested(node):
        if isinstance(n, ast.Call):
            yield n


def call_name(call: ast.Call) -> str:
    f = call.func
    if isinstance(f, ast.Attribute):
        return f.attr
    if isinstance(f, ast.Name):
        return f.id
    return ""


def ends_in_raise(body: list[ast.stmt]) -> bool:
    """Every path through *body* ends in raise (syntactic, conservative)."""
    if not body:
        return False
    last = body[-1]
    if isinstance(last, ast.Raise):
        return True
    if isinstance(last, ast.If):
        return ends_in_raise(last.body) and ends_in_raise(last.orelse)
    return False


def own_exprs(node: ast.AST) -> list[ast.AST]:
    """What a node passed to ``visit`` evaluates *itself* (not its nested blocks)."""
    if isinstance(node, (ast.For, ast.AsyncFor)):
        return [node.iter]
    if isinstance(node, (ast.With, ast.AsyncWith)):
        return [it.context_expr for it in node.items]
    if isinstance(node, ast.ExceptHandler):
        return []
    return [node]


def node_calls(node: ast.AST):
    """Calls evaluated by a visited node itself, in source order."""
    for e in own_exprs(node):
        yield from calls_in(e)
