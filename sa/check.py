"""CLI: ``/venv/bin/python -m sa.check C01 [--tier quick|thorough] [--replay PATH]``.

Exit 0: every rule instance held or is a listed known finding.
Exit 1: an unlisted violation (prints ``VIOLATION property=<id> replay=<path>``).
Exit 2: ``ANALYSIS-ERROR`` — the checker could not do its job (never a silent pass).
"""

from __future__ import annotations

import argparse
import importlib
import json
import os
import sys
import traceback

from . import core
from .model import AnalysisError, Repo


def _load_prop(pid: str):
    return importlib.import_module(f"sa.props.{pid.lower()}")


def run_rules(pid: str, repo: Repo) -> core.Result:
    mod = _load_prop(pid)
    res = mod.run(repo)
    if res.obligations < getattr(mod, "MIN_OBLIGATIONS", 1):
        raise AnalysisError(
            f"{pid}: only {res.obligations} rule instances matched, "
            f"expected at least {mod.MIN_OBLIGATIONS} (confirmed by hand) — "
            "a rule that matches nothing cannot pass"
        )
    return res


def main(argv=None) -> int:
    ap = argparse.ArgumentParser()
    ap.add_argument("property")
    ap.add_argument("--tier", default=os.environ.get("VERIF_TIER", "quick"))
    ap.add_argument("--replay")
    ap.add_argument("--selftest-strict", action="store_true")
    ap.add_argument("--no-evidence", action="store_true")
    ap.add_argument("-v", "--verbose", action="store_true")
    args = ap.parse_args(argv)
    pid = args.property.upper()
    tier = "thorough" if args.tier == "thorough" else "quick"
    seed = int(os.environ.get("VERIF_SEED", "0") or 0)
    timer = core.Timer()
    try:
        repo = Repo()
        res = run_rules(pid, repo)
        open_known, _fixed = core.load_known()
        known_hit, new = [], []
        for f in res.findings:
            rec = open_known.get(f"{pid}::{f.key}")
            if rec is not None:
                known_hit.append(f)
            else:
                new.append(f)

        if args.replay:
            with open(args.replay, encoding="utf-8") as fd:
                rep = json.load(fd)
            wanted = {v["key"] for v in rep.get("violations", [])}
            still = [f for f in res.findings if f.key in wanted]
            for f in still:
                print(f"REPLAY still-present: {f.key}\n  {f.file}:{f.line}\n  {f.message}")
                for w in f.witness:
                    print(f"    witness: {w}")
            for k in sorted(wanted - {f.key for f in still}):
                print(f"REPLAY no-longer-present: {k}")
            return 1 if still else 0

        selftest = None
        if tier == "thorough":
            from . import selftest as st

            selftest = st.run_selftest(pid, repo, res)

        for f in known_hit:
            print(f"KNOWN-FINDING: property={pid} {f.key} :: {f.message}")
        report_path = ""
        if new:
            report_path = os.path.join(core.REPORT_DIR, f"{pid}-{tier}.json")
            core.write_json(
                report_path,
                {
                    "property": pid,
                    "tier": tier,
                    "repo_digest": repo.digest,
                    "violations": [f.to_json() for f in new],
                },
            )
            for f in new:
                print(f"  {f.file}:{f.line}: [{f.rule}] {f.construct}: {f.message}")
                for w in f.witness[:12]:
                    print(f"      {w}")
            print(f"VIOLATION property={pid} replay={report_path}")
        if not args.no_evidence:
            core.write_evidence(
                res,
                tier,
                seed,
                timer(),
                len(new),
                [f.key for f in known_hit],
                selftest,
                repo.digest,
            )
        if args.verbose or not new:
            print(
                f"{pid} {tier}: {res.obligations} obligations over "
                f"{len(res.nontrivial)} constructs; {len(known_hit)} known finding(s); "
                f"{len(new)} new violation(s)"
                + (
                    f"; selftest {selftest['detected']}/{selftest['variants']} variants detected"
                    if selftest
                    else ""
                )
            )
        if new:
            return 1
        if selftest and args.selftest_strict and selftest["missed"]:
            print("ANALYSIS-ERROR selftest variants missed: " + ", ".join(selftest["missed"]))
            return 2
        return 0
    except AnalysisError as err:
        print(f"ANALYSIS-ERROR property={pid}: {err}")
        return 2
    except Exception:  # noqa: BLE001
        traceback.print_exc()
        print(f"ANALYSIS-ERROR property={pid}: checker crashed (see traceback)")
        return 2


if __name__ == "__main__":
    sys.exit(main())
