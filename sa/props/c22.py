"""C22 — template loaders never read outside their search paths.

Full structural decision (taint/dominance on the two resolver functions):
  C22-GUARD   in ``FileSystemLoader.resolve_path`` and ``PackageLoader._resolve_path`` the
              value joined onto a search directory (``base.joinpath(x)``) derives from the
              requested name, and on every path reaching the join both
              ``os.path.pardir in x.parts -> raise TemplateNotFoundError`` and
              ``x.is_absolute() -> raise TemplateNotFoundError`` have been passed for the
              *current* value of ``x`` (``with_suffix`` keeps directories unchanged; any
              other rebinding after the tests invalidates them).
  C22-SYMLINK with ``reject_symlinks`` the path is returned only after
              ``resolved.is_relative_to(base_resolved)`` holds, both resolved from the
              candidate and its own base.
  C22-READ    ``get_source*`` read file contents only from the object the resolver returned
              (no other open/read_text/Path construction), for the plain, caching and async
              variants (resolved through the MRO).
  C22-TOTAL   the resolver raises nothing but TemplateNotFoundError for an unresolvable
              name: ``with_suffix`` is dominated by a non-empty-name guard; file-system probes
              (exists / is_file / resolve / stat) sit inside ``try ... except OSError``; every
              ``raise`` raises TemplateNotFoundError; the loop falls through to
              ``raise TemplateNotFoundError``.
  C22-CONFIG  every option the resolver reads is stored by the base constructor under its own
              name, and every subclass constructor (the caching variants) that accepts an
              option of that name forwards it unchanged to the base constructor.
Trusted: pathlib / importlib.resources semantics (joinpath of a relative path without
'..' stays below its base; exists/is_file swallow ValueError for NUL bytes).
"""

from __future__ import annotations

import ast

from ..astutil import call_recv, attr_chain, callee_name, calls, handler_types, is_name, is_self_attr, names_in, text, unwrap_await
from ..core import Result
from ..engines.hnd import enclosing_try_handlers
from ..flow import MustFlow, node_calls
from ..model import AnchorMissing, Repo, walk_no_nested

PID = "C22"
MIN_OBLIGATIONS = 20
FS = "liquid.builtin.loaders.file_system_loader.FileSystemLoader"
PK = "liquid.builtin.loaders.package_loader.PackageLoader"
PROBES = {"exists", "is_file", "is_dir", "resolve", "stat", "lstat", "is_symlink", "samefile"}


def _splice_generator_helpers(repo, f0, node) -> None:
    """``T = next(self._h(<names>), <default>)`` where ``_h`` is a private generator of the same
    class: for the guard-before-join analysis the generator's body runs at that point — it is
    spliced in place of the statement (parameters renamed to the argument names, ``yield E``
    written ``T = E``).  Everything established before the call dominates the spliced body."""
    import copy as _copy

    if f0.cls is None:
        return

    class _Y(ast.NodeTransformer):
        def __init__(self, target, ren):
            self.target, self.ren = target, ren

        def visit_Name(self, n):
            if n.id in self.ren:
                n.id = self.ren[n.id]
            return n

        def visit_Expr(self, n):
            if isinstance(n.value, ast.Yield) and n.value.value is not None:
                return ast.copy_location(ast.Assign(targets=[ast.Name(id=self.target, ctx=ast.Store())], value=self.visit(n.value.value), type_comment=None), n)
            return self.generic_visit(n)

    def splice(block: list) -> None:
        i = 0
        while i < len(block):
            st = block[i]
            for fld in ("body", "orelse", "finalbody"):
                sub = getattr(st, fld, None)
                if isinstance(sub, list) and sub and isinstance(sub[0], ast.stmt):
                    splice(sub)
            v = st.value if isinstance(st, ast.Assign) and len(st.targets) == 1 and isinstance(st.targets[0], ast.Name) else None
            if isinstance(v, ast.Call) and is_name(v.func, "next") and v.args and isinstance(v.args[0], ast.Call) and isinstance(v.args[0].func, ast.Attribute) and is_name(v.args[0].func.value, "self"):
                h = f0.cls.methods.get(v.args[0].func.attr)
                call = v.args[0]
                if h is not None and h.name.startswith("_") and any(isinstance(x, ast.Yield) for x in ast.walk(h.node)) and all(isinstance(a, ast.Name) for a in call.args) and not call.keywords:
                    hp = [p for p in h.params() if p != "self"]
                    if len(hp) == len(call.args):
                        ren = {p: a.id for p, a in zip(hp, call.args)}
                        body = [_Y(st.targets[0].id, ren).visit(_copy.deepcopy(x)) for x in h.node.body if not (isinstance(x, ast.Expr) and isinstance(x.value, ast.Constant))]
                        init = ast.copy_location(ast.Assign(targets=[ast.Name(id=st.targets[0].id, ctx=ast.Store())], value=v.args[1] if len(v.args) > 1 else ast.Constant(value=None), type_comment=None), st)
                        block[i : i + 1] = [init] + body
                        for x in block[i : i + 1 + len(body)]:
                            ast.fix_missing_locations(x)
                        i += len(body)
            i += 1

    splice(node.body)


def _check_resolver(repo, res, fq):
    from ..normalize import nfunc as _nfunc22

    f0 = repo.func(fq)
    # private helpers inlined (a `_relative_template_path(name)` that validates the name and
    # hands back the path is read as part of the resolver)
    f = _nfunc22(repo, f0, aliases=False)
    node = f.node
    _splice_generator_helpers(repo, f0, node)
    params = [p for p in f0.params() if p != "self"]
    if len(params) != 1:
        res.add("C22-GUARD", fq, "signature", f"{fq}: expected (self, template_name)", f.file, f.line)
        return
    tn = params[0]
    # variables derived from the name (tainted)
    tainted = {tn}
    for _ in range(3):
        for st in walk_no_nested(node):
            if isinstance(st, ast.Assign) and len(st.targets) == 1 and isinstance(st.targets[0], ast.Name):
                if names_in(st.value) & tainted:
                    tainted.add(st.targets[0].id)
            if isinstance(st, ast.For) and isinstance(st.target, ast.Name) and names_in(st.iter) & tainted:
                tainted.add(st.target.id)
    joins = [c for c in calls(node) if callee_name(c) == "joinpath" or (isinstance(c.func, ast.Name) and c.func.id in ("Path", "open") and False)]
    tainted_joins = [c for c in joins if any(names_in(a) & tainted for a in c.args)]
    if not tainted_joins:
        raise AnchorMissing(f"{fq}: no joinpath(<name-derived>) sink found")
    # also the `/` operator with a tainted operand is a join
    for n in walk_no_nested(node):
        if isinstance(n, ast.BinOp) and isinstance(n.op, ast.Div) and (names_in(n.right) & tainted):
            res.ob(f"{fq}:div-join")
            res.add("C22-GUARD", fq, f"div-join:{text(n)[:40]}", f"{fq}: `{text(n)[:60]}` joins a name-derived path with `/` outside the checked joinpath sink", f.file, n.lineno)

    # locals that are a plain copy / str() of the checked path variable, bound once, after the last
    # binding of that variable (`relative_path = str(template_path)` hoisted out of the loop)
    derived = {}
    stores = {}
    order = {}
    for i_, st in enumerate(walk_no_nested(node)):
        order[id(st)] = i_  # source order of the (possibly inlined) statements
        if isinstance(st, ast.Assign) and len(st.targets) == 1 and isinstance(st.targets[0], ast.Name):
            stores.setdefault(st.targets[0].id, []).append(st)
    for name, sts in stores.items():
        if len(sts) != 1:
            continue
        v = unwrap_await(sts[0].value)
        if isinstance(v, ast.Call) and is_name(v.func, "str") and len(v.args) == 1:
            v = v.args[0]
        if isinstance(v, ast.Name) and v.id in stores and all(order[id(x)] < order[id(sts[0])] for x in stores[v.id]):
            derived[name] = v.id

    def var_of(e):
        """The tainted path variable an argument expression stands for: x, str(x), or a local
        bound once to one of those."""
        e = unwrap_await(e)
        if isinstance(e, ast.Call) and is_name(e.func, "str") and e.args:
            e = e.args[0]
        if isinstance(e, ast.Name) and e.id in derived:
            return derived[e.id]
        return e.id if isinstance(e, ast.Name) else None

    def gen_cond(test, truth):
        out = set()
        # `A or B` false edge: both A and B false;   `A` false edge
        parts = test.values if isinstance(test, ast.BoolOp) and isinstance(test.op, ast.Or) else [test]
        if truth:
            return out
        for p in parts:
            # os.path.pardir in x.parts
            if isinstance(p, ast.Compare) and len(p.ops) == 1 and isinstance(p.ops[0], ast.In):
                if text(p.left) in ("os.path.pardir", "'..'", "os.pardir") and isinstance(p.comparators[0], ast.Attribute) and p.comparators[0].attr == "parts" and isinstance(p.comparators[0].value, ast.Name):
                    out.add(("nopardir", p.comparators[0].value.id))
            # x.is_absolute()
            if isinstance(p, ast.Call) and callee_name(p) == "is_absolute" and isinstance(call_recv(p), ast.Name):
                out.add(("relative", call_recv(p).id))
            # not x.name
            if isinstance(p, ast.UnaryOp) and isinstance(p.op, ast.Not) and isinstance(p.operand, ast.Attribute) and p.operand.attr == "name" and isinstance(p.operand.value, ast.Name):
                out.add(("named", p.operand.value.id))
        return out

    def kill(st, facts):
        dead = set()
        if isinstance(st, ast.Assign):
            for t in st.targets:
                if isinstance(t, ast.Name):
                    v = unwrap_await(st.value)
                    preserving = isinstance(v, ast.Call) and callee_name(v) == "with_suffix" and isinstance(call_recv(v), ast.Name) and call_recv(v).id == t.id
                    for fct in facts:
                        if fct[1] == t.id and not preserving:
                            dead.add(fct)
                        if fct[1] == t.id and preserving and fct[0] == "named":
                            pass
        return dead

    seen = {"join": 0}

    def visit(n, st):
        # guard tests must raise TemplateNotFoundError: verified separately (every raise)
        for c in node_calls(n):
            if callee_name(c) == "joinpath" and any(names_in(a) & tainted for a in c.args):
                seen["join"] += 1
                x = var_of(c.args[0])
                res.ob(f"{fq}:joinpath({x})", 2)
                if x is None:
                    res.add("C22-GUARD", fq, f"join-arg:{text(c.args[0])[:30]}", f"{fq}: joins `{text(c.args[0])[:50]}`, which is not the checked path variable", f.file, c.lineno)
                    continue
                if ("nopardir", x) not in st:
                    res.add("C22-GUARD", fq, f"no-pardir-guard:{x}", f"{fq}: `{text(c)[:60]}` is reachable without `os.path.pardir in {x}.parts -> raise` on the current value of {x}: '../' names escape the search path", f.file, c.lineno)
                if ("relative", x) not in st:
                    res.add("C22-GUARD", fq, f"no-absolute-guard:{x}", f"{fq}: `{text(c)[:60]}` is reachable without `{x}.is_absolute() -> raise`: joining an absolute name discards the search path", f.file, c.lineno)
            if callee_name(c) == "with_suffix" and isinstance(call_recv(c), ast.Name):
                x = call_recv(c).id
                res.ob(f"{fq}:with_suffix({x})")
                if ("named", x) not in st:
                    res.add("C22-TOTAL", fq, f"with_suffix-unguarded:{x}", f"{fq}: `{text(c)[:50]}` raises ValueError for an empty name ('' or '.') — not dominated by `if not {x}.name: raise TemplateNotFoundError`", f.file, c.lineno)

    # If-tests whose true-branch does not raise must not generate facts: enforce by checking
    # that every If carrying a guard condition has a body that only raises.
    for st in walk_no_nested(node):
        if isinstance(st, ast.If) and gen_cond(st.test, False):
            res.ob(f"{fq}:guard:{text(st.test)[:40]}")
            if not (len(st.body) == 1 and isinstance(st.body[0], ast.Raise)) or st.orelse:
                res.add("C22-GUARD", fq, f"guard-not-raise:{text(st.test)[:40]}", f"{fq}: the traversal test `{text(st.test)[:60]}` must only raise TemplateNotFoundError", f.file, st.lineno)
    MustFlow(gen_cond=gen_cond, kill=kill, visit=visit).run(node)
    if not seen["join"]:
        raise AnchorMissing(f"{fq}: flow analysis did not reach the joinpath sink")

    # C22-TOTAL: raises and probes
    for st in walk_no_nested(node):
        if isinstance(st, ast.Raise):
            res.ob(f"{fq}:raise")
            e = st.exc.func if isinstance(st.exc, ast.Call) else st.exc
            if e is None or text(e) != "TemplateNotFoundError":
                res.add("C22-TOTAL", fq, f"raise:{text(st)[:40]}", f"{fq}: raises `{text(st)[:50]}`; only TemplateNotFoundError may leave the resolver", f.file, st.lineno)
    for c in calls(node):
        if callee_name(c) in PROBES and isinstance(c.func, ast.Attribute):
            res.ob(f"{fq}:{callee_name(c)}")
            caught = False
            for _t, hs in enclosing_try_handlers(node, c):
                for h in hs:
                    if any(t in ("OSError", "Exception", "EnvironmentError", "IOError") for t in handler_types(h)):
                        if not any(isinstance(x, ast.Raise) and x.exc is None for x in walk_no_nested(h)):
                            caught = True
            if not caught:
                res.add("C22-TOTAL", fq, f"probe-unguarded:{callee_name(c)}", f"{fq}: `{text(c)[:50]}` can raise OSError (e.g. ENAMETOOLONG) and is not inside try/except OSError", f.file, c.lineno)
    res.ob(f"{fq}:fallthrough")
    last = node.body[-1]
    # (or, the same thing after the search: `if <candidate> is None: raise TemplateNotFoundError`
    #  followed by the return of the candidate)
    tail_ok = (
        len(node.body) >= 2
        and isinstance(last, ast.Return)
        and isinstance(last.value, ast.Name)
        and isinstance(node.body[-2], ast.If)
        and text(node.body[-2].test) == f"{last.value.id} is None"
        and node.body[-2].body
        and isinstance(node.body[-2].body[-1], ast.Raise)
        and "TemplateNotFoundError" in text(node.body[-2].body[-1])
    )
    if not tail_ok and not (isinstance(last, ast.Raise) and "TemplateNotFoundError" in text(last)):
        res.add("C22-TOTAL", fq, "fallthrough", f"{fq}: must end with raise TemplateNotFoundError when no search path has the file", f.file, f.line)
    # returns: only the joined candidate
    joined_vars = set()
    for st in walk_no_nested(node):
        if isinstance(st, ast.Assign) and isinstance(st.value, ast.Call) and callee_name(st.value) == "joinpath":
            joined_vars |= {t.id for t in st.targets if isinstance(t, ast.Name)}
    # a name that only ever receives a joined candidate (or the None it starts with) is one
    changed_j = True
    while changed_j:
        changed_j = False
        by_name: dict = {}
        for st in walk_no_nested(node):
            if isinstance(st, ast.Assign) and len(st.targets) == 1 and isinstance(st.targets[0], ast.Name):
                by_name.setdefault(st.targets[0].id, []).append(st.value)
        for nm, vals in by_name.items():
            if nm not in joined_vars and any(isinstance(v, ast.Name) and v.id in joined_vars for v in vals) and all((isinstance(v, ast.Name) and v.id in joined_vars) or (isinstance(v, ast.Constant) and v.value is None) for v in vals):
                joined_vars.add(nm)
                changed_j = True
    for st in walk_no_nested(node):
        if isinstance(st, ast.Return):
            res.ob(f"{fq}:return")
            if not (isinstance(st.value, ast.Name) and st.value.id in joined_vars):
                res.add("C22-GUARD", fq, f"return:{text(st.value)[:30] if st.value else None}", f"{fq}: returns `{text(st.value)[:40] if st.value else None}`, not the guarded `base.joinpath(name)` candidate", f.file, st.lineno)
    return f, joined_vars


def run(repo: Repo) -> Result:
    res = Result(PID)
    res.rules = ["C22-GUARD", "C22-SYMLINK", "C22-READ", "C22-TOTAL", "C22-CONFIG"]
    res.explanation = "taint/dominance: traversal guards dominate every join of a name-derived path onto a search directory; only not-found escapes the resolvers"
    res.assumptions = [
        "pathlib/importlib.resources: a relative path without '..' joined to a base stays below it",
        "symlink clause only with reject_symlinks=True (as the property states)",
        "errors while *reading* a resolved file (decode errors, races) are outside 'a name that cannot be resolved'",
    ]
    fs, fs_joined = _check_resolver(repo, res, f"{FS}.resolve_path")
    pk, _ = _check_resolver(repo, res, f"{PK}._resolve_path")

    # ---- C22-SYMLINK ----------------------------------------------------------
    # Read on path conditions (sa/guards.py): every `return <candidate>` of resolve_path is reached
    # under a condition C with  C and self.reject_symlinks  =>  contained(candidate, base), where
    # `contained` is `<candidate>.resolve().is_relative_to(<base>.resolve())` — written in place
    # (through locals) or in a helper predicate that does exactly that with its two parameters.
    from ..guards import exits as _exits

    node = fs.node
    res.ob(f"{fs.qual}:symlink", 2)
    loop_var = next((n.target.id for n in walk_no_nested(node) if isinstance(n, ast.For) and isinstance(n.target, ast.Name)), None)
    binds = {}
    for st in ast.walk(node):
        if isinstance(st, ast.Assign) and len(st.targets) == 1 and isinstance(st.targets[0], ast.Name) and isinstance(st.value, ast.Call) and callee_name(st.value) == "resolve" and isinstance(call_recv(st.value), ast.Name):
            binds[st.targets[0].id] = call_recv(st.value).id

    def resolved_of(e, env):
        """the variable whose .resolve() the expression is (through `env` locals)"""
        if isinstance(e, ast.Name):
            return env.get(e.id)
        if isinstance(e, ast.Call) and callee_name(e) == "resolve" and isinstance(call_recv(e), ast.Name):
            return call_recv(e).id
        return None

    def helper_contains(call):
        """H(a, b) where every non-constant return of H is P.resolve().is_relative_to(Q.resolve()):
        -> (argument for P, argument for Q)"""
        nm = callee_name(call)
        target = repo.find_method(fs.cls, nm) if isinstance(call.func, ast.Attribute) and fs.cls is not None else fs.module.functions.get(nm)
        if target is None:
            return None
        hb = {}
        for st in ast.walk(target.node):
            if isinstance(st, ast.Assign) and len(st.targets) == 1 and isinstance(st.targets[0], ast.Name) and isinstance(st.value, ast.Call) and callee_name(st.value) == "resolve" and isinstance(call_recv(st.value), ast.Name):
                hb[st.targets[0].id] = call_recv(st.value).id
        params = [p for p in target.params() if p not in ("self", "cls")]
        found = None
        for r in ast.walk(target.node):
            if not isinstance(r, ast.Return) or r.value is None:
                continue
            v = r.value
            if isinstance(v, ast.Constant) and v.value is False:
                continue
            if isinstance(v, ast.Call) and callee_name(v) == "is_relative_to" and v.args:
                p_, q_ = resolved_of(call_recv(v), hb), resolved_of(v.args[0], hb)
                if p_ in params and q_ in params:
                    found = (p_, q_)
                    continue
            return None
        if found is None:
            return None
        args = {p: a for p, a in zip(params, call.args)}
        for k in call.keywords:
            args[k.arg] = k.value
        pa, qa = args.get(found[0]), args.get(found[1])
        return (pa.id, qa.id) if isinstance(pa, ast.Name) and isinstance(qa, ast.Name) else None

    def contains_atom(e):
        """-> (candidate var, base var) if ``e`` asserts containment"""
        if isinstance(e, ast.Call) and callee_name(e) == "is_relative_to" and e.args:
            c_, b_ = resolved_of(call_recv(e), binds), resolved_of(e.args[0], binds)
            return (c_, b_) if c_ and b_ else None
        if isinstance(e, ast.Call):
            return helper_contains(e)
        return None

    def implies_contained(c, cand) -> bool:
        """(c and self.reject_symlinks) => contained(cand, <loop base>)"""
        if isinstance(c, ast.BoolOp) and isinstance(c.op, ast.Or):
            live = [v for v in c.values if not (isinstance(v, ast.UnaryOp) and isinstance(v.op, ast.Not) and is_self_attr(v.operand, "reject_symlinks"))]
            return bool(live) and all(implies_contained(v, cand) for v in live)
        if isinstance(c, ast.BoolOp) and isinstance(c.op, ast.And):
            return any(implies_contained(v, cand) for v in c.values)
        at = contains_atom(c)
        return at is not None and at[0] == cand and at[1] == loop_var

    rets = [e for e in _exits(node, resolve_locals=False) if e.kind == "return" and isinstance(e.node.value, ast.Name) and e.node.value.id in fs_joined]
    if not rets:
        res.add("C22-SYMLINK", fs.qual, "no-branch", "resolve_path returns no joined candidate", fs.file, fs.line)
    mentions = any(isinstance(n, ast.Attribute) and is_self_attr(n, "reject_symlinks") for n in ast.walk(node))
    if not mentions:
        res.add("C22-SYMLINK", fs.qual, "no-branch", "resolve_path never consults self.reject_symlinks", fs.file, fs.line)
    from ..guards import conditions as _conds22

    cond_at = {id(st): cs for st, cs in _conds22(node)}
    for e in rets:
        cand = e.node.value.id
        # the returned name may be a copy of the loop's candidate (`found = candidate` in the loop,
        # `return found` after it): containment must then hold where the copy is made
        copies = [st for st in walk_no_nested(node) if isinstance(st, ast.Assign) and len(st.targets) == 1 and is_name(st.targets[0], cand) and isinstance(st.value, ast.Name) and st.value.id in fs_joined and st.value.id != cand]
        if copies:
            for st in copies:
                if not any(implies_contained(c, st.value.id) for c in cond_at.get(id(st), [])):
                    res.add("C22-SYMLINK", fs.qual, "is_relative_to", f"with reject_symlinks the candidate `{st.value.id}` must be accepted only if candidate.resolve().is_relative_to(base.resolve())", fs.file, st.lineno)
            continue
        if not any(implies_contained(c, cand) for c in e.conds):
            res.add("C22-SYMLINK", fs.qual, "is_relative_to", f"with reject_symlinks the candidate `{cand}` must be returned only if candidate.resolve().is_relative_to(base.resolve()) (conditions at the return: {e.canon})", fs.file, e.node.lineno)

    # ---- C22-READ ---------------------------------------------------------------
    READS = {"open", "read_text", "read_bytes", "read"}
    loaders = [repo.cls(FS), repo.cls(PK)] + [c for c in repo.subclasses(FS, strict=True)] + [c for c in repo.subclasses(PK, strict=True)]
    for c in loaders:
        for m in ("get_source", "get_source_async"):
            f = repo.find_method(c, m)
            if f is None:
                raise AnchorMissing(f"{c.qual}.{m} not found")
            if f.cls.qual not in (FS, PK):
                res.ob(f"{c.qual}.{m}:inherits")
                if f.cls.qual == "liquid.loader.BaseLoader":
                    continue
                res.add("C22-READ", c.qual, f"{m}:overridden-by:{f.cls.name}", f"{c.qual}.{m} is provided by {f.cls.qual}; it must be re-reviewed for confinement", c.file, c.node.lineno)
                continue
            res.ob(f"{c.qual}.{m}")
            resolver = "resolve_path" if f.cls.qual == FS else "_resolve_path"
            from ..normalize import nfunc as _nf22r

            # private read helpers (`self._read_source(path)`) inlined; the resolvers themselves stay calls
            f = _nf22r(repo, f, keep=("resolve_path", "_resolve_path", "_read"), aliases=False)
            # names bound from the resolver
            safe = set()
            for st in walk_no_nested(f.node):
                if isinstance(st, ast.Assign) and len(st.targets) == 1 and isinstance(st.targets[0], ast.Name):
                    v = unwrap_await(st.value)
                    if isinstance(v, ast.Call):
                        direct = callee_name(v) == resolver and is_self_attr(v.func)
                        via_exec = callee_name(v) == "run_in_executor" and len(v.args) >= 3 and is_self_attr(v.args[1], resolver)
                        if direct or via_exec:
                            safe.add(st.targets[0].id)
            if not safe:
                res.add("C22-READ", f.qual, "no-resolver", f"{f.qual} does not obtain its path from self.{resolver}", f.file, f.line)
                continue
            for call in calls(f.node):
                nm = callee_name(call)
                if nm in READS or nm in ("_read", "Path", "joinpath"):
                    recv = call_recv(call) if isinstance(call.func, ast.Attribute) else None
                    arg0 = call.args[0] if call.args else None
                    ok = (
                        (isinstance(recv, ast.Name) and recv.id in safe)
                        or (nm == "_read" and isinstance(arg0, ast.Name) and arg0.id in safe)
                    )
                    if not ok:
                        res.add("C22-READ", f.qual, f"{nm}:{text(call)[:30]}", f"{f.qual}: `{text(call)[:60]}` touches a path that did not come from self.{resolver}", f.file, call.lineno)
                if nm == "run_in_executor" and len(call.args) >= 2:
                    target = call.args[1]
                    rest = call.args[2:]
                    private_reader = isinstance(target, ast.Attribute) and is_name(target.value, "self") and target.attr.startswith("_read")
                    if private_reader or (isinstance(target, ast.Attribute) and target.attr in READS):
                        src = rest[0] if private_reader and rest else (target.value if isinstance(target, ast.Attribute) else None)
                        if not (isinstance(src, ast.Name) and src.id in safe):
                            res.add("C22-READ", f.qual, f"executor:{text(call)[:30]}", f"{f.qual}: `{text(call)[:60]}` reads a path that did not come from self.{resolver}", f.file, call.lineno)
            res.sample({"rule": "C22-READ", "function": f.qual, "resolved_vars": sorted(safe)})
    # ---- C22-CONFIG -------------------------------------------------------------
    # "cached or not": the confinement options a loader's resolver reads (search path, ext,
    # reject_symlinks, package paths ...) must reach it — the base constructor stores every
    # option under its own name, and every subclass constructor that takes an option of the same
    # name hands it on to the base constructor under that name.
    for base_q, resolver in ((FS, "resolve_path"), (PK, "_resolve_path")):
        base = repo.cls(base_q)
        init = base.methods.get("__init__")
        if init is None:
            raise AnchorMissing(f"{base_q}.__init__ not found")
        bparams = [p for p in init.params() if p != "self"]
        rs = repo.own_method(base_q, resolver)
        read_attrs = {n.attr for n in ast.walk(rs.node) if isinstance(n, ast.Attribute) and is_name(n.value, "self") and isinstance(n.ctx, ast.Load)}
        stores = {}
        for st in walk_no_nested(init.node):
            if isinstance(st, ast.Assign) and len(st.targets) == 1 and isinstance(st.targets[0], ast.Attribute) and is_name(st.targets[0].value, "self"):
                stores[st.targets[0].attr] = st.value
        for p in bparams:
            if p in read_attrs or p in stores:
                res.ob(f"config:{base.name}.{p}")
                v = stores.get(p)
                if v is None or p not in names_in(v):
                    res.add("C22-CONFIG", init.qual, f"store:{p}", f"{init.qual} does not store its `{p}` option as self.{p} (found `{text(v)[:40] if v is not None else 'nothing'}`), which {resolver} reads", init.file, init.line)
        for c in repo.subclasses(base_q, strict=True):
            ci = c.methods.get("__init__")
            if ci is None:
                continue
            cparams = [p for p in ci.params() if p != "self"]
            fwd = [call for call in calls(ci.node) if callee_name(call) == "__init__" and isinstance(call.func, ast.Attribute) and (text(call_recv(call)) == base.name or (isinstance(call_recv(call), ast.Call) and is_name(call_recv(call).func, "super")))]
            # the call that reaches the base constructor: an explicit Base.__init__(self, ...) wins
            explicit = [call for call in fwd if text(call_recv(call)) == base.name]
            target = explicit[0] if explicit else (fwd[0] if fwd else None)
            for p in bparams:
                if p not in cparams:
                    continue
                res.ob(f"config:{c.name}.{p}")
                if target is None:
                    res.add("C22-CONFIG", ci.qual, f"forward:{p}:no-base-init", f"{ci.qual} takes `{p}` but never calls {base.name}.__init__", ci.file, ci.line)
                    continue
                args = list(target.args)
                if explicit and args and is_name(args[0], "self"):
                    args = args[1:]
                passed = None
                for k in target.keywords:
                    if k.arg == p:
                        passed = k.value
                if passed is None and bparams.index(p) < len(args):
                    passed = args[bparams.index(p)]
                if passed is None or not is_name(passed, p):
                    res.add(
                        "C22-CONFIG",
                        ci.qual,
                        f"forward:{p}",
                        f"{ci.qual} accepts `{p}` but passes `{text(passed) if passed is not None else 'nothing'}` for it to {base.name}.__init__: the {c.name} variant silently runs with the default (for reject_symlinks: symlinks out of the search path are followed)",
                        ci.file,
                        target.lineno,
                    )
    rd = repo.own_method(FS, "_read")
    res.ob(rd.qual)
    p = [x for x in rd.params() if x != "self"][0]
    for call in calls(rd.node):
        if callee_name(call) in ("open", "stat", "read_text") and isinstance(call.func, ast.Attribute):
            if not is_name(call_recv(call), p):
                res.add("C22-READ", rd.qual, f"{callee_name(call)}", f"_read opens `{text(call_recv(call))}`, not the path it was given", rd.file, call.lineno)
    return res


def selftest(repo: Repo):
    from ..selftest import Variant, text_edit

    def v(name, rel, old, new, expect, count=1):
        return lambda: Variant(name, text_edit(repo, rel, old, new, count), expect)

    F = "liquid/builtin/loaders/file_system_loader.py"
    P = "liquid/builtin/loaders/package_loader.py"
    return [
        v("fs-drop-pardir", F, "if os.path.pardir in template_path.parts or template_path.is_absolute():", "if template_path.is_absolute():", "no-pardir-guard"),
        v("fs-drop-absolute", F, "if os.path.pardir in template_path.parts or template_path.is_absolute():", "if os.path.pardir in template_path.parts:", "no-absolute-guard"),
        v("pk-drop-absolute", P, "if os.path.pardir in template_path.parts or template_path.is_absolute():", "if os.path.pardir in template_path.parts:", "no-absolute-guard"),
        v("fs-guard-on-stale-value", F, "        if os.path.pardir in template_path.parts or template_path.is_absolute():\n            raise TemplateNotFoundError(template_name)\n", "        if os.path.pardir in template_path.parts or template_path.is_absolute():\n            raise TemplateNotFoundError(template_name)\n        template_path = Path(template_name.replace('~', '..'))\n", "C22-GUARD"),
        v("fs-guard-warns-only", F, "        if os.path.pardir in template_path.parts or template_path.is_absolute():\n            raise TemplateNotFoundError(template_name)\n", "        if os.path.pardir in template_path.parts or template_path.is_absolute():\n            pass\n", "C22-GUARD"),
        v("fs-join-raw-name", F, "source_path = base.joinpath(template_path)", "source_path = base.joinpath(template_name)", "C22-GUARD"),
        v("fs-symlink-check-dropped", F, "                if not resolved.is_relative_to(base_resolved):\n                    continue\n", "", "C22-SYMLINK"),
        v("fs-symlink-wrong-base", F, "base_resolved = base.resolve(strict=False)", "base_resolved = source_path.parent.resolve(strict=False)", "C22-SYMLINK"),
        v("fs-probe-unguarded", F, "            try:\n                if not source_path.exists() or not source_path.is_file():\n                    continue\n            except OSError:\n                # For example, ENAMETOOLONG. There is no such template.\n                continue\n", "            if not source_path.exists() or not source_path.is_file():\n                continue\n", "probe-unguarded"),
        v("pk-empty-name", P, "        if not template_path.name:\n            raise TemplateNotFoundError(template_name)\n", "", "with_suffix-unguarded"),
        v("fs-raises-valueerror", F, "        raise TemplateNotFoundError(template_name)\n\n    def _read", "        raise ValueError(template_name)\n\n    def _read", "C22-TOTAL"),
        v("get_source-reads-name", F, "        source_path = self.resolve_path(template_name)\n        source, mtime = self._read(source_path)", "        source_path = self.resolve_path(template_name)\n        source, mtime = self._read(Path(template_name))", "C22-READ"),
        v("async-bypasses-resolver", P, "        source_path = await loop.run_in_executor(\n            None,\n            self._resolve_path,\n            template_name,\n        )", "        source_path = self.paths[0].joinpath(template_name)", "C22-READ"),
        v("fs-div-join", F, "source_path = base.joinpath(template_path)", "source_path = base.joinpath(template_path)\n            alt = base / template_name", "div-join"),
    ]
