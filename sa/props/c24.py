"""C24 — LRU caches behave as bounded least-recently-used maps (clauses).

  C24-LOCK   every method of ``LRUCache`` that touches ``self._cache`` is overridden in
             ``ThreadSafeLRUCache`` with its access inside ``with self._lock`` — or only calls
             overridden methods (``get`` -> ``self[key]``) — so no shared-map access happens
             outside the lock.  ``__len__`` (one atomic ``len`` under the GIL) is accepted.
  C24-EAGER  an override whose base method returns a lazy view over the map (``reversed``,
             ``iter``, a generator) materialises it (``list(...)``) while the lock is held —
             listing keys/values/items or iterating cannot observe a concurrent mutation.
  C24-PRESENCE a key is present iff it is in the map: ``get`` reaches a present key through
             ``self[key]`` / the base ``get`` (KeyError -> default) and no method reads the map
             with ``_cache.get`` / ``pop(k, d)`` / ``setdefault`` (value-based presence).
  C24-ORDER  cheap necessary conditions of the sequential semantics: a read moves the key to
             the recent end; a write of an existing key moves it, a write of a new key evicts
             ``popitem(last=False)`` iff ``len(cache) >= capacity`` before inserting; listing
             is ``reversed`` (most recent first); the capacity must be >= 1.
  C24-USE    the caching loaders build ``ThreadSafeLRUCache`` when ``thread_safe`` is requested.
Not decided: the full sequential LRU semantics over operation histories (value level).
"""

from __future__ import annotations

import ast

from ..astutil import call_recv, attr_chain, callee_name, calls, is_name, is_self_attr, text
from ..core import Result
from ..model import AnchorMissing, Repo, walk_no_nested

PID = "C24"
MIN_OBLIGATIONS = 20
BASE = "liquid.utils.lru_cache.LRUCache"
SAFE = "liquid.utils.lru_cache.ThreadSafeLRUCache"
LAZY = {"reversed", "iter", "map", "filter", "zip", "enumerate"}


def touches_cache(fn) -> bool:
    return any(attr_chain(n) == ["self", "_cache"] for n in ast.walk(fn))


def run(repo: Repo) -> Result:
    res = Result(PID)
    res.rules = ["C24-LOCK", "C24-EAGER", "C24-PRESENCE", "C24-ORDER", "C24-USE"]
    res.explanation = "lock coverage of every shared-map access, eager materialisation of lazy views under the lock, and structural necessary conditions of LRU order"
    res.assumptions = ["a single len() of an OrderedDict is atomic under the GIL", "sequential LRU semantics over histories are value-level"]
    base, safe = repo.cls(BASE), repo.cls(SAFE)
    if not repo.is_subclass(safe, BASE):
        raise AnchorMissing("ThreadSafeLRUCache does not derive from LRUCache")
    lazy_base = {}
    n = 0
    for name, f in base.methods.items():
        if name == "__init__" or any("overload" in d for d in f.decorators()):
            continue
        if not touches_cache(f.node):
            # delegates to other methods of self: fine if those are overridden
            continue
        n += 1
        rets = [s for s in walk_no_nested(f.node) if isinstance(s, ast.Return) and s.value is not None]
        is_lazy = any(isinstance(r.value, ast.Call) and callee_name(r.value) in LAZY for r in rets) or any(isinstance(x, (ast.Yield, ast.YieldFrom)) for x in ast.walk(f.node))
        lazy_base[name] = is_lazy
        res.ob(f"lock:{name}")
        o = safe.methods.get(name)
        if o is None or any("overload" in d for d in o.decorators()):
            if name == "__len__":
                continue
            res.add("C24-LOCK", SAFE, f"not-overridden:{name}", f"ThreadSafeLRUCache inherits LRUCache.{name}, which touches the shared map without the lock" + (" and hands out a lazy view of it" if is_lazy else ""), safe.file, safe.node.lineno)
            continue
        # (a private helper that takes the lock for its callers — `self._snapshot(super().keys)` — is
        #  inlined first: sa/normalize.py)
        from ..normalize import nfunc

        o = nfunc(repo, o, aliases=False)
        # every super().<m>() / self._cache access must be inside `with self._lock`
        locked_nodes = set()
        for w in ast.walk(o.node):
            if isinstance(w, ast.With) and any(attr_chain(it.context_expr) == ["self", "_lock"] for it in w.items):
                for x in ast.walk(w):
                    locked_nodes.add(id(x))
        for c in calls(o.node):
            is_super = isinstance(c.func, ast.Attribute) and isinstance(call_recv(c), ast.Call) and callee_name(call_recv(c)) == "super"
            if is_super and id(c) not in locked_nodes:
                res.add("C24-LOCK", o.qual, f"unlocked:{text(c)[:30]}", f"{o.qual}: `{text(c)[:40]}` runs outside `with self._lock`", o.file, c.lineno)
        for x in ast.walk(o.node):
            if attr_chain(x) == ["self", "_cache"] and id(x) not in locked_nodes:
                res.add("C24-LOCK", o.qual, "unlocked:_cache", f"{o.qual} touches self._cache outside `with self._lock`", o.file, x.lineno)
        if not any(isinstance(w, ast.With) and any(attr_chain(it.context_expr) == ["self", "_lock"] for it in w.items) for w in ast.walk(o.node)):
            # may delegate to locked methods only (get -> self[key])
            if any(is_self_attr(c.func) or (isinstance(c.func, ast.Attribute) and isinstance(call_recv(c), ast.Call)) for c in calls(o.node)):
                res.add("C24-LOCK", o.qual, "no-lock", f"{o.qual} never takes the lock", o.file, o.line)
        # C24-EAGER
        if is_lazy:
            res.ob(f"eager:{name}")
            ok = False
            for r in (s for s in ast.walk(o.node) if isinstance(s, ast.Return) and s.value is not None):
                v = r.value
                # iter(list(super().m())) / list(super().m()) / tuple(...)
                inner = v
                if isinstance(inner, ast.Call) and callee_name(inner) == "iter" and inner.args:
                    inner = inner.args[0]
                if isinstance(inner, ast.Call) and callee_name(inner) in ("list", "tuple") and inner.args and id(r) in locked_nodes:
                    ok = True
            if not ok:
                res.add("C24-EAGER", o.qual, "lazy-view", f"{o.qual} returns the base class's lazy view of the shared map; it is consumed after the lock is released, so a concurrent write raises 'OrderedDict mutated during iteration'", o.file, o.line)
    if n < 8:
        raise AnchorMissing(f"only {n} LRUCache methods touch the map")
    # methods that delegate (get): the overridden version must not touch the cache directly
    for name, f in safe.methods.items():
        if name in ("__init__",) or any("overload" in d for d in f.decorators()):
            continue
        res.ob(f"safe-method:{name}")
    # lock is created in __init__
    init = safe.methods.get("__init__")
    res.ob("lock-init")
    if init is None or "self._lock = Lock()" not in text(init.node) and "self._lock = RLock()" not in text(init.node):
        res.add("C24-LOCK", SAFE, "lock-init", "ThreadSafeLRUCache.__init__ must create self._lock", safe.file, safe.node.lineno)

    # ---- C24-PRESENCE: a key is present iff it is in the map — whatever its value -----------
    # `get` must find a present key through `self[key]` (KeyError = absent, and the read
    # refreshes recency) or an explicit membership test; deciding presence from the stored
    # *value* (`self._cache.get(key) is None`, truthiness) turns a cached None / falsy value
    # into a miss and skips the recency update.
    for cq in (BASE, SAFE):
        k = repo.cls(cq)
        for name, m in k.methods.items():
            pm_ = {}
            for n_ in ast.walk(m.node):
                for ch_ in ast.iter_child_nodes(n_):
                    pm_[id(ch_)] = n_
            for c in calls(m.node):
                if callee_name(c) in ("get", "pop", "setdefault") and isinstance(c.func, ast.Attribute) and attr_chain(call_recv(c)) == ["self", "_cache"] and (callee_name(c) != "pop" or len(c.args) > 1):
                    # handing the dict's own answer straight back (`return self._cache.get(key, default)`)
                    # is presence by key; the hazard is *testing* the value (is None / truthiness)
                    par = pm_.get(id(c))
                    if isinstance(par, ast.Return) and callee_name(c) in ("get", "pop") and name not in ("get", "__getitem__", "__contains__"):
                        continue  # (a removal has no recency to refresh; the dict decides presence by key)
                    res.add("C24-PRESENCE", m.qual, f"_cache.{callee_name(c)}", f"{m.qual} reads the map with `{text(c)[:50]}`: presence is then decided from the stored value, so a cached None is reported missing (and the read does not refresh recency)", m.file, c.lineno)
        g = k.methods.get("get")
        if g is None:
            continue
        res.ob(f"presence:{g.qual}")
        hit_via_getitem = any(isinstance(n, ast.Subscript) and is_name(n.value, "self") and isinstance(n.ctx, ast.Load) for n in ast.walk(g.node)) or any(callee_name(c) == "__getitem__" for c in calls(g.node))
        delegates = any(callee_name(c) == "get" and isinstance(call_recv(c), ast.Call) and callee_name(call_recv(c)) == "super" for c in calls(g.node))
        if not (hit_via_getitem or delegates):
            res.add("C24-PRESENCE", g.qual, "hit-path", f"{g.qual} must return a present key's value through self[key] (which refreshes recency) or delegate to the base get", g.file, g.line)
        for n in ast.walk(g.node):
            if isinstance(n, ast.Try) and any(isinstance(x, ast.Subscript) and is_name(x.value, "self") for b in n.body for x in ast.walk(b)):
                from ..astutil import handler_types as _ht

                hs = [t for h in n.handlers for t in _ht(h)]
                if hs != ["KeyError"]:
                    res.add("C24-PRESENCE", g.qual, f"handler:{hs}", f"{g.qual} must map exactly KeyError to the default", g.file, n.lineno)

    # ---- C24-ORDER ---------------------------------------------------------------
    gi = base.methods["__getitem__"]
    res.ob("order:getitem")
    if "self._cache.move_to_end(key)" not in text(gi.node) or "self._cache[key]" not in text(gi.node):
        res.add("C24-ORDER", gi.qual, "move_to_end", "LRUCache.__getitem__ must read self._cache[key] and move the key to the recent end", gi.file, gi.line)
    import copy as _copy

    from ..guards import canon as _canon
    from ..guards import conditions as _conditions
    from ..normalize import NFunc, propagate_aliases

    # `cache = self._cache` aliases propagated; conditions read as path conditions (sa/guards.py)
    si = NFunc(base.methods["__setitem__"], propagate_aliases(_copy.deepcopy(base.methods["__setitem__"].node)))
    res.ob("order:setitem", 3)
    ev = [c for c in calls(si.node) if callee_name(c) == "popitem"]
    if len(ev) != 1 or not any(k.arg == "last" and isinstance(k.value, ast.Constant) and k.value.value is False for k in ev[0].keywords):
        res.add("C24-ORDER", si.qual, "evict-oldest", "LRUCache.__setitem__ must evict with popitem(last=False) (the least recently used end)", si.file, si.line)
    cond_of = {}
    for st, cs in _conditions(si.node):
        if not hasattr(st, "body"):
            cond_of[id(st)] = [_canon(c) for c in cs]
    # statements inside `except KeyError:` of a try whose body is `self._cache.move_to_end(key)`
    # run exactly when the key is new
    in_new_key_handler = set()
    for n in ast.walk(si.node):
        if isinstance(n, ast.Try) and any(callee_name(c) == "move_to_end" for b_ in n.body for c in calls(b_)):
            for h in n.handlers:
                if h.type is not None and text(h.type) == "KeyError":
                    in_new_key_handler |= {id(x) for x in ast.walk(h)}
    ev_stmt = next((st for st, _ in _conditions(si.node) if not hasattr(st, "body") and ev and any(c is ev[0] for c in calls(st))), None)
    cs = cond_of.get(id(ev_stmt), []) if ev_stmt is not None else []
    cap = "len(self._cache) >= self.capacity"
    new_key = ("key not in self._cache" in cs) or (ev_stmt is not None and id(ev_stmt) in in_new_key_handler)
    if ev_stmt is None or cap not in cs:
        res.add("C24-ORDER", si.qual, f"capacity-test:{cs}", "eviction must happen iff len(self._cache) >= self.capacity before inserting a new key", si.file, si.line)
    elif [c for c in cs if c not in (cap, "key not in self._cache")]:
        res.add("C24-ORDER", si.qual, f"capacity-test:{cs}", f"eviction has extra conditions {[c for c in cs if c not in (cap, 'key not in self._cache')]}", si.file, si.line)
    if not new_key:
        res.add("C24-ORDER", si.qual, "evict-only-new", "an existing key must be moved to the recent end (no eviction); only a new key may evict", si.file, si.line)
    mv = [st for st, _ in _conditions(si.node) if not hasattr(st, "body") and any(callee_name(c) == "move_to_end" and c.args and is_name(c.args[0], "key") for c in calls(st))]
    if not mv or not all((cond_of.get(id(st), []) in ([], ["key in self._cache"])) for st in mv):
        res.add("C24-ORDER", si.qual, "evict-only-new", "an existing key must be moved to the recent end with move_to_end(key)", si.file, si.line)
    last = si.node.body[-1]
    if not isinstance(last, ast.Assign) or text(last) != "self._cache[key] = value":
        res.add("C24-ORDER", si.qual, "store", "__setitem__ must end with self._cache[key] = value", si.file, si.line)
    for m, want in (("__iter__", "reversed(self._cache)"), ("keys", "reversed(self._cache.keys())"), ("values", "reversed(self._cache.values())"), ("items", "reversed(self._cache.items())")):
        f = base.methods[m]
        res.ob(f"order:{m}")
        rets = [r for r in walk_no_nested(f.node) if isinstance(r, ast.Return)]
        if len(rets) != 1 or text(rets[0].value) != want:
            res.add("C24-ORDER", f.qual, "most-recent-first", f"LRUCache.{m} must return {want} (most to least recently used)", f.file, f.line)
    init = base.methods["__init__"]
    res.ob("order:capacity")
    from ..guards import canon as _canon

    cap = [p_ for p_ in init.params() if p_ != "self"][0] if len(init.params()) > 1 else "capacity"
    too_small = {_canon(ast.parse(f"{cap} < 1", mode="eval").body), _canon(ast.parse(f"{cap} <= 0", mode="eval").body), _canon(ast.parse(f"not {cap} >= 1", mode="eval").body)}
    rejects = any(isinstance(n, ast.If) and _canon(n.test) in too_small and n.body and isinstance(n.body[-1], ast.Raise) for n in ast.walk(init.node))
    if not rejects:
        res.add("C24-ORDER", init.qual, "capacity>=1", "LRUCache must reject a capacity below 1", init.file, init.line)
    dl = base.methods["__delitem__"]
    res.ob("order:delitem")
    if "del self._cache[key]" not in text(dl.node):
        res.add("C24-ORDER", dl.qual, "delete", "__delitem__ must delete exactly that key", dl.file, dl.line)

    # ---- C24-USE ------------------------------------------------------------------
    mix = repo.own_method("liquid.builtin.loaders.mixins.CachingLoaderMixin", "__init__")
    res.ob("use:mixin")
    t = text(mix.node)
    if "ThreadSafeLRUCache" not in t or "if thread_safe" not in t:
        res.add("C24-USE", mix.qual, "thread_safe", "CachingLoaderMixin must build a ThreadSafeLRUCache when thread_safe is requested", mix.file, mix.line)
    res.stats.update(map_touching_methods=n, lazy_methods=sorted(k for k, v in lazy_base.items() if v))
    return res


def selftest(repo: Repo):
    from ..selftest import Variant, text_edit

    def v(name, rel, old, new, expect, count=1):
        return lambda: Variant(name, text_edit(repo, rel, old, new, count), expect)

    P = "liquid/utils/lru_cache.py"
    return [
        v("get-treats-none-as-miss", P, "        try:\n            return self[key]\n        except KeyError:\n            return default\n\n    def keys(self) -> Iterator[_KT]:\n        \"\"\"Return an iterator over this cache's keys.\"\"\"\n        return reversed(self._cache.keys())", "        value = self._cache.get(key)\n        if value is None:\n            return default\n        self._cache.move_to_end(key)\n        return value\n\n    def keys(self) -> Iterator[_KT]:\n        \"\"\"Return an iterator over this cache's keys.\"\"\"\n        return reversed(self._cache.keys())", "C24-PRESENCE"),
        v("keys-lazy", P, "            return iter(list(super().keys()))", "            return super().keys()", "C24-EAGER"),
        v("iter-not-overridden", P, "    def __iter__(self) -> Iterator[_KT]:\n        with self._lock:\n            return iter(list(super().__iter__()))\n", "", "not-overridden:__iter__"),
        v("setitem-unlocked", P, "        with self._lock:\n            return super().__setitem__(key, value)", "        return super().__setitem__(key, value)", "C24-LOCK"),
        v("contains-unlocked", P, "        with self._lock:\n            return super().__contains__(key)", "        return super().__contains__(key)", "C24-LOCK"),
        v("list-after-lock", P, "        with self._lock:\n            return iter(list(super().items()))", "        with self._lock:\n            view = super().items()\n        return iter(list(view))", "C24-EAGER"),
        v("evict-newest", P, "self._cache.popitem(last=False)", "self._cache.popitem(last=True)", "C24-ORDER"),
        v("capacity-off-by-one", P, "if len(self._cache) >= self.capacity:", "if len(self._cache) > self.capacity:", "C24-ORDER"),
        v("read-does-not-touch", P, "        self._cache.move_to_end(key)\n        return value", "        return value", "C24-ORDER"),
        v("oldest-first-listing", P, "        return reversed(self._cache.keys())", "        return iter(self._cache.keys())", "C24-ORDER"),
        v("evict-on-update", P, "        try:\n            self._cache.move_to_end(key)\n        except KeyError:\n            if len(self._cache) >= self.capacity:\n                self._cache.popitem(last=False)", "        if len(self._cache) >= self.capacity:\n            self._cache.popitem(last=False)", "C24-ORDER"),
        v("loader-ignores-thread_safe", "liquid/builtin/loaders/mixins.py", "            ThreadSafeLRUCache[str, \"BoundTemplate\"](capacity=capacity)\n            if thread_safe\n            else LRUCache[str, \"BoundTemplate\"](capacity=capacity)", "            LRUCache[str, \"BoundTemplate\"](capacity=capacity)", "C24-USE"),
    ]
