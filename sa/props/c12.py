"""C12 — conditions follow Liquid truthiness and operator rules (clauses).

  C12-TABLE   ``BINARY_OPERATORS`` ⊆ keys of ``PRECEDENCES``; each binary operator has exactly
              one branch in ``parse_infix_expression`` and that branch builds the expression
              class of that operator as ``Cls(token, left, parse_boolean_primitive(env,
              stream, precedence))``.
  C12-ASSOC   ``and`` and ``or`` share one precedence constant, lower than the comparison and
              membership operators and higher than the closing parenthesis; the Pratt loop
              stops only when the next operator binds *strictly* less (``<``), which makes
              equal-precedence chains group from the right; parentheses are parsed by
              ``parse_grouped_expression`` and gated by ``logical_parentheses``.
  C12-ORDER   each comparison class calls its comparator with the operand order its symbol
              means — ``<``: _lt(l, r); ``>``: _lt(r, l); ``<=``: _eq(l, r) or _lt(l, r);
              ``>=``: _eq(l, r) or _lt(r, l); ``==``: _eq(l, r); ``!=``: not _eq(l, r);
              ``contains``: _contains(l, r) — identically in ``evaluate`` and ``evaluate_async``.
  C12-TRUTHY  ``is_truthy`` is ``not (obj is False or obj is None)`` after unwrapping
              ``__liquid__`` and mapping undefined to false — never Python truthiness; the
              logical and/or/not classes and ``BooleanExpression`` go through ``is_truthy``;
              every ``if <expr>.evaluate*(context)`` in a node or expression tests a field that
              the parser fills from ``BooleanExpression.parse``.
  C12-TYPEERR ``_lt`` ends in ``raise LiquidTypeError`` for every operand pair it does not
              order, and booleans are excluded before numbers.
  C12-KINDS   (path-sensitive kind inference) Python's ``==`` between the operands of ``_eq`` is
              reachable only when neither operand can be a bool or both are bools; Python's
              ``<`` in ``_lt`` only with two strings or two non-bool numbers.
  C12-FALSY   (path-sensitive kind inference) with a nil / undefined operand on either side,
              every feasible exit of ``_contains`` is ``return False``.
Not decided: the remaining value tables of _eq / _contains / empty / blank for particular operands.
"""

from __future__ import annotations

import ast

from ..astutil import call_recv, attr_chain, bind_args, callee_name, calls, is_name, text, unwrap_await
from ..core import Result
from ..model import AnchorMissing, Repo, fold_str, walk_no_nested

PID = "C12"
MIN_OBLIGATIONS = 40
L = "liquid.builtin.expressions.logical"

EXPECT_CLASS = {
    "TOKEN_EQ": "EqExpression",
    "TOKEN_LT": "LtExpression",
    "TOKEN_GT": "GtExpression",
    "TOKEN_NE": "NeExpression",
    "TOKEN_LG": "NeExpression",
    "TOKEN_LE": "LeExpression",
    "TOKEN_GE": "GeExpression",
    "TOKEN_CONTAINS": "ContainsExpression",
    "TOKEN_AND": "LogicalAndExpression",
    "TOKEN_OR": "LogicalOrExpression",
}
# normalised evaluate bodies (L = left operand value, R = right operand value)
EXPECT_EVAL = {
    "EqExpression": "_eq(L, R)",
    "NeExpression": "not _eq(L, R)",
    "LtExpression": "_lt(T, L, R)",
    "GtExpression": "_lt(T, R, L)",
    "LeExpression": "_eq(L, R) or _lt(T, L, R)",
    "GeExpression": "_eq(L, R) or _lt(T, R, L)",
    "ContainsExpression": "_contains(T, L, R)",
    "LogicalAndExpression": "is_truthy(L) and is_truthy(R)",
    "LogicalOrExpression": "is_truthy(L) or is_truthy(R)",
}


CMP_HELPERS = ("_eq", "_lt", "_contains", "is_truthy")


def _normalize(repo, f, **kw):
    from ..normalize import normalize

    return normalize(repo, f, **kw)


def _norm_eval(fn_node, ev: str) -> str:
    """Reduce an evaluate body to a formula over L, R, T."""
    env = {}

    def boolish(e) -> bool:
        if isinstance(e, ast.UnaryOp) and isinstance(e.op, ast.Not):
            return True
        if isinstance(e, ast.Compare):
            return True
        if isinstance(e, ast.BoolOp):
            return all(boolish(v) for v in e.values)
        x = e.value if isinstance(e, ast.Await) else e
        return isinstance(x, ast.Call) and callee_name(x) in ("is_truthy", "_eq", "_lt", "_contains", "isinstance", "bool")

    def fold(body):
        """the value a statement list returns, early returns folded into and/or/conditional"""
        body = [st for st in body if not (isinstance(st, ast.Expr) and isinstance(st.value, ast.Constant))]
        if not body:
            return None
        st = body[0]
        if isinstance(st, ast.Assign) and len(st.targets) == 1 and isinstance(st.targets[0], ast.Name):
            env[st.targets[0].id] = st.value
            return fold(body[1:])
        if isinstance(st, ast.Return):
            return st.value
        if isinstance(st, ast.If):
            a = fold(st.body)
            b = fold(st.orelse) if st.orelse else fold(body[1:])
            if a is None or b is None:
                return None
            t = st.test
            neg = isinstance(t, ast.UnaryOp) and isinstance(t.op, ast.Not)
            pos = t.operand if neg else t
            # `if not X: return False; return Y` is `X and Y`, `if X: return True; return Y` is
            # `X or Y` — for X that are booleans already (is_truthy(..), comparisons)
            if boolish(pos) and boolish(b):
                if neg and isinstance(a, ast.Constant) and a.value is False:
                    return ast.BoolOp(op=ast.And(), values=[pos, b])
                if not neg and isinstance(a, ast.Constant) and a.value is True:
                    return ast.BoolOp(op=ast.Or(), values=[pos, b])
            return ast.IfExp(test=t, body=a, orelse=b)
        return None

    ret = fold(list(fn_node.body))
    if ret is None:
        bad = next((st for st in fn_node.body if not isinstance(st, (ast.Assign, ast.Return, ast.If)) and not (isinstance(st, ast.Expr) and isinstance(st.value, ast.Constant))), None)
        return f"<unsupported statement {text(bad)[:40]}>" if bad is not None else "<no return>"

    class S(ast.NodeTransformer):
        def visit_Await(self, n):
            return self.visit(n.value)

        def visit_Name(self, n):
            if n.id in env:
                return self.visit(env[n.id])
            return n

        def visit_Call(self, n):
            n = self.generic_visit(n)
            if isinstance(n.func, ast.Attribute) and n.func.attr in ("evaluate", "evaluate_async") and len(n.args) == 1 and is_name(n.args[0], "context"):
                ch = attr_chain(call_recv(n))
                if ch == ["self", "left"]:
                    return ast.Name("L", ast.Load())
                if ch == ["self", "right"]:
                    return ast.Name("R", ast.Load())
            return n

        def visit_Attribute(self, n):
            if attr_chain(n) == ["self", "token"]:
                return ast.Name("T", ast.Load())
            return self.generic_visit(n)

    import copy

    out = S().visit(copy.deepcopy(ret))
    return text(out)


def run(repo: Repo) -> Result:
    res = Result(PID)
    res.rules = ["C12-TABLE", "C12-ASSOC", "C12-ORDER", "C12-TRUTHY", "C12-TYPEERR", "C12-KINDS", "C12-FALSY"]
    res.explanation = "operator tables, Pratt loop shape, comparator operand order and truthiness discipline decided on the AST of liquid.builtin.expressions.logical and the nodes that branch on conditions"
    res.assumptions = ["value tables of _eq/_lt/_contains/empty/blank are not decided"]
    mod = repo.module(L)
    prec = mod.assigns.get("PRECEDENCES")
    binops = mod.assigns.get("BINARY_OPERATORS")
    if not isinstance(prec, ast.Dict) or binops is None:
        raise AnchorMissing("PRECEDENCES / BINARY_OPERATORS not found")
    prec_map = {}
    for k, v in zip(prec.keys, prec.values):
        val = mod.assigns.get(text(v))
        if not (isinstance(val, ast.Constant) and isinstance(val.value, int)):
            raise AnchorMissing(f"precedence constant {text(v)} is not an int literal")
        prec_map[text(k)] = (text(v), val.value)
    bo = binops.args[0] if isinstance(binops, ast.Call) and binops.args else binops
    if not isinstance(bo, (ast.List, ast.Tuple, ast.Set)):
        raise AnchorMissing("BINARY_OPERATORS is not a literal collection")
    bin_names = [text(e) for e in bo.elts]

    # ---- C12-TABLE -----------------------------------------------------------
    for b in bin_names:
        res.ob(f"binop:{b}")
        if b not in prec_map:
            res.add("C12-TABLE", f"{L}.PRECEDENCES", f"missing:{b}", f"{b} is a binary operator without a precedence: the Pratt loop treats it as lowest precedence", mod.relpath, prec.lineno)
        if b not in EXPECT_CLASS:
            res.add("C12-TABLE", f"{L}.BINARY_OPERATORS", f"unknown:{b}", f"binary operator {b} has no known expression class", mod.relpath, binops.lineno)
    from ..normalize import NFunc as _NFn
    from ..normalize import rename_by_definition as _rename_by_definition

    pie0 = repo.func(f"{L}.parse_infix_expression")
    # locals named after their definitions: the operator token taken from the stream is `token`,
    # its binding power looked up in PRECEDENCES is `precedence`
    pie = _NFn(pie0, _rename_by_definition(pie0.node, [(r"^next\(\w+\)$", "token"), (r"^PRECEDENCES(\.get\(|\[)token\.kind", "precedence")]))
    P_ENV, P_STREAM, P_LEFT = (pie0.params() + ["env", "stream", "left"])[:3]
    # The dispatch operator-token -> expression class, in either of the two forms a maintainer
    # writes it: an `if token.kind == T: return Cls(token, left, <right operand>)` chain, or a
    # module-level table {T: Cls} looked up with token.kind and called once.
    dispatch: dict[str, list] = {}  # token -> [(class name, constructor call, line)]

    from ..astutil import single_assignments as _single_assignments

    pie_locals = _single_assignments(pie.node)

    def right_operand_ok(c) -> bool:
        if not (isinstance(c, ast.Call) and len(c.args) == 3):
            return False
        right = c.args[2]
        if isinstance(right, ast.Name) and right.id in pie_locals:
            right = pie_locals[right.id]  # `right = parse_boolean_primitive(...)` bound first
        return (
            is_name(c.args[0], "token")
            and is_name(c.args[1], P_LEFT)
            and isinstance(right, ast.Call)
            and callee_name(right) == "parse_boolean_primitive"
            and [text(x) for x in right.args] == [P_ENV, P_STREAM, "precedence"]
        )

    for st in pie.node.body:
        if isinstance(st, ast.If) and isinstance(st.test, ast.Compare) and text(st.test.left) == "token.kind":
            comps = st.test.comparators[0]
            toks = [text(e) for e in comps.elts] if isinstance(comps, (ast.Tuple, ast.Set, ast.List)) else [text(comps)]
            ret = st.body[0] if st.body and isinstance(st.body[0], ast.Return) else None
            c = ret.value if ret is not None else None
            for t in toks:
                dispatch.setdefault(t, []).append((callee_name(c) if isinstance(c, ast.Call) else None, c, st.lineno))
    # table form
    for st in walk_no_nested(pie.node):
        if isinstance(st, ast.Assign) and len(st.targets) == 1 and isinstance(st.targets[0], ast.Name):
            v = st.value
            tbl = None
            if isinstance(v, ast.Call) and callee_name(v) == "get" and isinstance(v.func, ast.Attribute) and isinstance(v.func.value, ast.Name) and v.args and text(v.args[0]) == "token.kind":
                tbl = v.func.value.id
            elif isinstance(v, ast.Subscript) and isinstance(v.value, ast.Name) and text(v.slice) == "token.kind":
                tbl = v.value.id
            table = mod.assigns.get(tbl) if tbl else None
            if isinstance(table, ast.Dict) and table.values and all(isinstance(x, ast.Name) and x.id in mod.classes for x in table.values):
                var = st.targets[0].id
                ctor = next((r.value for r in walk_no_nested(pie.node) if isinstance(r, ast.Return) and isinstance(r.value, ast.Call) and is_name(r.value.func, var)), None)
                for k, cls_ in zip(table.keys, table.values):
                    dispatch.setdefault(text(k), []).append((cls_.id, ctor, st.lineno))
    for b in bin_names:
        res.ob(f"infix-branch:{b}")
        br = dispatch.get(b, [])
        if len(br) != 1:
            res.add("C12-TABLE", pie.qual, f"branches:{b}={len(br)}", f"parse_infix_expression has {len(br)} branches for {b} (exactly one expected)", pie.file, pie.line)
            continue
        cls_name, c, ln = br[0]
        if cls_name != EXPECT_CLASS.get(b) or not right_operand_ok(c):
            res.add("C12-TABLE", pie.qual, f"builds:{b}:{text(c)[:50] if c is not None else None}", f"the {b} branch must return {EXPECT_CLASS.get(b)}(token, left, parse_boolean_primitive(env, stream, precedence)); found `{cls_name}` / `{text(c)[:80] if c is not None else None}`", pie.file, ln)
    for t in dispatch:
        res.ob(f"infix-extra:{t}")
        if t not in bin_names:
            res.add("C12-TABLE", pie.qual, f"extra-branch:{t}", f"parse_infix_expression handles {t}, which is not in BINARY_OPERATORS (unreachable or undeclared operator)", pie.file, pie.line)
    # precedence taken from the table
    res.ob("infix-precedence")
    psrc = [st.value for st in walk_no_nested(pie.node) if isinstance(st, ast.Assign) and any(is_name(t, "precedence") for t in st.targets)]
    p_ok = len(psrc) == 1 and (
        (isinstance(psrc[0], ast.Call) and callee_name(psrc[0]) == "get" and text(psrc[0].func.value) == "PRECEDENCES" and psrc[0].args and text(psrc[0].args[0]) == "token.kind" and (len(psrc[0].args) == 1 or text(psrc[0].args[1]) == "PRECEDENCE_LOWEST"))
        or (isinstance(psrc[0], ast.Subscript) and text(psrc[0].value) == "PRECEDENCES" and text(psrc[0].slice) == "token.kind")
    )
    if not p_ok:
        res.add("C12-TABLE", pie.qual, "precedence-source", "parse_infix_expression must take the right operand's binding power from PRECEDENCES[token.kind]", pie.file, pie.line)

    # ---- C12-ASSOC -------------------------------------------------------------
    res.ob("and-or-precedence", 3)
    a, o = prec_map.get("TOKEN_AND"), prec_map.get("TOKEN_OR")
    if not a or not o or a[1] != o[1]:
        res.add("C12-ASSOC", f"{L}.PRECEDENCES", f"and={a}:or={o}", "`and` and `or` must have equal precedence", mod.relpath, prec.lineno)
    else:
        rel = [prec_map[k][1] for k in ("TOKEN_EQ", "TOKEN_LT", "TOKEN_GT", "TOKEN_NE", "TOKEN_LG", "TOKEN_LE", "TOKEN_GE", "TOKEN_CONTAINS") if k in prec_map]
        if not rel or not all(a[1] < r for r in rel):
            res.add("C12-ASSOC", f"{L}.PRECEDENCES", "logical>=relational", "comparison and membership operators must bind tighter than and/or", mod.relpath, prec.lineno)
        rp = prec_map.get("TOKEN_RPAREN")
        if rp and not rp[1] < a[1]:
            res.add("C12-ASSOC", f"{L}.PRECEDENCES", "rparen>=logical", "the closing parenthesis must have the lowest precedence", mod.relpath, prec.lineno)
    pbp = repo.func(f"{L}.parse_boolean_primitive")
    res.ob("pratt-loop", 3)
    loops = [n for n in pbp.node.body if isinstance(n, ast.While)]
    ok = False
    if len(loops) == 1:
        lp = loops[0]
        brk = next((s for s in lp.body if isinstance(s, ast.If) and any(isinstance(x, ast.Break) for x in s.body)), None)
        if brk is not None:
            tests = brk.test.values if isinstance(brk.test, ast.BoolOp) and isinstance(brk.test.op, ast.Or) else [brk.test]
            pparam = pbp.params()[2] if len(pbp.params()) > 2 else "precedence"
            for t in tests:
                if not (isinstance(t, ast.Compare) and len(t.ops) == 1 and isinstance(t.ops[0], (ast.Lt, ast.LtE, ast.Gt, ast.GtE))):
                    continue
                # orientation-free reading: (bigger side, smaller side, strict?)
                if isinstance(t.ops[0], (ast.Gt, ast.GtE)):
                    big, small = t.left, t.comparators[0]
                else:
                    big, small = t.comparators[0], t.left
                strict = isinstance(t.ops[0], (ast.Gt, ast.Lt))
                def is_next_prec(e):
                    return "PRECEDENCES.get(" in text(e) and ".kind" in text(e)

                if is_name(big, pparam) and is_next_prec(small):
                    if strict:
                        ok = True  # break when the next operator binds strictly less
                    else:
                        res.add("C12-ASSOC", pbp.qual, "break-on:LtE", "the Pratt loop must break only when the next operator binds strictly less (`<`); with `<=` equal-precedence and/or chains group from the left", pbp.file, t.lineno)
                        ok = True
                elif is_name(small, pparam) and is_next_prec(big):
                    res.add("C12-ASSOC", pbp.qual, "break-on:Gt", "the Pratt loop breaks when the next operator binds MORE than the current one: the comparison is the wrong way round", pbp.file, t.lineno)
                    ok = True
        calls_infix = [c for c in calls(lp) if callee_name(c) == "parse_infix_expression"]
        folds = False
        if len(calls_infix) == 1 and len(calls_infix[0].args) == 3 and [text(x) for x in calls_infix[0].args[:2]] == pbp.params()[:2] and isinstance(calls_infix[0].args[2], ast.Name):
            acc = calls_infix[0].args[2].id
            folds = any(isinstance(st_, ast.Assign) and len(st_.targets) == 1 and is_name(st_.targets[0], acc) and st_.value is calls_infix[0] for st_ in ast.walk(lp))
        if not folds:
            res.add("C12-ASSOC", pbp.qual, "infix-call", "the Pratt loop must fold with left = parse_infix_expression(env, tokens, left)", pbp.file, lp.lineno)
    if not ok:
        res.add("C12-ASSOC", pbp.qual, "pratt-break", "parse_boolean_primitive: Pratt loop with `PRECEDENCES.get(kind, LOWEST) < precedence -> break` not found", pbp.file, pbp.line)
    default = pbp.node.args.defaults
    if not default or text(default[-1]) != "PRECEDENCE_LOWEST":
        res.add("C12-ASSOC", pbp.qual, "default-precedence", "parse_boolean_primitive must start at PRECEDENCE_LOWEST", pbp.file, pbp.line)
    pg = repo.func(f"{L}.parse_grouped_expression")
    res.ob("parentheses")
    if "env.logical_parentheses" not in text(pg.node) or "parse_boolean_primitive(env, tokens)" not in text(pg.node):
        res.add("C12-ASSOC", pg.qual, "grouping", "parse_grouped_expression must be gated by env.logical_parentheses and parse the group at lowest precedence", pg.file, pg.line)

    # ---- C12-ORDER ---------------------------------------------------------------
    for cname, want in EXPECT_EVAL.items():
        c = repo.cls(f"{L}.{cname}")
        for m in ("evaluate", "evaluate_async"):
            f = c.methods.get(m)
            res.ob(f"{c.qual}.{m}")
            if f is None:
                res.add("C12-ORDER", c.qual, f"{m}:missing", f"{c.qual} must define {m}", c.file, c.node.lineno)
                continue
            got = _norm_eval(_normalize(repo, f, keep=CMP_HELPERS, aliases=False), m)  # `_le(token, l, r)`-style helpers inlined
            if got != want:
                res.add("C12-ORDER", f.qual, f"formula:{got[:50]}", f"{f.qual} computes `{got}`; the operator means `{want}` (L/R = left/right operand values)", f.file, f.line)
            else:
                res.sample({"rule": "C12-ORDER", "method": f.qual, "formula": got})
    # not / BooleanExpression
    for q, want in ((f"{L}.LogicalNotExpression", "not is_truthy(R)"),):
        c = repo.cls(q)
        for m in ("evaluate", "evaluate_async"):
            f = c.methods[m]
            res.ob(f"{q}.{m}")
            got = _norm_eval(_normalize(repo, f, keep=CMP_HELPERS, aliases=False), m)
            if got != want:
                res.add("C12-ORDER", f.qual, f"formula:{got[:50]}", f"{f.qual} computes `{got}`; expected `{want}`", f.file, f.line)
    be = repo.cls(f"{L}.BooleanExpression")
    for m in ("evaluate", "evaluate_async"):
        f = be.methods[m]
        res.ob(f"{be.qual}.{m}")
        t = text(unwrap_await(f.node.body[-1].value)) if isinstance(f.node.body[-1], ast.Return) else ""
        if not (t.startswith("is_truthy(") and "self.expression.evaluate" in t):
            res.add("C12-TRUTHY", f.qual, "is_truthy", f"{f.qual} must return is_truthy(self.expression.evaluate(context))", f.file, f.line)

    # ---- C12-TRUTHY ----------------------------------------------------------------
    it = repo.func(f"{L}.is_truthy")
    res.ob(it.qual, 2)
    rets = [s for s in walk_no_nested(it.node) if isinstance(s, ast.Return)]
    last = rets[-1].value if rets else None
    # canonical conjunct set: {obj is not False, obj is not None} (in any spelling: `not (a or b)`,
    # `a and b` with the negations inside, either operand order)
    from ..guards import canon as _canonT
    from ..guards import conjuncts as _conjT

    p_obj = it.params()[0] if it.params() else "obj"
    want_t = {_canonT(ast.parse(f"{p_obj} is not False", mode="eval").body), _canonT(ast.parse(f"{p_obj} is not None", mode="eval").body)}
    if last is None or {_canonT(c) for c in _conjT(last)} != want_t:
        res.add("C12-TRUTHY", it.qual, f"return:{text(last)[:40] if last is not None else None}", "is_truthy must end in `not (obj is False or obj is None)`: only false and nil are falsy (0, '', [] are truthy)", it.file, it.line)
    if "is_undefined(obj)" not in text(it.node):
        res.add("C12-TRUTHY", it.qual, "undefined", "is_truthy must treat undefined values as false", it.file, it.line)
    for n in ast.walk(it.node):
        if isinstance(n, ast.If) and is_name(n.test, "obj") or isinstance(n, ast.UnaryOp) and isinstance(n.op, ast.Not) and is_name(n.operand, "obj") or isinstance(n, ast.Call) and is_name(n.func, "bool"):
            res.add("C12-TRUTHY", it.qual, "python-truthiness", "is_truthy applies Python truthiness to the value", it.file, n.lineno)
    # every `if X.evaluate(context)` must test a Boolean-parsed field
    BOOL_FIELDS = {
        ("liquid.builtin.tags.if_tag.IfNode", "condition"): ("liquid.builtin.tags.if_tag.IfTag.parse", "condition"),
        ("liquid.builtin.tags.unless_tag.UnlessNode", "condition"): ("liquid.builtin.tags.unless_tag.UnlessTag.parse", "condition"),
        ("liquid.ast.ConditionalBlockNode", "expression"): None,
        ("liquid.builtin.expressions.filtered.TernaryFilteredExpression", "condition"): ("liquid.builtin.expressions.filtered.TernaryFilteredExpression.parse", "condition"),
    }
    n_tests = 0
    for f in repo.all_functions():
        if f.name not in ("render_to_output", "render_to_output_async", "evaluate", "evaluate_async"):
            continue
        for n in ast.walk(f.node):
            tests = []
            if isinstance(n, (ast.If, ast.While, ast.IfExp)):
                tests.append(n.test)
            elif isinstance(n, ast.UnaryOp) and isinstance(n.op, ast.Not):
                tests.append(n.operand)
            elif isinstance(n, ast.BoolOp):
                tests.extend(n.values)
            for t in tests:
                t = unwrap_await(t)
                if isinstance(t, ast.UnaryOp) and isinstance(t.op, ast.Not):
                    t = unwrap_await(t.operand)
                if isinstance(t, ast.Call) and callee_name(t) in ("evaluate", "evaluate_async") and isinstance(t.func, ast.Attribute):
                    n_tests += 1
                    recv = call_recv(t)
                    res.ob(f"truth-test:{f.qual}:{text(recv)}")
                    ch = attr_chain(recv)
                    ok = False
                    if ch and ch[0] == "self" and len(ch) == 2 and (f.cls.qual, ch[1]) in BOOL_FIELDS:
                        ok = True
                    elif ch and len(ch) == 2 and ch[1] == "expression" and f.cls and f.cls.qual in ("liquid.builtin.tags.if_tag.IfNode", "liquid.builtin.tags.unless_tag.UnlessNode"):
                        ok = True  # alternative.expression of a ConditionalBlockNode
                    if not ok:
                        res.add("C12-TRUTHY", f.qual, f"python-truthiness:{text(recv)}", f"{f.qual} branches on `{text(t)[:50]}` with Python truthiness; the value is not produced by a BooleanExpression (0, '' and [] would be falsy)", f.file, t.lineno)
    if n_tests < 8:
        raise AnchorMissing(f"only {n_tests} condition tests found in nodes/expressions")
    # the Boolean fields are filled from BooleanExpression.parse
    # (read at the construction site: the argument bound to the field's __init__ parameter is a
    #  BooleanExpression.parse(...) call or a local bound only from such calls — whatever the
    #  local is called)
    from ..astutil import bind_args as _bind_args

    def from_boolean_parse(fn_node, e) -> bool:
        if isinstance(e, ast.Call) and text(e.func) == "BooleanExpression.parse":
            return True
        if isinstance(e, ast.Name):
            binds = [st.value for st in ast.walk(fn_node) if isinstance(st, ast.Assign) and len(st.targets) == 1 and is_name(st.targets[0], e.id)]
            binds += [st.value for st in ast.walk(fn_node) if isinstance(st, ast.AnnAssign) and is_name(st.target, e.id) and st.value is not None]
            return bool(binds) and all(isinstance(b, ast.Call) and text(b.func) == "BooleanExpression.parse" for b in binds)
        return False

    for (cq, fld), site in BOOL_FIELDS.items():
        cls_ = repo.cls(cq)
        init_ = repo.find_method(cls_, "__init__")
        sites = [site[0]] if site is not None else ["liquid.builtin.tags.if_tag.IfTag.parse", "liquid.builtin.tags.unless_tag.UnlessTag.parse"]
        for fq in sites:
            f = repo.func(fq)
            res.ob(f"bool-field:{cq}.{fld}@{fq}")
            names = {cls_.name} | ({"self.node_class", "cls"} if site is not None else set())
            ctor = [c for c in calls(f.node) if text(c.func) in names]
            vals = []
            for c in ctor:
                b = _bind_args(c, init_.node) if init_ is not None else None
                if b is not None and fld in b:
                    vals.append(b[fld])
            kind_ = "elsif-not-boolean" if site is None else "condition-not-boolean"
            if not vals or not all(from_boolean_parse(f.node, v) for v in vals):
                res.add("C12-TRUTHY", fq, kind_, f"{fq}: the `{fld}` of {cls_.name} must come from BooleanExpression.parse (it is tested with Python truthiness at render time)", f.file, f.line)

    # ---- C12-TYPEERR ---------------------------------------------------------------
    lt = repo.func(f"{L}._lt")
    res.ob(lt.qual, 2)
    last = lt.node.body[-1]
    if not (isinstance(last, ast.Raise) and "LiquidTypeError" in text(last)):
        res.add("C12-TYPEERR", lt.qual, "fallthrough", "_lt must end in raise LiquidTypeError for operands it cannot order", lt.file, lt.line)
    # booleans are excluded before numbers are compared: decided by C12-KINDS below (a Python `<`
    # of the operands is reachable only for two strings or two non-bool numbers) — no text match.
    ct = repo.func(f"{L}._contains")
    res.ob(ct.qual)
    if not (isinstance(ct.node.body[-1], ast.Raise) and "LiquidTypeError" in text(ct.node.body[-1])):
        res.add("C12-TYPEERR", ct.qual, "fallthrough", "_contains must end in raise LiquidTypeError", ct.file, ct.line)
    res.stats.update(binary_operators=bin_names, precedences={k: v[1] for k, v in prec_map.items()}, condition_tests=n_tests)
    # ---- C12-KINDS: which operand kinds can reach Python's own == and < ---------------------
    # Path-sensitive kind inference (sa/kinds.py, one run per combination of `if` outcomes):
    # Python says 1 == True, 0 == False and True < 2.  In `_eq` a Python comparison of the two
    # operands may be reached only when neither can be a bool or both are; in `_lt` only when
    # both are strings or both are non-bool numbers.
    from ..kinds import feasible, path_states

    def operand_cmp(n):
        return isinstance(n, ast.Compare) and len(n.ops) == 1 and isinstance(n.ops[0], (ast.Eq, ast.NotEq, ast.Lt, ast.Gt, ast.LtE, ast.GtE)) and all(isinstance(x, ast.Name) and x.id in ("left", "right") for x in [n.left] + n.comparators)

    for fn_name in ("_eq", "_lt"):
        f = repo.func(f"{L}.{fn_name}")
        hits = [(n, st, fl) for n, st, fl in path_states(f.node, {}, operand_cmp, module_consts=f.module.assigns) if feasible(fl, st, ("left", "right"))]
        res.ob(f"kinds:{f.qual}", 2)
        if not hits:
            raise AnchorMissing(f"{f.qual}: no comparison of the two operands found; re-derive C12-KINDS")
        bad = set()
        for n, st, fl in hits:
            kl, kr = fl.var_kinds(st, "left"), fl.var_kinds(st, "right")
            if fn_name == "_eq":
                ok = ("B" not in kl and "B" not in kr) or (kl <= {"B"} and kr <= {"B"})
            else:
                ok = (kl <= {"S"} and kr <= {"S"}) or (kl <= set("IFC") and kr <= set("IFC"))
            if not ok:
                bad.add((n.lineno, text(n), "".join(sorted(kl)), "".join(sorted(kr))))
        for ln, src, kl, kr in sorted(bad):
            what = "a bool can meet a non-bool in Python's ==, where 1 == True and 0 == False" if fn_name == "_eq" else "operands other than two strings or two non-bool numbers reach Python's <"
            res.add("C12-KINDS", f.qual, f"{src}:{'bool-leak' if 'B' in kl + kr else 'kinds'}", f"{f.qual}: `{src}` is reachable with left in {{{kl}}} and right in {{{kr}}} — {what}", f.file, ln)
    # ---- C12-KINDS (table of `_lt`): which kind pairs are ordered, false, or a type error -------
    # Three-valued run of `_lt` for every pair of operand kinds (sa/kinds.exits_for_kinds): two
    # non-bool numbers (int, float, Decimal in any mix) or two strings reach the Python
    # comparison and nothing else; a bool on either side gives `return False`; every other pair
    # (a number with a string, nil, arrays, hashes, ranges) reaches the LiquidTypeError and
    # nothing else.  Decides the "ordering comparisons between incompatible types raise, compatible
    # ones do not" clause on the value lattice of the property, by kind.
    from ..kinds import _k, exits_for_kinds

    lt = repo.func(f"{L}._lt")
    ops = [p_ for p_ in lt.params()][-2:]
    n_pairs = 0
    KS = "IFCSBNLDR"
    for a in KS:
        for b in KS:
            try:
                ex = exits_for_kinds(lt.node, {ops[0]: _k(a), ops[1]: _k(b)}, lt.module.assigns, resolve_func=lambda nm: (lt.module.functions[nm].node if nm in lt.module.functions else None))
            except ValueError as err:
                raise AnchorMissing(f"{lt.qual}: {err}") from err
            got = set()
            for st_, _env in ex:
                if isinstance(st_, ast.Raise):
                    got.add("raise:" + ("LiquidTypeError" if "LiquidTypeError" in text(st_) else text(st_)[:40]))
                elif isinstance(st_.value, ast.Constant):
                    got.add(f"const:{st_.value.value}")
                elif isinstance(st_.value, ast.Compare) and len(st_.value.ops) == 1 and isinstance(st_.value.ops[0], (ast.Lt, ast.Gt)) and {text(st_.value.left), text(st_.value.comparators[0])} == set(ops):
                    got.add("compare")
                else:
                    got.add("other:" + text(st_.value)[:40])
            if "B" in (a, b):
                want = {"const:False"}
            elif (a in "IFC" and b in "IFC") or (a == b == "S"):
                want = {"compare"}
            else:
                want = {"raise:LiquidTypeError"}
            n_pairs += 1
            if got != want:
                names = {"I": "int", "F": "float", "C": "Decimal", "S": "str", "B": "bool", "N": "nil", "L": "array", "D": "hash", "R": "range"}
                res.add("C12-KINDS", lt.qual, f"table:{a}{b}", f"{lt.qual} with a left operand of kind {names[a]} and a right operand of kind {names[b]} ends in {sorted(got)}; the documented result is {sorted(want)} (numbers of any mix of int/float/Decimal and two strings are ordered, a bool is never ordered, everything else is a Liquid type error)", lt.file, lt.line)
    res.ob(f"table:{lt.qual}", n_pairs)
    # ---- C12-FALSY: `contains` with a nil / undefined operand -------------------------------
    # "nil and undefined are falsy" + "contains ... is false whenever either side is nil or
    # undefined": with one operand restricted to {none, undefined} every feasible exit of
    # _contains is `return False` (no other value, no raise).
    ct = repo.func(f"{L}._contains")
    exits = {}
    for n in walk_no_nested(ct.node):
        if isinstance(n, ast.Return) and n.value is not None:
            exits[id(n.value)] = n
        elif isinstance(n, ast.Raise) and n.exc is not None:
            exits[id(n.exc)] = n
    for operand, other in (("right", "left"), ("left", "right")):
        res.ob(f"falsy:{ct.qual}:{operand}")
        hits = [(n, st, fl) for n, st, fl in path_states(ct.node, {operand: frozenset("NU")}, lambda n: id(n) in exits, module_consts=ct.module.assigns) if feasible(fl, st, ("left", "right"))]
        if not hits:
            raise AnchorMissing(f"{ct.qual}: no exit reachable with a nil {operand} operand; re-derive C12-FALSY")
        badx = set()
        for n, st, fl in hits:
            ex = exits[id(n)]
            if isinstance(ex, ast.Return) and isinstance(ex.value, ast.Constant) and ex.value.value is False:
                continue
            badx.add((ex.lineno, text(ex)[:60], "".join(sorted(fl.var_kinds(st, other)))))
        for ln, src, ko in sorted(badx):
            res.add("C12-FALSY", ct.qual, f"{operand}-nil:{src}", f"{ct.qual}: with a nil/undefined {operand} operand (and {other} in {{{ko}}}) `{src}` is reachable — `contains` must be false whenever either operand is nil or undefined", ct.file, ln)
    return res


def selftest(repo: Repo):
    from ..selftest import Variant, text_edit

    def v(name, rel, old, new, expect, count=1):
        return lambda: Variant(name, text_edit(repo, rel, old, new, count), expect)

    P = "liquid/builtin/expressions/logical.py"
    return [
        v("gt-operands-swapped-async", P, "            await self.right.evaluate_async(context),\n            await self.left.evaluate_async(context),\n        )\n\n    def children(self) -> list[Expression]:\n        return [self.left, self.right]\n\n\nclass ContainsExpression", "            await self.left.evaluate_async(context),\n            await self.right.evaluate_async(context),\n        )\n\n    def children(self) -> list[Expression]:\n        return [self.left, self.right]\n\n\nclass ContainsExpression", "C12-ORDER"),
        v("le-without-eq", P, "        return _eq(left, right) or _lt(self.token, left, right)", "        return _lt(self.token, left, right)", "C12-ORDER", count=2),
        v("ne-is-eq", P, "        return not _eq(self.left.evaluate(context), self.right.evaluate(context))", "        return _eq(self.left.evaluate(context), self.right.evaluate(context))", "C12-ORDER"),
        v("and-binds-tighter", P, "    TOKEN_AND: PRECEDENCE_LOGICAL_RIGHT,", "    TOKEN_AND: PRECEDENCE_LOGICAL_AND,", "C12-ASSOC"),
        v("left-assoc", P, "            or PRECEDENCES.get(token.kind, PRECEDENCE_LOWEST) < precedence", "            or PRECEDENCES.get(token.kind, PRECEDENCE_LOWEST) <= precedence", "C12-ASSOC"),
        v("le-missing-precedence", P, "    TOKEN_LE: PRECEDENCE_RELATIONAL,\n", "", "C12-TABLE"),
        v("ge-builds-gt", P, "    if token.kind == TOKEN_GE:\n        return GeExpression(", "    if token.kind == TOKEN_GE:\n        return GtExpression(", "C12-TABLE"),
        v("python-truthy", P, "    return not (obj is False or obj is None)", "    return bool(obj)", "C12-TRUTHY"),
        v("undefined-truthy", P, "    if is_undefined(obj):\n        return False\n", "", "C12-TRUTHY"),
        v("and-python-truthiness", P, "        return is_truthy(self.left.evaluate(context)) and is_truthy(\n            self.right.evaluate(context)\n        )", "        return self.left.evaluate(context) and self.right.evaluate(context)", "C12-ORDER"),
        v("eq-bool-check-merged", P, "    if isinstance(right, bool):\n        left, right = right, left\n\n    if isinstance(left, bool):\n        return isinstance(right, bool) and left == right\n", "    if isinstance(left, bool) or isinstance(right, bool):\n        return isinstance(right, bool) and left == right\n", "C12-KINDS"),
        v("eq-no-bool-guard", P, "    if isinstance(left, bool):\n        return isinstance(right, bool) and left == right\n", "", "C12-KINDS"),
        v("lt-bool-after-num", P, "    if isinstance(left, bool) or isinstance(right, bool):\n        return False\n\n", "", "C12-KINDS"),
        v("lt-no-typeerror", P, "    raise LiquidTypeError(\n        f\"'<' and '>' are not supported between '{left.__class__.__name__}' \"\n        f\"and '{right.__class__.__name__}'\",\n        token=token,\n    )\n\n\ndef _contains", "    return False\n\n\ndef _contains", "C12-TYPEERR"),
        v("if-condition-primitive", "liquid/builtin/tags/if_tag.py", "        condition = BooleanExpression.parse(self.env, tokens)", "        condition = parse_primitive(self.env, tokens)", "C12-TRUTHY"),
        v("case-uses-truthiness", "liquid/builtin/tags/cycle_tag.py", "        if self.group:\n            _group = self.group.evaluate(context)\n            group_name = \"__UNDEFINED\" if is_undefined(_group) else to_str(_group)\n        else:\n            group_name = \"\"\n\n        args = [arg.evaluate(context) for arg in self.args]", "        if self.group and self.group.evaluate(context):\n            _group = self.group.evaluate(context)\n            group_name = \"__UNDEFINED\" if is_undefined(_group) else to_str(_group)\n        else:\n            group_name = \"\"\n\n        args = [arg.evaluate(context) for arg in self.args]", "C12-TRUTHY"),
    ]
