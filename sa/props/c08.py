"""C08 — resource limits only abort a render, never alter its output (strict mode).

Full structural decision for the stated scope:
  C08-READ   every read of the five limit attributes (block_nesting_limit,
             context_depth_limit, loop_iteration_limit, local_namespace_limit,
             output_stream_limit) is one of
               (i)  the *limit side* of ``measure > limit`` in an ``if`` whose only effect is
                    ``raise <ResourceLimitError subclass>`` (no else) — success is monotone
                    in the limit because the limit is on the smaller-is-stricter side;
               (ii) an ``is not None`` conjunct enabling such a guard, or ``if limit is None:
                    return <unlimited buffer / zero measure>`` — never a truthiness test (0
                    would mean "unlimited" while 1 is the strictest limit: not monotone);
               (iii) the ``limit=`` argument of ``LimitedStringIO`` (optionally minus the
                    bytes already written to the parent buffer).
  C08-WRITE  ``LimitedStringIO.write`` compares ``size > limit`` and only raises
             OutputStreamLimitError.
  C08-NEWLINE the limited buffer is constructed with the same newline mode as the unlimited
             ``StringIO()`` (no translation) and no call site overrides it.
  C08-CATCH  no handler that can catch a ResourceLimitError swallows or converts it; the
             only handlers are the env.error routers (which re-raise in strict mode) and
             plain re-raises.
  C08-CLASS  the five limits are class attributes of Environment and every limit error
             class derives from ResourceLimitError.
  C08-MASK   cleanup on the path of a propagating limit error cannot replace it: a ``finally``
             pops only what was pushed directly before its ``try`` and never returns/breaks.
Together: with a limit configured, execution is the unlimited execution until a guard
raises, and raising a limit can only turn a raise into a non-raise.
"""

from __future__ import annotations

import ast

from ..astutil import call_recv, attr_chain, callee_name, handler_types, text
from ..astutil import calls as calls_in
from ..core import Result
from ..engines import hnd
from ..model import AnchorMissing, Repo, walk_no_nested

PID = "C08"
MIN_OBLIGATIONS = 25
LIMITS = (
    "block_nesting_limit",
    "context_depth_limit",
    "loop_iteration_limit",
    "local_namespace_limit",
    "output_stream_limit",
)
REVIEWED_CATCH = {
    "liquid.environment.Environment.from_string|Exception": "parse-time catch-all; BlockNestingError (the only limit error raised while parsing) is re-raised by the preceding handler",
}


def limit_reads(repo: Repo):
    """every read of a limit attribute, after local aliases (`limit = self.env.x_limit`) have
    been propagated to their uses (sa/normalize.py) — the rule judges the *use*, not the copy"""
    import copy as _copy

    from ..normalize import NFunc, propagate_aliases

    for f in repo.all_functions():
        if not any(isinstance(n, ast.Attribute) and n.attr in LIMITS for n in ast.walk(f.node)):
            continue
        g = NFunc(f, propagate_aliases(_copy.deepcopy(f.node)))
        for n in ast.walk(g.node):
            if isinstance(n, ast.Attribute) and n.attr in LIMITS and isinstance(n.ctx, ast.Load):
                yield g, n


def _parents(fn):
    pm = {}
    for n in ast.walk(fn):
        for c in ast.iter_child_nodes(n):
            pm[id(c)] = n
    return pm


def _raises_limit_error(H, body) -> bool:
    if len(body) != 1 or not isinstance(body[0], ast.Raise):
        return False
    e = body[0].exc
    if isinstance(e, ast.Call):
        e = e.func
    return e is not None and H.is_sub(text(e), "ResourceLimitError")


def run(repo: Repo) -> Result:
    res = Result(PID)
    res.rules = ["C08-READ", "C08-WRITE", "C08-NEWLINE", "C08-CATCH", "C08-CLASS", "C08-MASK"]
    res.explanation = (
        "who-may rule over every read of a resource limit (monotone raise-guards only) + "
        "handler discipline for the ResourceLimitError family"
    )
    res.assumptions = ["strict mode (in lax/warn a limit error is suppressed by design, C03)"]
    H = hnd.Hier(repo)
    env = repo.cls("liquid.environment.Environment")
    for l in LIMITS:
        res.ob(f"Environment.{l}")
        if l not in env.attrs:
            res.add("C08-CLASS", env.qual, l, f"Environment.{l} is not a class attribute", env.file, env.node.lineno)
    for name in ("BlockNestingError", "ContextDepthError", "LoopIterationLimitError", "OutputStreamLimitError", "LocalNamespaceLimitError"):
        res.ob(f"exc:{name}")
        if not H.is_sub(name, "ResourceLimitError"):
            res.add("C08-CLASS", "liquid.exceptions", name, f"{name} must derive from ResourceLimitError", "liquid/exceptions.py", 0)

    n_reads = 0
    per_limit = {l: 0 for l in LIMITS}
    for f, n in limit_reads(repo):
        n_reads += 1
        per_limit[n.attr] += 1
        pm = _parents(f.node)
        construct = f"{f.qual}:{n.attr}"
        res.ob(construct)
        # climb to the statement
        chain = [n]
        cur = n
        while id(cur) in pm and not isinstance(cur, ast.stmt):
            cur = pm[id(cur)]
            chain.append(cur)
        stmt = cur
        parent = chain[1] if len(chain) > 1 else None
        verdict = None
        if isinstance(stmt, ast.If) and any(x is n for x in ast.walk(stmt.test)):
            # (i) measure > limit   or   (ii) falsy / None test
            if isinstance(parent, ast.Compare) and len(parent.ops) == 1:
                op = parent.ops[0]
                left, right = parent.left, parent.comparators[0]
                if isinstance(op, ast.Gt) and right is n or isinstance(op, ast.Lt) and left is n:
                    if _raises_limit_error(H, stmt.body) and not stmt.orelse:
                        # every other conjunct must be a truthiness test of the same limit
                        conj = stmt.test.values if isinstance(stmt.test, ast.BoolOp) and isinstance(stmt.test.op, ast.And) else [stmt.test]
                        others = [c for c in conj if c is not parent]
                        def _is_not_none(c):
                            return isinstance(c, ast.Compare) and len(c.ops) == 1 and isinstance(c.ops[0], ast.IsNot) and isinstance(c.left, ast.Attribute) and c.left.attr == n.attr and isinstance(c.comparators[0], ast.Constant) and c.comparators[0].value is None

                        if any(isinstance(c, ast.Attribute) and c.attr == n.attr for c in others):
                            verdict = ("bad", f"the guard is enabled by the truthiness of the limit (`{text(stmt.test)[:60]}`): a limit of 0 means unlimited while 1 is the strictest value, so success is not monotone in the limit — test `is not None`")
                        elif all(_is_not_none(c) for c in others):
                            verdict = "guard"
                        else:
                            verdict = ("bad", f"extra condition in limit guard `{text(stmt.test)[:80]}`")
                    else:
                        verdict = ("bad", f"`if {text(stmt.test)[:70]}` must only raise a ResourceLimitError (no else, no other effect)")
                elif isinstance(op, ast.IsNot) and isinstance(right, ast.Constant) and right.value is None:
                    # the enabling conjunct of a guard: `limit is not None and measure > limit`
                    conj = stmt.test.values if isinstance(stmt.test, ast.BoolOp) and isinstance(stmt.test.op, ast.And) else [stmt.test]
                    if parent in conj and _raises_limit_error(H, stmt.body) and not stmt.orelse:
                        verdict = "enable-test"
                    else:
                        verdict = ("bad", f"`{text(stmt.test)[:70]}`: an `is not None` test of a limit may only enable a raise-guard")
                elif isinstance(op, ast.Is) and isinstance(right, ast.Constant) and right.value is None:
                    # `if limit is None: return <unlimited value>`
                    if parent is stmt.test and len(stmt.body) == 1 and isinstance(stmt.body[0], ast.Return) and not stmt.orelse:
                        verdict = "none-test"
                    else:
                        verdict = ("bad", "an `is None` test of a limit may only return the unlimited value")
                else:
                    verdict = ("bad", f"limit compared as `{text(parent)}`; only `measure > limit` is monotone")
            elif isinstance(parent, ast.BoolOp) and isinstance(parent.op, ast.And) and parent is stmt.test:
                # truthiness conjunct `limit and measure > limit`
                verdict = ("bad", f"the guard is enabled by the truthiness of the limit (`{text(stmt.test)[:60]}`): a limit of 0 means unlimited while 1 is the strictest value, so success is not monotone in the limit — test `is not None`")
            elif isinstance(parent, ast.UnaryOp) and isinstance(parent.op, ast.Not) and parent is stmt.test:
                # `if not limit: return <unlimited/zero>`
                verdict = ("bad", f"`if not {n.attr}` treats a limit of 0 as unlimited (1 is the strictest value): success is not monotone in the limit — test `is None`")
            else:
                verdict = ("bad", f"limit read in test `{text(stmt.test)[:80]}`")
        elif isinstance(parent, ast.keyword) or (isinstance(parent, ast.BinOp) and isinstance(parent.op, ast.Sub) and parent.left is n):
            # (iii) LimitedStringIO(limit=limit [- carry])
            call = None
            for c in chain:
                if isinstance(c, ast.Call):
                    call = c
                    break
            if call is not None and callee_name(call) == "LimitedStringIO" and n.attr == "output_stream_limit":
                kw = [k for k in call.keywords if k.arg == "limit"]
                if kw and any(x is n for x in ast.walk(kw[0].value)):
                    verdict = "buffer-limit"
            if verdict is None:
                verdict = ("bad", f"limit passed to `{text(call)[:60] if call else text(stmt)[:60]}`")
        else:
            verdict = ("bad", f"limit read in `{text(stmt)[:80]}`")
        if isinstance(verdict, tuple):
            res.add("C08-READ", f.qual, f"{n.attr}:{text(stmt)[:60]}", f"{f.qual}: {verdict[1]}", f.file, n.lineno)
        else:
            res.sample({"rule": "C08-READ", "site": construct, "shape": verdict, "stmt": text(stmt)[:90]})
    if n_reads < 9:
        raise AnchorMissing(f"only {n_reads} limit reads found, expected >= 9 (12 on the reviewed tree)")
    for l, k in per_limit.items():
        res.ob(f"limit-used:{l}")
        if k == 0:
            res.add("C08-READ", "liquid.environment.Environment", f"{l}:never-read", f"{l} is never enforced anywhere", env.file, env.node.lineno)
    # none-tests must select the unlimited buffer, guard tests must exist per limit
    # ---- C08-WRITE -----------------------------------------------------------
    # symbolic paths of LimitedStringIO.write (shared with C07-COUNT): OutputStreamLimitError is
    # raised exactly under `counted size > limit`, and nothing else is raised
    from .c07 import limited_write_paths

    w, _sp, wpaths = limited_write_paths(repo)
    res.ob(w.qual)
    raises = [p_ for p_ in wpaths if p_["kind"] == "raise"]
    ok = bool(raises) and all(p_.get("exc") == "OutputStreamLimitError" and "N+S0>L" in p_["conds"] for p_ in raises)
    ok = ok and not any(p_["kind"] in ("write", "return") and "N+S0>L" in p_["conds"] for p_ in wpaths)
    if not ok:
        res.add("C08-WRITE", w.qual, "size>limit", "LimitedStringIO.write must raise OutputStreamLimitError iff self.size > self.limit", w.file, w.line)

    # ---- C08-NEWLINE: the limited buffer is the unlimited buffer plus a counter ------------
    # StringIO() does not translate newlines (newline="\n"); StringIO(newline=None) translates
    # "\r\n" and "\r" to "\n" on write.  The limited buffer must be constructed like the
    # unlimited one or configuring a limit changes the text.
    li = repo.own_method("liquid.output.LimitedStringIO", "__init__")
    res.ob(li.qual, 2)
    a = li.node.args
    pos = a.posonlyargs + a.args
    defaults = dict(zip([x.arg for x in pos[len(pos) - len(a.defaults):]], a.defaults))
    sup = [c for c in calls_in(li.node) if isinstance(c.func, ast.Attribute) and c.func.attr == "__init__" and isinstance(call_recv(c), ast.Call) and callee_name(call_recv(c)) == "super"]
    if len(sup) != 1:
        raise AnchorMissing("LimitedStringIO.__init__ no longer calls super().__init__ exactly once")
    nl = sup[0].args[1] if len(sup[0].args) > 1 else next((k.value for k in sup[0].keywords if k.arg == "newline"), None)
    if nl is None:
        pass  # StringIO's own default "\n"
    elif isinstance(nl, ast.Constant):
        if nl.value != "\n":
            res.add("C08-NEWLINE", li.qual, f"newline={nl.value!r}", f"LimitedStringIO is built with newline={nl.value!r}; the unlimited buffer is StringIO() (newline='\\n', no translation), so a configured output limit rewrites line endings", li.file, sup[0].lineno)
    elif isinstance(nl, ast.Name) and nl.id in defaults:
        d = defaults[nl.id]
        if not (isinstance(d, ast.Constant) and d.value == "\n"):
            res.add("C08-NEWLINE", li.qual, f"newline-default={text(d)}", f"LimitedStringIO passes `{nl.id}` (default {text(d)}) to StringIO; the unlimited buffer is StringIO() (newline='\\n', no translation), so a configured output limit rewrites \\r\\n and \\r in the output", li.file, sup[0].lineno)
    else:
        res.add("C08-NEWLINE", li.qual, f"newline={text(nl)}", "cannot establish the newline mode of the limited buffer", li.file, sup[0].lineno)
    for f in repo.all_functions():
        for c in calls_in(f.node):
            if callee_name(c) in ("LimitedStringIO", "StringIO") and f.module.name.startswith("liquid") and not f.module.name.startswith("liquid.output"):
                res.ob(f"{f.qual}:{callee_name(c)}()")
                if any(k.arg == "newline" for k in c.keywords) or len(c.args) > (2 if callee_name(c) == "LimitedStringIO" else 1):
                    res.add("C08-NEWLINE", f.qual, f"{callee_name(c)}:newline-arg", f"{f.qual} builds an output buffer with an explicit newline mode: `{text(c)[:60]}`", f.file, c.lineno)

    # ---- C08-CATCH -----------------------------------------------------------
    n_h = 0
    for h in hnd.handlers(repo):
        if not H.may_catch_family(h.classes, "ResourceLimitError"):
            continue
        n_h += 1
        res.ob(h.key)
        lq = [c for c in h.classes if H.may_catch_family([c], "ResourceLimitError")]
        key = f"{h.func.qual}|{','.join(lq)}"
        if key in REVIEWED_CATCH:
            continue
        if h.kinds & {"swallow", "convert", "control"} and not (h.kinds == {"route"}):
            if "route" in h.kinds and not (h.kinds & {"swallow", "convert", "control"}):
                continue
            res.add(
                "C08-CATCH",
                h.func.qual,
                f"except {','.join(lq)}:{'+'.join(sorted(h.kinds))}",
                f"{h.func.qual}: `except {', '.join(h.classes)}` can intercept a ResourceLimitError and "
                f"{'/'.join(sorted(h.kinds))} it instead of letting it abort the render",
                h.func.file,
                h.node.lineno,
            )
    if n_h < 6:
        raise AnchorMissing(f"only {n_h} handlers can catch ResourceLimitError; expected the routing handlers")
    res.stats.update(limit_reads=n_reads, per_limit=per_limit, limit_handlers=n_h)
    # ---- C08-MASK ---------------------------------------------------------------------------
    # A limit error propagates through the context managers that raised it (extend -> depth,
    # loop/iterations -> loop limit, write -> output limit).  Cleanup code on that path must not
    # replace it: a `finally` may only undo what was done *before* its `try` was entered — a pop
    # whose push sits inside the try runs also when the guard raised before the push, and then
    # raises IndexError (or pops somebody else's entry) instead of the ResourceLimitError; and a
    # `finally` that returns / breaks / continues swallows the error outright.
    UNDO = {"pop": ("append", "push", "appendleft"), "popleft": ("appendleft", "push", "append"), "remove": ("append", "add"), "discard": ("add",)}
    n_fin = 0
    for f in repo.all_functions():
        for blk in ast.walk(f.node):
            for fld in ("body", "orelse", "finalbody", "handlers"):
                seq = getattr(blk, fld, None)
                if not isinstance(seq, list):
                    continue
                for i, st in enumerate(seq):
                    if not (isinstance(st, ast.Try) and st.finalbody):
                        continue
                    n_fin += 1
                    res.ob(f"finally:{f.qual}")
                    for n in st.finalbody:
                        for x in [n] + list(walk_no_nested(n)):
                            if isinstance(x, (ast.Return, ast.Break, ast.Continue)):
                                res.add("C08-MASK", f.qual, f"finally-{type(x).__name__.lower()}", f"{f.qual}: `{type(x).__name__.lower()}` inside `finally` swallows an exception in flight — a ResourceLimitError raised in the block would be lost", f.file, x.lineno)
                    for c in (c for n in st.finalbody for c in calls_in(n)):
                        nm = callee_name(c)
                        if nm not in UNDO or not isinstance(c.func, ast.Attribute):
                            continue
                        chain = text(call_recv(c))
                        # the matching push must be a statement of the enclosing block before the try,
                        # with nothing that can raise in between
                        ok = False
                        cseq, ci = seq, i
                        # a try that is the whole body of a `with` is entered iff the with was
                        # entered: the push may then sit directly before the `with` (whose
                        # entering may raise — after the push, before the try: nothing to undo
                        # twice, the pop simply does not run)
                        if ci == 0 and isinstance(blk, (ast.With, ast.AsyncWith)) and fld == "body" and len(seq) == 1:
                            for par in ast.walk(f.node):
                                for pf in ("body", "orelse", "finalbody"):
                                    ps = getattr(par, pf, None)
                                    if isinstance(ps, list) and any(q is blk for q in ps):
                                        cseq, ci = ps, next(k for k, q in enumerate(ps) if q is blk)
                        for j in range(ci - 1, -1, -1):
                            p_ = cseq[j]
                            if isinstance(p_, ast.Expr) and isinstance(p_.value, ast.Call) and isinstance(p_.value.func, ast.Attribute) and p_.value.func.attr in UNDO[nm] and text(call_recv(p_.value)) == chain:
                                ok = True
                                break
                            if any(True for _ in calls_in(p_)) or isinstance(p_, (ast.With, ast.Try, ast.For, ast.While, ast.If)):
                                break
                        if not ok:
                            inside = any(isinstance(y, ast.Call) and isinstance(y.func, ast.Attribute) and y.func.attr in UNDO[nm] and text(call_recv(y)) == chain for b in st.body for y in ast.walk(b))
                            res.add(
                                "C08-MASK",
                                f.qual,
                                f"unpaired-{nm}:{chain}",
                                f"{f.qual}: `finally: {chain}.{nm}()` is not preceded, directly before its `try`, by the matching push"
                                + (" (the push is inside the try, so the pop also runs when a limit guard raised before the push" if inside else " (")
                                + " — the ResourceLimitError in flight is replaced by IndexError, or another construct's entry is removed)",
                                f.file,
                                c.lineno,
                            )
    if n_fin < 3:
        raise AnchorMissing(f"only {n_fin} try/finally blocks found (extend, loop, iterations expected)")
    return res


def selftest(repo: Repo):
    from ..selftest import Variant, text_edit

    def v(name, rel, old, new, expect, count=1):
        return lambda: Variant(name, text_edit(repo, rel, old, new, count), expect)

    CTX = "liquid/context.py"
    return [
        v("flip-depth-cmp", CTX, "if self.scope.size() > self.env.context_depth_limit:", "if self.scope.size() < self.env.context_depth_limit:", "C08-READ"),
        v("ge-instead-of-gt", "liquid/parser.py", "if stream.block_depth > self.env.block_nesting_limit:", "if stream.block_depth >= self.env.block_nesting_limit:", "C08-READ"),
        v("truncate-instead-of-raise", "liquid/output.py", "            if self.size > self.limit:\n                raise OutputStreamLimitError(\"output stream limit reached\", token=None)\n", "            if self.size > self.limit:\n                return 0\n", "C08-WRITE"),
        v("limit-in-output", "liquid/builtin/tags/for_tag.py", "        it, length = self.expression.evaluate(context)\n\n        if length:\n            character_count = 0", "        it, length = self.expression.evaluate(context)\n        if context.env.loop_iteration_limit:\n            length = min(length, context.env.loop_iteration_limit)\n        if length:\n            character_count = 0", "C08-READ"),
        v("swallow-limit-error", "liquid/builtin/tags/capture_tag.py", "        buf = context.get_buffer(buffer)\n        self.block.render(context, buf)\n", "        buf = context.get_buffer(buffer)\n        try:\n            self.block.render(context, buf)\n        except ResourceLimitError:\n            pass\n", "C08-CATCH"),
        v("swallow-via-liquiderror", "liquid/builtin/tags/ifchanged_tag.py", "        buf = context.get_buffer(buffer)\n        self.block.render(context, buf)\n", "        buf = context.get_buffer(buffer)\n        try:\n            self.block.render(context, buf)\n        except LiquidError:\n            return 0\n", "C08-CATCH"),
        lambda: Variant("guard-with-redundant-else-is-silent", text_edit(repo, CTX, "            raise LocalNamespaceLimitError(\"local namespace limit reached\", token=None)\n", "            raise LocalNamespaceLimitError(\"local namespace limit reached\", token=None)\n        else:\n            self.locals[key] = val\n", 1), "", silent=True),  # the else arm runs exactly when the guard does not raise: same behaviour in every mode
        v("buffer-limit-scaled", "liquid/template.py", "return LimitedStringIO(limit=self.env.output_stream_limit)", "return LimitedStringIO(limit=self.env.output_stream_limit // 2, initial_value=str(self.env.output_stream_limit))", "C08-READ"),
        v("get-buffer-falsy-limit", CTX, "        if self.env.output_stream_limit is None:\n            return StringIO()", "        if not self.env.output_stream_limit:\n            return StringIO()", "C08-READ"),
        v("loop-guard-truthiness", CTX, "            self.env.loop_iteration_limit is not None\n", "            self.env.loop_iteration_limit\n", "C08-READ"),
        v("namespace-size-falsy", CTX, "        if self.env.local_namespace_limit is None:\n            return 0", "        if not self.env.local_namespace_limit:\n            return 0", "C08-READ"),
        v("limited-buffer-universal-newlines", "liquid/output.py", '        newline: Optional[str] = "\\n",', "        newline: Optional[str] = None,", "C08-NEWLINE"),
        v("limited-buffer-explicit-newline", "liquid/template.py", "return LimitedStringIO(limit=self.env.output_stream_limit)", "return LimitedStringIO(limit=self.env.output_stream_limit, newline=None)", "C08-NEWLINE"),
        v("loop-limit-modulo", CTX, "            > self.env.loop_iteration_limit\n", "            > self.env.loop_iteration_limit % 1000\n", "C08-READ"),
    ]
