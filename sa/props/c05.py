"""C05 — autoescape keeps render data from injecting HTML (clauses).

  C05-SINK    every ``<buffer>.write(x)`` in a node's render method writes one of: a constant /
              f-string of constants and integers; the node's own template text
              (``ContentNode.text``); ``to_liquid_string(<value>, <autoescape flag>)``;
              ``str(<int counter>)``; the ``getvalue()`` of a buffer the node obtained from
              ``get_buffer`` (already-rendered, already-escaped output); or the translate tag's
              ``Markup(message) % {name: to_liquid_string(...)}``.  Anything else is a violation.
  C05-ESCAPE  in ``to_liquid_string`` every return passes ``escape(val)`` when ``autoescape`` is
              set, the list branch joins through ``Markup("").join(soft_str(...))`` (which
              escapes each non-Markup item) and nothing is returned before the escape.
  C05-MARKUP  each ``Markup(...)`` / ``Markupsafe(...)`` construction in ``liquid/`` is one of the
              reviewed rows (21 today) whose argument is a constant, template-literal text,
              already-escaped output of this render, the result of ``escape()`` possibly passed
              through a substitution whose replacement is a constant, the output of a closed
              safe-alphabet encoder, a value already ``Markup`` by a dominating ``isinstance``
              test, a value consumed immediately by ``.unescape()``, or sits in a filter the
              property excludes (``safe``, HTML-generating filters).  A new site, or a reviewed
              site whose argument text changed, is reported.
  C05-LITERAL ``StringLiteral.evaluate`` is the only ``evaluate`` that wraps its own value in
              ``Markup`` and it does so only for template literals.
  C05-REG     every translate filter registration passes ``autoescape_message=env.autoescape`` and
              each translate filter stringifies its message with
              ``to_liquid_string(x, autoescape=autoescape and self.autoescape_message)`` before it
              may become ``Markup``.
  C05-FLAG    the autoescape flag handed to ``to_liquid_string`` at every call site is
              ``context.autoescape`` / ``context.env.autoescape`` / ``environment.autoescape`` (or
              that flag and-ed with ``self.autoescape_message``) — never a constant False.
Trusted: markupsafe's contract (Markup methods and ``%`` escape non-Markup operands).
Not decided: fragments of safe markup cut by slice/truncate (no ``<>"'`` can result).
"""

from __future__ import annotations

import ast

from ..astutil import lfrag, local_names, ltext, call_recv, attr_chain, callee_name, calls, is_name, is_self_attr, text, unwrap_await
from ..core import Result
from ..flow import MustFlow
from ..model import AnchorMissing, Repo, walk_no_nested

PID = "C05"
MIN_OBLIGATIONS = 60
MARKUP_CTORS = {"Markup", "Markupsafe"}

# function qual | argument text (local names of the function written `_`: astutil.ltext)  ->
# (class of justification, reason)
REVIEWED_MARKUP = {
    "liquid.stringify.to_liquid_string|''": ("constant", "empty Markup used only as a joiner: Markup('').join escapes every non-Markup item"),
    "liquid.builtin.expressions.primitive.StringLiteral.evaluate|self.value": ("template-literal", "a string literal written by the template author"),
    "liquid.builtin.filters.array.join|' '": ("constant", "the default separator"),
    "liquid.builtin.filters.extra.safe|val": ("excluded-by-property", "the safe filter marks data safe on purpose"),
    "liquid.builtin.filters.extra.escapejs|_": ("closed-alphabet", "every HTML-special character was replaced by a \\uXXXX escape via _ESCAPE_RE/_ESCAPE_MAP"),
    "liquid.builtin.filters.misc.date|_": ("template-literal-format", "strftime output under a format string that is itself Markup (a template literal): only when isinstance(fmt, Markup)"),
    "liquid.builtin.filters.string.escape_once|val": ("consumed", "immediately .unescape()d into a plain str, which the output statement escapes again"),
    "liquid.builtin.filters.string.newline_to_br|RE_LINETERM.sub('<br />\\n', val)": ("escaped-then-constant-sub", "val = markupsafe_escape(val) first; the replacement is a constant"),
    "liquid.builtin.filters.string.strip_html|_": ("already-markup", "only when the input already was Markup (isinstance test)"),
    "liquid.builtin.filters.string.strip_newlines|RE_LINETERM.sub('', val)": ("escaped-then-constant-sub", "val = markupsafe_escape(val) first; the replacement is a constant"),
    "liquid.builtin.filters.string.url_encode|urllib.parse.quote_plus(val)": ("closed-alphabet", "quote_plus output contains only unreserved characters, '+' and %XX"),
    "liquid.builtin.tags.capture_tag.CaptureNode._assign|buf.getvalue()": ("rendered-output", "output of the captured block, each piece already escaped by its own sink"),
    "liquid.extra.filters.html.stylesheet_tag|_": ("excluded-by-property", "HTML-generating filter; the url is inserted with Markup.format, which escapes it"),
    "liquid.extra.filters.html.script_tag|_": ("excluded-by-property", "HTML-generating filter; the url is inserted with Markup.format, which escapes it"),
    "liquid.extra.filters.translate.Translate.__call__|_": ("escaped-message", "text is the translation of a message stringified with to_liquid_string(autoescape and autoescape_message) (C05-REG)"),
    "liquid.extra.filters.translate.GetText.__call__|_": ("escaped-message", "as Translate"),
    "liquid.extra.filters.translate.NGetText.__call__|_": ("escaped-message", "as Translate"),
    "liquid.extra.filters.translate.PGetText.__call__|_": ("escaped-message", "as Translate"),
    "liquid.extra.filters.translate.NPGetText.__call__|_": ("escaped-message", "as Translate"),
    "liquid.extra.filters.translate.BaseTranslateFilter.format_message|_": ("already-markup", "re-wraps the percent-doubled copy of a message that already was Markup (isinstance test); doubling % adds no markup"),
    "liquid.extra.tags.extends_tag.BlockDrop.__getitem__|_.getvalue()": ("rendered-output", "output of the parent block rendered into a get_buffer buffer"),
    "liquid.extra.tags.translate_tag.TranslateNode._format_message|message_text": ("template-literal", "message text of the translate block (template text with % doubled) or its catalogue translation"),
}
# extra structural conditions a reviewed row depends on (checked on every run)
REVIEWED_SINK = {
    "liquid.extra.tags.macro_tag.CallNode.render_to_output|str(macro)": "macro is an Undefined here (isinstance test dominates): its text is the macro name written in the template",
    "liquid.extra.tags.macro_tag.CallNode.render_to_output_async|str(macro)": "as the sync sibling",
}


def _is_const_fstring(e) -> bool:
    if isinstance(e, ast.Constant) and isinstance(e.value, str):
        return True
    if isinstance(e, ast.JoinedStr):
        for v in e.values:
            if isinstance(v, ast.Constant):
                continue
            # integer-valued helper fields only: tablerow.col / tablerow.row + 1
            t = text(v.value)
            if not (t.startswith("tablerow.") and all(ch.isalnum() or ch in "._ +1" for ch in t)):
                return False
        return True
    return False


def _escaped_then_constant_sub(repo: Repo, f, arg) -> bool:
    """``<regex>.sub(<replacement>, markupsafe_escape(<x>))`` where the replacement is a string
    constant, or a parameter of a private helper to which every call site in the module passes a
    string constant: escaping first and substituting constants keeps the value safe."""
    from ..astutil import bind_args as _bind

    if not (isinstance(arg, ast.Call) and callee_name(arg) == "sub" and len(arg.args) == 2):
        return False
    repl, val = arg.args
    if not (isinstance(val, ast.Call) and callee_name(val) in ("markupsafe_escape", "escape") and len(val.args) == 1):
        return False
    if isinstance(repl, ast.Constant) and isinstance(repl.value, str):
        return True
    if isinstance(repl, ast.Name) and repl.id in f.params() and f.name.startswith("_"):
        sites = []
        for g in list(f.module.functions.values()) + [m for c in f.module.classes.values() for m in c.methods.values()]:
            for cc in ast.walk(g.node):
                if isinstance(cc, ast.Call) and (is_name(cc.func, f.name) or (isinstance(cc.func, ast.Attribute) and cc.func.attr == f.name)):
                    b = _bind(cc, f.node, skip_self=f.cls is not None)
                    sites.append(b.get(repl.id) if b else None)
        return bool(sites) and all(isinstance(a, ast.Constant) and isinstance(a.value, str) for a in sites)
    return False


def _plain_str_stays_unsafe(fn: ast.AST, call: ast.Call) -> bool:
    """``to_liquid_string(x, False)`` gives a plain, unescaped ``str``.  That is harmless as long as
    this function never marks it safe or writes it: the value (and the locals it is copied to,
    also through ``str()``) may be an argument of ``<Markup>.format`` / ``.join`` / ``%`` (which
    escape plain strings) or of an escape function, may be returned (the output statement escapes
    it like any other string) — but not be the argument of a Markup constructor or of ``write``."""
    names: set[str] = set()

    def holds(e: ast.AST) -> bool:
        return any(x is call or (isinstance(x, ast.Name) and x.id in names) for x in ast.walk(e))

    changed = True
    while changed:
        changed = False
        for st in ast.walk(fn):
            if isinstance(st, ast.Assign) and len(st.targets) == 1 and isinstance(st.targets[0], ast.Name) and st.targets[0].id not in names and holds(st.value):
                names.add(st.targets[0].id)
                changed = True
    for n in ast.walk(fn):
        if isinstance(n, ast.Call):
            direct = list(n.args) + [k.value for k in n.keywords]
            if isinstance(n.func, ast.Name) and n.func.id in MARKUP_CTORS and any(holds(a) for a in direct):
                return False
            if callee_name(n) == "write" and any(holds(a) for a in direct):
                return False
    return True


def _canonical_stringify(repo: Repo, f0):
    """``to_liquid_string`` in the form the C05-ESCAPE rules read: private helpers inlined (a
    ``_stringify(val, autoescape)`` with early returns becomes the if/elif chain again), the
    result variable merged into the value parameter when the function builds its result in a
    separate local (``rv = ...; return rv``), and the two parameters named ``val`` / ``autoescape``."""
    import copy as _cp

    from ..normalize import NFunc, nfunc

    f = nfunc(repo, f0)
    node = _cp.deepcopy(f.node)
    ps = [a.arg for a in node.args.args]
    if len(ps) < 2:
        return f
    p_val, p_auto = ps[0], ps[1]
    rets = [r for r in walk_no_nested(node) if isinstance(r, ast.Return)]
    if len(rets) == 1 and isinstance(rets[0].value, ast.Name) and rets[0].value.id != p_val:
        r_name = rets[0].value.id
        # sound when the parameter is not read again once the result variable has been escaped /
        # asserted / returned: after the statement that first assigns the result only the result
        # is used at top level
        first = next((i for i, st in enumerate(node.body) if any(isinstance(x, ast.Name) and x.id == r_name and isinstance(x.ctx, ast.Store) for x in ast.walk(st))), None)
        later_reads = first is not None and any(isinstance(x, ast.Name) and x.id == p_val for st in node.body[first + 1 :] for x in ast.walk(st))
        if first is not None and not later_reads:
            for x in ast.walk(node):
                if isinstance(x, ast.Name) and x.id == r_name:
                    x.id = p_val
    ren = {p_val: "val", p_auto: "autoescape"}
    used = {x.id for x in ast.walk(node) if isinstance(x, ast.Name)} | set(ps)
    for old_, new_ in ren.items():
        if old_ != new_ and new_ not in used:
            for x in ast.walk(node):
                if isinstance(x, ast.Name) and x.id == old_:
                    x.id = new_
                elif isinstance(x, ast.arg) and x.arg == old_:
                    x.arg = new_
    # `val = val` (the pass-through branch once the result variable is merged) is `pass`
    for n in ast.walk(node):
        for fld in ("body", "orelse"):
            blk = getattr(n, fld, None)
            if isinstance(blk, list):
                for i, st in enumerate(blk):
                    if isinstance(st, ast.Assign) and len(st.targets) == 1 and isinstance(st.targets[0], ast.Name) and isinstance(st.value, ast.Name) and st.value.id == st.targets[0].id:
                        blk[i] = ast.copy_location(ast.Pass(), st)
    return NFunc(f0, node)


def run(repo: Repo) -> Result:
    res = Result(PID)
    res.rules = ["C05-SINK", "C05-ESCAPE", "C05-MARKUP", "C05-LITERAL", "C05-REG", "C05-FLAG"]
    res.explanation = "closed classification of every output sink and every Markup construction; must-escape flow rule in to_liquid_string; registration table of the translate filters"
    res.assumptions = ["markupsafe: Markup.join/format/%/+ escape non-Markup operands; escape() returns Markup", "safe, script_tag and stylesheet_tag are excluded by the property"]

    # ---- C05-SINK --------------------------------------------------------------
    import copy as _copy

    from ..normalize import NFunc as _NF
    from ..normalize import propagate_aliases as _propagate

    n_w = 0
    for c in repo.subclasses("liquid.ast.Node"):
        for f0 in c.methods.values():
            # every method of a node class (helpers extracted from the render methods included),
            # with bound-method aliases such as `write = buffer.write` propagated to their uses
            if f0.name.startswith("__") and f0.name != "__call__":
                continue
            if not any(isinstance(n, ast.Attribute) and n.attr == "write" for n in ast.walk(f0.node)):
                continue
            f = _NF(f0, _propagate(_copy.deepcopy(f0.node)))
            bufs_from_get_buffer = {t.id for st in ast.walk(f.node) if isinstance(st, ast.Assign) and isinstance(unwrap_await(st.value), ast.Call) and callee_name(unwrap_await(st.value)) == "get_buffer" for t in st.targets if isinstance(t, ast.Name)}
            getvalue_vars = {t.id for st in ast.walk(f.node) if isinstance(st, ast.Assign) and isinstance(st.value, ast.Call) and callee_name(st.value) == "getvalue" and isinstance(call_recv(st.value), ast.Name) and call_recv(st.value).id in bufs_from_get_buffer for t in st.targets if isinstance(t, ast.Name)}
            def classify(fn, arg, depth=0):
                """(ok, why) for a value written to the output inside method ``fn`` of class c"""
                bufs = {t.id for st in ast.walk(fn.node) if isinstance(st, ast.Assign) and isinstance(unwrap_await(st.value), ast.Call) and callee_name(unwrap_await(st.value)) == "get_buffer" for t in st.targets if isinstance(t, ast.Name)}
                gv = {t.id for st in ast.walk(fn.node) if isinstance(st, ast.Assign) and isinstance(st.value, ast.Call) and callee_name(st.value) == "getvalue" and isinstance(call_recv(st.value), ast.Name) and call_recv(st.value).id in bufs for t in st.targets if isinstance(t, ast.Name)}
                if arg is None:
                    return False, ""
                if _is_const_fstring(arg):
                    return True, "constant"
                if attr_chain(arg) == ["self", "text"] and c.qual == "liquid.builtin.content.ContentNode":
                    return True, "template text"
                if isinstance(arg, ast.Call) and callee_name(arg) == "to_liquid_string":
                    return True, "to_liquid_string"
                if isinstance(arg, ast.Call) and is_name(arg.func, "str") and isinstance(arg.args[0], ast.Call) and callee_name(arg.args[0]) in ("increment", "decrement"):
                    return True, "integer counter"
                if isinstance(arg, ast.Name) and arg.id in gv:
                    return True, "rendered output of an intermediate buffer"
                if isinstance(arg, ast.Call) and callee_name(arg) == "getvalue" and isinstance(call_recv(arg), ast.Name) and call_recv(arg).id in bufs:
                    return True, "rendered output of an intermediate buffer"
                if isinstance(arg, ast.Call) and is_self_attr(arg.func, "_format_message") and c.name == "TranslateNode":
                    return True, "translate message (checked below)"
                if f"{fn.qual}|{text(arg)[:60]}" in REVIEWED_SINK:
                    return True, "reviewed"
                # a parameter of a private helper of this class: judged at every call site
                if isinstance(arg, ast.Name) and depth < 2 and fn.name.startswith("_") and arg.id in fn.params() and arg.id not in ("self", "cls"):
                    from ..astutil import bind_args as _bind

                    sites = []
                    for g0 in c.methods.values():
                        if g0.qual == fn.qual:
                            continue
                        g = _NF(g0, _propagate(_copy.deepcopy(g0.node)))
                        for cc in ast.walk(g.node):
                            if isinstance(cc, ast.Call) and is_self_attr(cc.func, fn.name):
                                b = _bind(cc, fn.node)
                                sites.append((g, b.get(arg.id) if b else None))
                    if sites and all(a is not None and classify(g, a, depth + 1)[0] for g, a in sites):
                        return True, f"parameter of a private helper; every call site passes: {sorted({classify(g, a, depth + 1)[1] for g, a in sites})}"
                return False, ""

            for w in ast.walk(f.node):
                if not (isinstance(w, ast.Call) and callee_name(w) == "write" and isinstance(w.func, ast.Attribute)):
                    continue
                n_w += 1
                arg = w.args[0] if w.args else None
                construct = f"{f.qual}|{text(arg)[:60] if arg is not None else ''}"
                res.ob(construct)
                ok, why = classify(f, arg)
                if not ok:
                    res.add("C05-SINK", f.qual, f"write:{text(arg)[:50] if arg is not None else ''}", f"{f.qual} writes `{text(arg)[:70] if arg is not None else ''}` to the output without going through to_liquid_string: render data reaches the output unescaped under autoescape", f.file, w.lineno)
                else:
                    res.sample({"rule": "C05-SINK", "site": f.qual, "writes": text(arg)[:60], "class": why}, cap=10)
    if n_w < 20:
        raise AnchorMissing(f"only {n_w} output write sites found")
    # the translate tag's formatter
    fm0 = repo.own_method("liquid.extra.tags.translate_tag.TranslateNode", "_format_message")
    fm = _NF(fm0, _propagate(_copy.deepcopy(fm0.node)))
    res.ob(fm.qual, 2)
    # every value of the mapping that is the right operand of `%` is
    # to_liquid_string(<context.resolve(...)>, autoescape=context.env.autoescape) — whether the
    # mapping is a dict comprehension or filled in a loop — and the left operand is the message text
    fm_ok = False
    mods_fm = [n for n in ast.walk(fm.node) if isinstance(n, ast.BinOp) and isinstance(n.op, ast.Mod)]
    if len(mods_fm) == 1 and isinstance(mods_fm[0].right, ast.Name) and isinstance(mods_fm[0].left, ast.Name) and mods_fm[0].left.id in fm.orig.params():
        mv = mods_fm[0].right.id
        vals = []
        for st in ast.walk(fm.node):
            tg = st.targets[0] if isinstance(st, ast.Assign) and len(st.targets) == 1 else st.target if isinstance(st, ast.AnnAssign) else None
            if tg is None or getattr(st, "value", None) is None:
                continue
            if is_name(tg, mv):
                if isinstance(st.value, ast.DictComp):
                    vals.append(st.value.value)
                elif isinstance(st.value, ast.Dict):
                    vals += list(st.value.values)
                else:
                    vals.append(st.value)
            elif isinstance(tg, ast.Subscript) and is_name(tg.value, mv):
                vals.append(st.value)

        def escaped_value(v) -> bool:
            if not (isinstance(v, ast.Call) and callee_name(v) == "to_liquid_string" and v.args):
                return False
            flag = v.args[1] if len(v.args) > 1 else next((k.value for k in v.keywords if k.arg == "autoescape"), None)
            return flag is not None and text(flag) in ("context.env.autoescape", "context.autoescape") and isinstance(v.args[0], ast.Call) and callee_name(v.args[0]) == "resolve"

        fm_ok = bool(vals) and all(escaped_value(v) for v in vals)
    if not fm_ok:
        res.add("C05-SINK", fm.qual, "format", "TranslateNode._format_message must interpolate to_liquid_string(..., autoescape=context.env.autoescape) values into the Markup message with %", fm.file, fm.line)

    # ---- C05-ESCAPE --------------------------------------------------------------
    tls = _canonical_stringify(repo, repo.func("liquid.stringify.to_liquid_string"))
    res.ob(tls.qual, 3)
    state = {"rets": []}

    def gen_cond(test, truth):
        if is_name(test, "autoescape"):
            return {"auto"} if truth else {"not-auto"}
        return set()

    def gen(st):
        if isinstance(st, ast.Assign) and is_name(st.targets[0], "val") and isinstance(st.value, ast.Call) and is_name(st.value.func, "escape") and st.value.args and is_name(st.value.args[0], "val"):
            return {"escaped"}
        return set()

    def kill(st, facts):
        if isinstance(st, ast.Assign) and is_name(st.targets[0], "val") and not (isinstance(st.value, ast.Call) and is_name(st.value.func, "escape")):
            return {"escaped"} & facts
        return set()

    flow = MustFlow(gen=gen, gen_cond=gen_cond, kill=kill)
    exits = flow.run(tls.node)
    rets = [(k, n, st) for k, n, st in exits if k in ("return", "fallthrough")]
    if not rets:
        res.add("C05-ESCAPE", tls.qual, "no-return", "to_liquid_string never returns", tls.file, tls.line)
    # the escape statement: `if autoescape: val = escape(val)` must be the last thing before return
    body = [s for s in tls.node.body if not (isinstance(s, ast.Expr) and isinstance(s.value, ast.Constant))]
    esc_if = [s for s in body if isinstance(s, ast.If) and is_name(s.test, "autoescape") and any(text(x) == "val = escape(val)" for x in s.body)]
    if len(esc_if) != 1 or esc_if[0].orelse:
        res.add("C05-ESCAPE", tls.qual, "escape-step", "to_liquid_string must end with `if autoescape: val = escape(val)`", tls.file, tls.line)
    else:
        i = body.index(esc_if[0])
        for s in body[:i]:
            for n in ast.walk(s):
                if isinstance(n, ast.Return):
                    res.add("C05-ESCAPE", tls.qual, "early-return", "to_liquid_string returns before the escape step", tls.file, n.lineno)
        for s in body[i + 1 :]:
            if isinstance(s, ast.Assign) and is_name(s.targets[0], "val"):
                res.add("C05-ESCAPE", tls.qual, "reassigned-after-escape", f"`{text(s)[:50]}` rebinds val after it was escaped", tls.file, s.lineno)
        rr = [s for s in body if isinstance(s, ast.Return)]
        if len(rr) != 1 or not is_name(rr[0].value, "val"):
            res.add("C05-ESCAPE", tls.qual, "returns", "to_liquid_string must return the (escaped) val", tls.file, tls.line)
    # list branch
    # Under autoescape the items of a list are joined by a *Markup* joiner (Markup.join escapes
    # every item that is not itself Markup).  The joiner may be written in place, chosen by a
    # conditional expression on `autoescape`, or be a local / module constant bound to Markup(<literal>).
    from ..astutil import single_assignments
    from ..guards import canon as _canon
    from ..guards import conditions as _conditions

    lst = [n for n in ast.walk(tls.node) if isinstance(n, ast.If) and text(n.test) == "isinstance(val, list)"]
    local1 = single_assignments(tls.node)

    def markup_when_autoescape(e, depth=0) -> bool:
        if depth > 4:
            return False
        if isinstance(e, ast.Call) and callee_name(e) in ("Markup", "Markupsafe") and len(e.args) == 1 and isinstance(e.args[0], ast.Constant) and isinstance(e.args[0].value, str):
            return True
        if isinstance(e, ast.IfExp) and is_name(e.test, "autoescape"):
            return markup_when_autoescape(e.body, depth + 1)
        if isinstance(e, ast.Name):
            if e.id in local1:
                return markup_when_autoescape(local1[e.id], depth + 1)
            # bound in several branches (`if autoescape: j = Markup("") else: j = ""`): every binding
            # that can be live under autoescape must be Markup
            ba = [(st_, [_canon(c_) for c_ in cs_]) for st_, cs_ in _conditions(tls.node) if isinstance(st_, ast.Assign) and len(st_.targets) == 1 and is_name(st_.targets[0], e.id)]
            if ba:
                live = [st_ for st_, cc_ in ba if "not autoescape" not in cc_]
                return bool(live) and all(markup_when_autoescape(st_.value, depth + 1) for st_ in live)
            v = tls.module.assigns.get(e.id)
            if v is not None:
                return markup_when_autoescape(v, depth + 1)
        return False

    ok_join = False
    if lst:
        conds = {id(st): [_canon(c) for c in cs] for st, cs in _conditions(tls.node)}
        joins = []
        for st, _cs in _conditions(ast.Module(body=lst[0].body, type_ignores=[])):
            if hasattr(st, "body"):
                continue  # compound statement: its simple statements are visited on their own
            for c in calls(st):
                if callee_name(c) == "join" and isinstance(c.func, ast.Attribute):
                    joins.append((st, c))
        cond_in_branch = {id(st): [_canon(c) for c in cs] for st, cs in _conditions(ast.Module(body=lst[0].body, type_ignores=[]))}
        relevant = [(st, c) for st, c in joins if "not autoescape" not in cond_in_branch.get(id(st), [])]
        ok_join = bool(relevant) and all(
            markup_when_autoescape(c.func.value)
            and c.args
            and isinstance(c.args[0], (ast.GeneratorExp, ast.ListComp))
            and isinstance(c.args[0].elt, ast.Call)
            and callee_name(c.args[0].elt) == "soft_str"
            and text(c.args[0].generators[0].iter) == "val"
            for st, c in relevant
        )
    if not ok_join:
        res.add("C05-ESCAPE", tls.qual, "list-join", "lists must be joined with Markup('').join(soft_str(itm) ...) under autoescape (escapes every non-Markup item)", tls.file, tls.line)
    # the branch that lets a value through unconverted (`pass`), wherever the chain sits (it may be
    # wrapped in a try): its test is `isinstance(val, str) or (autoescape and hasattr(val, "__html__"))`
    passthrough = [n for n in ast.walk(tls.node) if isinstance(n, ast.If) and len(n.body) == 1 and isinstance(n.body[0], ast.Pass)]

    def pass_test_ok(t) -> bool:
        if not (isinstance(t, ast.BoolOp) and isinstance(t.op, ast.Or) and len(t.values) == 2):
            return False
        parts = {text(v) for v in t.values}
        return "isinstance(val, str)" in parts and bool(parts & {"autoescape and hasattr(val, '__html__')", "hasattr(val, '__html__') and autoescape"})

    if not (len(passthrough) == 1 and pass_test_ok(passthrough[0].test)):
        res.add("C05-ESCAPE", tls.qual, "html-protocol", "values are passed through only if they are str or (under autoescape) implement __html__", tls.file, tls.line)

    # ---- C05-MARKUP ---------------------------------------------------------------
    seen = set()
    used_rows: set[str] = set()
    for f in repo.all_functions():
        loc = None
        for n in ast.walk(f.node):
            if isinstance(n, ast.Call) and isinstance(n.func, ast.Name) and n.func.id in MARKUP_CTORS:
                if loc is None:
                    loc = local_names(f.node)
                arg = n.args[0] if n.args else None
                # a local bound exactly once stands for its definition (an inlined or
                # extracted temporary is the same construction)
                if isinstance(arg, ast.Name):
                    binds = [x.value for x in ast.walk(f.node) if isinstance(x, ast.Assign) and len(x.targets) == 1 and isinstance(x.targets[0], ast.Name) and x.targets[0].id == arg.id]
                    params = {a.arg for a in f.node.args.args + f.node.args.kwonlyargs + f.node.args.posonlyargs}
                    if len(binds) == 1 and arg.id not in params and f"{f.qual}|{ltext(arg, loc)}" not in REVIEWED_MARKUP:
                        arg = binds[0]
                key = f"{f.qual}|{ltext(arg, loc) if arg is not None else ''}"
                seen.add(key)
                res.ob(f"markup:{key}")
                row = REVIEWED_MARKUP.get(key)
                if row is None:
                    # Markup(<string constant>) — written in place, through a local bound once, or a
                    # module constant: no render data in it
                    a0 = arg
                    if isinstance(a0, ast.Name) and a0.id in f.module.assigns:
                        a0 = f.module.assigns[a0.id]
                    if isinstance(a0, ast.Name):
                        # every binding of the local is a string constant (also through tuple
                        # unpacking) or re-wraps the local itself
                        vals_ = []
                        for x in ast.walk(f.node):
                            if isinstance(x, ast.Assign) and len(x.targets) == 1:
                                tg_, vl_ = x.targets[0], x.value
                                if isinstance(tg_, ast.Name) and tg_.id == a0.id:
                                    vals_.append(vl_)
                                elif isinstance(tg_, ast.Tuple) and isinstance(vl_, ast.Tuple) and len(tg_.elts) == len(vl_.elts):
                                    vals_ += [v_ for t_, v_ in zip(tg_.elts, vl_.elts) if isinstance(t_, ast.Name) and t_.id == a0.id]
                                elif isinstance(tg_, ast.Tuple) and any(isinstance(t_, ast.Name) and t_.id == a0.id for t_ in tg_.elts):
                                    vals_.append(None)
                        params_ = {a.arg for a in f.node.args.args + f.node.args.kwonlyargs + f.node.args.posonlyargs}
                        if vals_ and a0.id not in params_ and all(v_ is not None and ((isinstance(v_, ast.Constant) and isinstance(v_.value, str)) or (isinstance(v_, ast.Call) and isinstance(v_.func, ast.Name) and v_.func.id in MARKUP_CTORS and len(v_.args) == 1 and is_name(v_.args[0], a0.id))) for v_ in vals_):
                            row = ("constant", "every binding of the local is a string constant")
                    if isinstance(a0, ast.Constant) and isinstance(a0.value, str):
                        row = ("constant", "a string constant holds no render data")
                if row is None and isinstance(arg, ast.Name) and f.name.startswith("_") and arg.id in f.params() and arg.id not in ("self", "cls"):
                    # a parameter of a private helper: the construction is judged at every call site
                    # (the same statement moved out of the functions that have reviewed rows)
                    from ..astutil import bind_args as _bind_m

                    owners = list(f.cls.methods.values()) if f.cls is not None else list(f.module.functions.values())
                    if f.cls is not None:
                        for sub in repo.subclasses(f.cls.qual, strict=True):
                            owners += list(sub.methods.values())
                    sites_ok = []
                    for g in owners:
                        if g.qual == f.qual:
                            continue
                        gl = None
                        for cc in ast.walk(g.node):
                            if isinstance(cc, ast.Call) and callee_name(cc) == f.name:
                                b = _bind_m(cc, f.node) or {}
                                a_site = b.get(arg.id)
                                if gl is None:
                                    gl = local_names(g.node)
                                sites_ok.append(a_site is not None and f"{g.qual}|{ltext(a_site, gl)}" in REVIEWED_MARKUP)
                                if sites_ok[-1]:
                                    used_rows.add(g.qual)
                    if sites_ok and all(sites_ok):
                        row = ("parameter-of-private-helper", "every call site passes a value with a reviewed row")
                if row is None and _escaped_then_constant_sub(repo, f, arg):
                    row = ("escaped-then-constant-sub", "the value is HTML-escaped in place and only a constant replacement is substituted into it")
                if row is not None:
                    used_rows.add(f.qual)
                if row is None:
                    res.add("C05-MARKUP", f.qual, f"Markup({ltext(arg, loc)[:50] if arg is not None else ''})", f"{f.qual} marks `{text(arg)[:60] if arg is not None else ''}` as safe markup; this construction is not in the reviewed table (constant / template literal / escaped value / closed alphabet / rendered output)", f.file, n.lineno)
                else:
                    res.sample({"rule": "C05-MARKUP", "site": key, "class": row[0]}, cap=30)
    # module-level Markup constructions
    for m in repo.modules.values():
        for st in m.tree.body:
            for n in ast.walk(st):
                if isinstance(st, (ast.FunctionDef, ast.AsyncFunctionDef, ast.ClassDef)):
                    break
                if isinstance(n, ast.Call) and isinstance(n.func, ast.Name) and n.func.id in MARKUP_CTORS:
                    res.ob(f"markup-module:{m.name}")
                    if not (n.args and isinstance(n.args[0], ast.Constant)):
                        res.add("C05-MARKUP", m.name, f"module:{text(n)[:40]}", f"{m.name}: module-level `{text(n)[:60]}`", m.relpath, n.lineno)
    if len(seen) < 18:
        raise AnchorMissing(f"only {len(seen)} Markup constructions found")
    # conditions the reviewed rows rely on
    def fn_text(q):
        return text(repo.func(q).node)

    # (fragments are written with the function's local names as `_`, the form ltext produces)
    conds = [
        ("liquid.builtin.filters.string.newline_to_br", "val = markupsafe_escape(val)", "escape-before-sub"),
        ("liquid.builtin.filters.string.strip_newlines", "val = markupsafe_escape(val)", "escape-before-sub"),
        ("liquid.builtin.filters.string.strip_html", "if environment.autoescape and isinstance(val, Markup):", "already-markup-test"),
        ("liquid.builtin.filters.string.escape_once", "return Markup(val).unescape()", "consumed-by-unescape"),
        ("liquid.builtin.filters.misc.date", "if environment.autoescape and isinstance(fmt, Markup):", "literal-format-test"),
        ("liquid.builtin.filters.extra.escapejs", "_ = _ESCAPE_RE.sub(lambda m: _ESCAPE_MAP[m.group()], val)", "closed-alphabet"),
        ("liquid.extra.filters.html.script_tag", "return Markup(_).format(str(url))", "markup-format"),
        ("liquid.extra.filters.html.stylesheet_tag", "return Markup(_).format(str(url))", "markup-format"),
        ("liquid.builtin.filters.string.escape", "return markupsafe_escape(str(val))", "escape-filter"),
        ("liquid.extra.filters.translate.BaseTranslateFilter.format_message", "if isinstance(message_text, Markup):", "already-markup-test"),
    ]
    def has_markup(q) -> bool:
        return any(isinstance(n, ast.Call) and isinstance(n.func, ast.Name) and n.func.id in MARKUP_CTORS for n in ast.walk(repo.func(q).node))

    for q, frag, name in conds:
        res.ob(f"cond:{q}:{name}")
        if name != "escape-filter" and not has_markup(q):
            continue  # the row is not in use: the function no longer marks anything safe itself
        loc_q = local_names(repo.func(q).node)
        if lfrag(frag, loc_q) not in ltext(repo.func(q).node, loc_q):
            res.add("C05-MARKUP", q, f"condition:{name}", f"{q}: the reviewed Markup row relies on `{frag}`, which is no longer there", repo.func(q).file, repo.func(q).line)
    # the substitution in newline_to_br/strip_newlines: escape dominates the sub and replacement constant
    for q in ("liquid.builtin.filters.string.newline_to_br", "liquid.builtin.filters.string.strip_newlines"):
        f = repo.func(q)
        res.ob(f"cond:{q}:order")
        if not has_markup(q):
            continue
        iff = next((n for n in ast.walk(f.node) if isinstance(n, ast.If) and "environment.autoescape" in text(n.test)), None)
        if iff is None or len(iff.body) != 2 or text(iff.body[0]) != "val = markupsafe_escape(val)" or not isinstance(iff.body[1], ast.Return):
            res.add("C05-MARKUP", q, "condition:escape-dominates", f"{q}: under autoescape the value must be escaped immediately before the constant substitution", f.file, f.line)
    em = repo.module("liquid.builtin.filters.extra").assigns.get("_ESCAPE_MAP")
    res.ob("cond:escapejs:map")
    keys = {k.value for k in em.keys if isinstance(k, ast.Constant)} if isinstance(em, ast.Dict) else set()
    if not {"<", ">", "&", "'", '"'} <= keys:
        res.add("C05-MARKUP", "liquid.builtin.filters.extra._ESCAPE_MAP", "condition:html-specials", "escapejs marks its result safe, so its map must replace all of < > & ' \"", "liquid/builtin/filters/extra.py", getattr(em, "lineno", 0))

    # ---- C05-LITERAL ----------------------------------------------------------------
    for c in repo.subclasses("liquid.expression.Expression", strict=True):
        for m in ("evaluate", "evaluate_async"):
            f = c.methods.get(m)
            if f is None:
                continue
            res.ob(f"literal:{f.qual}")
            if any(isinstance(n, ast.Call) and isinstance(n.func, ast.Name) and n.func.id in MARKUP_CTORS for n in ast.walk(f.node)) and c.name != "StringLiteral":
                res.add("C05-LITERAL", f.qual, "markup", f"{f.qual} marks an evaluated value as safe markup; only string literals may", f.file, f.line)
    # StringLiteral is built only from tokens (template text)
    n_sl = 0
    for f in repo.all_functions():
        for c in calls(f.node, nested=True):
            if isinstance(c.func, ast.Name) and c.func.id == "StringLiteral":
                n_sl += 1
                res.ob(f"stringliteral-ctor:{f.qual}")
                v = c.args[1] if len(c.args) > 1 else next((k.value for k in c.keywords if k.arg == "value"), None)
                tok = c.args[0] if c.args else next((k.value for k in c.keywords if k.arg == "token"), None)
                # `StringLiteral(<token>, <token>.value)`: the value of the very token it is built for
                def is_token_expr(e, depth=0) -> bool:
                    e = unwrap_await(e)
                    if isinstance(e, ast.Call) and (is_name(e.func, "next") or callee_name(e) in ("expect", "eat", "eat_one_of", "next_token")):
                        return True
                    if isinstance(e, ast.Attribute) and e.attr in ("current", "peek"):
                        return True
                    if isinstance(e, ast.Name) and depth < 3:
                        b = [x.value for x in ast.walk(f.node) if isinstance(x, ast.Assign) and len(x.targets) == 1 and is_name(x.targets[0], e.id)]
                        return bool(b) and all(is_token_expr(x, depth + 1) for x in b)
                    return False

                from_token = isinstance(v, ast.Attribute) and v.attr == "value" and (is_token_expr(v.value) or (tok is not None and text(v.value) == text(tok)))
                if not (v is not None and (from_token or isinstance(v, ast.Constant))):
                    res.add("C05-LITERAL", f.qual, f"StringLiteral({ltext(v, local_names(f.node))[:30] if v is not None else ''})", f"{f.qual} builds a StringLiteral from `{text(v)[:40] if v is not None else ''}`, not from template text", f.file, c.lineno)
    if n_sl < 3:
        raise AnchorMissing("StringLiteral construction sites not found")

    # ---- C05-REG ---------------------------------------------------------------------
    af = repo.func("liquid.extra.add_filters")
    n_reg = 0
    tr_classes = {c.name for c in repo.subclasses("liquid.extra.filters.translate.BaseTranslateFilter", strict=True)}
    for c in calls(af.node):
        if isinstance(c.func, ast.Name) and c.func.id in tr_classes:
            n_reg += 1
            res.ob(f"reg:{c.func.id}")
            kw = {k.arg: text(k.value) for k in c.keywords}
            if kw.get("autoescape_message") != "env.autoescape":
                res.add("C05-REG", af.qual, f"{c.func.id}:autoescape_message={kw.get('autoescape_message')}", f"{af.qual} registers {c.func.id} without autoescape_message=env.autoescape: under autoescape the filter marks an unescaped data value as safe", af.file, c.lineno)
    if n_reg < 5:
        raise AnchorMissing(f"only {n_reg} translate filter registrations found")
    for cname in sorted(tr_classes):
        c = repo.cls(f"liquid.extra.filters.translate.{cname}")
        f = c.methods.get("__call__")
        if f is None:
            continue
        res.ob(f"reg-call:{cname}")
        # the local alias of context.env.autoescape (whatever it is called) is propagated
        f = _NF(f, _propagate(_copy.deepcopy(f.node)))
        t = text(f.node)
        FLAG = ("autoescape and self.autoescape_message", "context.env.autoescape and self.autoescape_message")
        # every positional message parameter is re-bound through to_liquid_string(..., autoescape=autoescape and self.autoescape_message)
        for st in walk_no_nested(f.node):
            if isinstance(st, ast.Assign) and isinstance(st.value, ast.Call) and callee_name(st.value) == "to_liquid_string":
                kw = {k.arg: text(k.value) for k in st.value.keywords}
                if kw.get("autoescape") not in FLAG:
                    res.add("C05-REG", f.qual, f"stringify:{text(st.targets[0])}", f"{f.qual}: `{text(st)[:70]}` must stringify with autoescape=autoescape and self.autoescape_message", f.file, st.lineno)
        if "autoescape = context.env.autoescape" not in t and "context.env.autoescape and self.autoescape_message" not in t:
            res.add("C05-REG", f.qual, "flag", f"{f.qual} must read the flag from context.env.autoescape", f.file, f.line)
        # the first positional (message) must be stringified before the gettext call
        first_param = [a.arg for a in f.node.args.args if a.arg != "self"][0]
        if not any(f"{first_param} = to_liquid_string({first_param}, autoescape={fl})" in t for fl in FLAG):
            res.add("C05-REG", f.qual, "message-not-stringified", f"{f.qual}: the message `{first_param}` must be stringified (and escaped) before translation", f.file, f.line)
        # flow: every str argument handed to translations.*gettext() is, on every path, the
        # result of that stringification (rebinding the name afterwards loses the fact)
        def gen(st):
            if isinstance(st, ast.Assign) and len(st.targets) == 1 and isinstance(st.targets[0], ast.Name) and isinstance(st.value, ast.Call) and callee_name(st.value) == "to_liquid_string":
                kw = {k.arg: text(k.value) for k in st.value.keywords}
                if kw.get("autoescape") in ("autoescape and self.autoescape_message", "context.env.autoescape and self.autoescape_message"):
                    return {("esc", st.targets[0].id)}
            return set()

        def kill(st, facts):
            dead = set()
            if isinstance(st, (ast.Assign, ast.AugAssign)):
                tg = st.targets if isinstance(st, ast.Assign) else [st.target]
                for t_ in tg:
                    if isinstance(t_, ast.Name) and not (isinstance(st, ast.Assign) and isinstance(st.value, ast.Call) and callee_name(st.value) == "to_liquid_string"):
                        dead |= {x for x in facts if x[1] == t_.id}
            return dead

        def visit(node, st, f=f):
            from ..flow import node_calls

            for call in node_calls(node):
                if callee_name(call) in ("gettext", "ngettext", "pgettext", "npgettext") and isinstance(call.func, ast.Attribute) and is_name(call_recv(call), "translations"):
                    for a in call.args:
                        if isinstance(a, ast.Name) and a.id not in ("n", "__count"):
                            res.ob(f"reg-arg:{f.qual}:{a.id}")
                            if ("esc", a.id) not in st:
                                res.add("C05-REG", f.qual, f"unescaped-arg:{a.id}", f"{f.qual}: `{text(call)[:60]}` receives `{a.id}`, which on some path is not the to_liquid_string(..., autoescape and autoescape_message) value — the translated text is then marked safe", f.file, call.lineno)
                        elif isinstance(a, ast.Call) and callee_name(a) != "to_liquid_string":
                            res.add("C05-REG", f.qual, f"unescaped-arg:{text(a)[:30]}", f"{f.qual}: `{text(call)[:60]}` receives `{text(a)[:40]}`", f.file, call.lineno)

        MustFlow(gen=gen, kill=kill, visit=visit).run(f.node)
    bf0 = repo.own_method("liquid.extra.filters.translate.BaseTranslateFilter", "format_message")
    bf = _NF(bf0, _propagate(_copy.deepcopy(bf0.node)))  # local aliases of context.env.autoescape / context.resolve propagated
    res.ob(bf.qual)
    if "to_liquid_string(context.resolve(k), autoescape=context.env.autoescape)" not in text(bf.node):
        res.add("C05-REG", bf.qual, "vars", "format_message must interpolate to_liquid_string(..., autoescape=context.env.autoescape) values", bf.file, bf.line)

    # ---- C05-FLAG -----------------------------------------------------------------------
    n_flag = 0
    ok_flags = {"context.autoescape", "context.env.autoescape", "environment.autoescape", "autoescape", "autoescape and self.autoescape_message"}
    ok_flags |= {"context.env.autoescape and self.autoescape_message"}
    for f0 in repo.all_functions():
        if f0.qual == tls.qual or not any(callee_name(c) == "to_liquid_string" for c in calls(f0.node, nested=True)):
            continue
        # local aliases of the flag (`autoescape = context.env.autoescape`, under any name) propagated
        f = _NF(f0, _propagate(_copy.deepcopy(f0.node)))
        for c in calls(f.node, nested=True):
            if callee_name(c) == "to_liquid_string":
                n_flag += 1
                res.ob(f"flag:{f.qual}")
                flag = c.args[1] if len(c.args) > 1 else next((k.value for k in c.keywords if k.arg == "autoescape"), None)
                ft = text(flag) if flag is not None else None
                plain_false = isinstance(flag, ast.Constant) and flag.value is False and _plain_str_stays_unsafe(f.node, c)
                if plain_false:
                    # stringified WITHOUT escaping into a plain str that this function neither marks
                    # safe nor writes: the output statement escapes the result like any other string
                    continue
                if ft not in ok_flags:
                    res.add("C05-FLAG", f.qual, f"flag:{ft}", f"{f.qual}: to_liquid_string is called with autoescape={ft}; it must be the context's/environment's autoescape flag", f.file, c.lineno)
                elif ft == "autoescape":
                    # local alias must be bound from the context/env flag
                    if "autoescape = context.env.autoescape" not in text(f.node):
                        res.add("C05-FLAG", f.qual, "flag-alias", f"{f.qual}: local `autoescape` is not bound from context.env.autoescape", f.file, c.lineno)
    if n_flag < 10:
        raise AnchorMissing(f"only {n_flag} to_liquid_string call sites found")
    ctx_init = repo.own_method("liquid.context.RenderContext", "__init__")
    res.ob("flag:context-init")
    if "self.autoescape = self.env.autoescape" not in text(ctx_init.node):
        res.add("C05-FLAG", ctx_init.qual, "context.autoescape", "RenderContext.autoescape must mirror env.autoescape", ctx_init.file, ctx_init.line)
    res.stats.update(write_sites=n_w, markup_sites=len(seen), to_liquid_string_sites=n_flag, translate_registrations=n_reg)
    return res


def selftest(repo: Repo):
    from ..selftest import Variant, text_edit

    def v(name, rel, old, new, expect, count=1):
        return lambda: Variant(name, text_edit(repo, rel, old, new, count), expect)

    S = "liquid/builtin/filters/string.py"
    return [
        v("no-escape-step", "liquid/stringify.py", "    if autoescape:\n        val = escape(val)\n", "", "C05-ESCAPE"),
        v("escape-only-strings", "liquid/stringify.py", "    if autoescape:\n        val = escape(val)\n", "    if autoescape and not isinstance(val, str):\n        val = escape(val)\n", "C05-ESCAPE"),
        v("list-plain-join", "liquid/stringify.py", '            val = Markup("").join(soft_str(itm) for itm in val)', '            val = Markup("".join(soft_str(itm) for itm in val))', "C05-"),
        v("output-str", "liquid/builtin/output.py", "        return buffer.write(\n            to_liquid_string(self.expression.evaluate(context), context.autoescape)\n        )", "        return buffer.write(str(self.expression.evaluate(context)))", "C05-SINK"),
        v("cycle-str", "liquid/builtin/tags/cycle_tag.py", "        return buffer.write(\n            to_liquid_string(args[index], autoescape=context.autoescape)\n        )\n\n    async def", "        return buffer.write(str(args[index]))\n\n    async def", "C05-SINK"),
        v("output-flag-false", "liquid/builtin/output.py", "to_liquid_string(self.expression.evaluate(context), context.autoescape)", "to_liquid_string(self.expression.evaluate(context), False)", "C05-FLAG"),
        v("append-marks-safe", S, "    if not isinstance(arg, str):\n        arg = str(arg)\n    return val + arg", "    if not isinstance(arg, str):\n        arg = str(arg)\n    return Markup(val + arg)", "C05-MARKUP"),
        v("newline_to_br-no-escape", S, "        val = markupsafe_escape(val)\n        return Markup(RE_LINETERM.sub(\"<br />\\n\", val))", "        return Markup(RE_LINETERM.sub(\"<br />\\n\", val))", "C05-MARKUP"),
        v("strip_html-always-markup", S, "    if environment.autoescape and isinstance(val, Markup):\n        return Markup(stripped)", "    if environment.autoescape:\n        return Markup(stripped)", "C05-MARKUP"),
        v("url_decode-marks-safe", S, "    return urllib.parse.unquote_plus(val)", "    return Markup(urllib.parse.unquote_plus(val))", "C05-MARKUP"),
        v("path-evaluates-to-markup", "liquid/builtin/expressions/path.py", "        return context.get(\n            [p.evaluate(context) if isinstance(p, Path) else p for p in self.path],\n            token=self.token,\n        )", "        return Markup(context.get(\n            [p.evaluate(context) if isinstance(p, Path) else p for p in self.path],\n            token=self.token,\n        ))", "C05-"),
        v("translate-registered-unescaped", "liquid/extra/__init__.py", "env.filters[Translate.name] = Translate(autoescape_message=env.autoescape)", "env.filters[Translate.name] = Translate()", "C05-REG"),
        v("gettext-message-raw", "liquid/extra/filters/translate.py", "        translations = self._resolve_translations(context)\n        text = translations.gettext(__left)", "        __left = str(__left)\n        translations = self._resolve_translations(context)\n        text = translations.gettext(str(__left))", "C05-"),
        v("capture-raw-data", "liquid/builtin/tags/capture_tag.py", "            context.assign(self.name, Markup(buf.getvalue()))", "            context.assign(self.name, Markup(str(context.resolve(self.name))))", "C05-MARKUP"),
        v("escapejs-forgets-lt", "liquid/builtin/filters/extra.py", '    "<": "\\\\u003C",\n', "", "C05-MARKUP"),
        v("tablerow-writes-data", "liquid/builtin/tags/tablerow_tag.py", "                buffer.write(f'<td class=\"col{tablerow.col}\">')", "                buffer.write(f'<td class=\"col{tablerow.col}\" data-item=\"{item}\">')", "C05-SINK", count=2),
    ]
