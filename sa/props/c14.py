"""C14 — variables resolve to their innermost binding (clauses).

  C14-CHAIN   the three scope-chain constructions list their maps in the documented
              precedence order: ``RenderContext.__init__`` → (locals, globals, builtin,
              counters); ``BoundTemplate.make_globals`` → (render args, matter, template
              globals); ``Environment.make_globals`` → environment globals overridden by
              template globals.
  C14-MAP     ``ReadOnlyChainMap.push`` prepends, ``pop`` removes from the front,
              ``__getitem__`` scans the maps front to back and returns the first hit.
  C14-PAIR    every ``scope.push`` is followed by a ``try`` whose ``finally`` pops exactly
              once (block-scoped names vanish after their block, also on error), and
              push/pop occur nowhere else; ``loops.append`` is paired with ``loops.pop`` in a
              ``finally`` the same way.
  C14-WITH    ``extend`` / ``loop`` are context managers and every call of them is a
              ``with`` item (never called and dropped).
  C14-BLOCK   every tag that binds block-scoped names does so through ``extend``/``loop``
              (for, tablerow, with, include, render_with_context); ``assign``, ``capture``,
              ``snippet`` bind through ``context.assign`` which stores into ``self.locals``.
  C14-INCLUDE ``IncludeNode`` renders on the caller's own context (``extend`` + the same
              ``context`` object) — never on a ``copy``.
  C14-UNDEF   in ``RenderContext.get*``/``_resolve`` every lookup failure of the classes
              ``get_item`` can raise (KeyError, TypeError, IndexError) is converted into
              ``env.undefined(...)`` (or the caller's default).
  C14-ITEM    in ``get_item`` / ``get_item_async``: element 0 is returned only for ``first`` and
              element -1 only for ``last``, both only where the string guard
              (``isinstance(obj, str) and not env.string_first_and_last``) is ruled out by the
              path conditions; ``len(obj)`` only for ``size``; the plain subscription only where
              the ``string_sequences`` guard is ruled out.
  C14-HIT     on a cache hit the reused template carries exactly the globals of the current request
              (the cache-hit rule of C23, re-keyed): an earlier request's template globals never
              keep resolving.
Not decided: path resolution results for particular data (value level).
"""

from __future__ import annotations

import ast

from ..astutil import call_recv, attr_chain, callee_name, calls, handler_types, is_name, is_self_attr, names_in, text, unwrap_await
from ..core import Result
from ..model import AnchorMissing, Repo, walk_no_nested

PID = "C14"
MIN_OBLIGATIONS = 25
CTX = "liquid.context.RenderContext"


def run(repo: Repo) -> Result:
    res = Result(PID)
    res.rules = ["C14-CHAIN", "C14-MAP", "C14-PAIR", "C14-WITH", "C14-BLOCK", "C14-INCLUDE", "C14-UNDEF", "C14-ITEM", "C14-HIT"]
    res.explanation = "scope-chain order tables + push/pop pairing + who-may rules for binding constructs"
    res.assumptions = ["path resolution for particular data is value-level and not decided"]

    # ---- C14-CHAIN -----------------------------------------------------------
    init = repo.own_method(CTX, "__init__")
    res.ob(init.qual)
    chain = None
    for st in walk_no_nested(init.node):
        if isinstance(st, ast.Assign) and is_self_attr(st.targets[0], "scope"):
            chain = st.value
    want = [["self", "locals"], ["self", "globals"], ["builtin"], ["self", "counters"]]
    if not (isinstance(chain, ast.Call) and callee_name(chain) == "ReadOnlyChainMap" and [attr_chain(a) for a in chain.args] == want):
        res.add("C14-CHAIN", init.qual, f"scope={text(chain) if chain is not None else None}", "RenderContext.scope must be ReadOnlyChainMap(self.locals, self.globals, builtin, self.counters)", init.file, init.line)
    # globals param -> self.globals
    res.ob(init.qual + ":globals")
    # by reference whenever a mapping is given: the render tag fills the (still empty, hence
    # falsy) chain map it passed to copy() afterwards — `globals or {}` would drop the innermost
    # binding of `render ... for xs as x` (rule shared with C15-INIT)
    from .c15 import globals_by_reference

    bad = globals_by_reference(repo)
    if bad is not None:
        res.add("C14-CHAIN", init.qual, "self.globals", f"RenderContext.globals must be the globals argument itself whenever one is given; `self.globals = {bad[0]}` replaces an empty mapping (the namespace the render tag fills after copying the context) by a new object: the variable bound by `render 'p' for xs as x` resolves to undefined inside the partial", init.file, bad[1])
    mg = repo.own_method("liquid.template.BoundTemplate", "make_globals")
    res.ob(mg.qual)
    rets = [s for s in walk_no_nested(mg.node) if isinstance(s, ast.Return)]
    want2 = [["render_args"], ["self", "matter"], ["self", "globals"]]
    if not (len(rets) == 1 and isinstance(rets[0].value, ast.Call) and callee_name(rets[0].value) == "ReadOnlyChainMap" and [attr_chain(a) for a in rets[0].value.args] == want2):
        res.add("C14-CHAIN", mg.qual, "order", "BoundTemplate.make_globals must chain (render_args, self.matter, self.globals) in that order", mg.file, mg.line)
    from ..normalize import nfunc as _nfunc14

    for m in ("render", "render_async"):
        f = _nfunc14(repo, repo.own_method("liquid.template.BoundTemplate", m), keep=("make_globals", "_get_buffer", "render_with_context", "render_with_context_async"))  # private helpers inlined
        res.ob(f.qual)
        ok = any(
            isinstance(c, ast.Call) and text(c.func) == "self.context_class" and any(k.arg == "globals" and isinstance(k.value, ast.Call) and callee_name(k.value) == "make_globals" and text(k.value.args[0]) == "dict(*args, **kwargs)" for k in c.keywords)
            for c in calls(f.node)
        )
        if not ok:
            res.add("C14-CHAIN", f.qual, "context-globals", f"{f.qual} must build the context with globals=self.make_globals(dict(*args, **kwargs))", f.file, f.line)
    emg = repo.own_method("liquid.environment.Environment", "make_globals")
    res.ob(emg.qual)
    ok = False
    for r in (s for s in walk_no_nested(emg.node) if isinstance(s, ast.Return)):
        v = r.value
        if isinstance(v, ast.Dict) and len(v.keys) == 2 and v.keys == [None, None] and attr_chain(v.values[0]) == ["self", "globals"] and is_name(v.values[1], "globals"):
            ok = True
    if not ok:
        res.add("C14-CHAIN", emg.qual, "order", "Environment.make_globals must be {**self.globals, **globals} (template globals override environment globals)", emg.file, emg.line)
    for m in ("from_string",):
        f = repo.own_method("liquid.environment.Environment", m)
        res.ob(f.qual)
        if "globals=self.make_globals(globals)" not in text(f.node):
            res.add("C14-CHAIN", f.qual, "template-globals", "from_string must attach self.make_globals(globals) to the template", f.file, f.line)

    # ---- C14-MAP -----------------------------------------------------------------
    CM = "liquid.utils.chain_map.ReadOnlyChainMap"
    push, pop, gi = repo.own_method(CM, "push"), repo.own_method(CM, "pop"), repo.own_method(CM, "__getitem__")
    res.ob(push.qual)
    if "self._maps.appendleft(namespace)" not in text(push.node):
        res.add("C14-MAP", push.qual, "prepend", "ReadOnlyChainMap.push must prepend (appendleft)", push.file, push.line)
    res.ob(pop.qual)
    if "self._maps.popleft()" not in text(pop.node):
        res.add("C14-MAP", pop.qual, "popleft", "ReadOnlyChainMap.pop must remove the front map (popleft)", pop.file, pop.line)
    res.ob(gi.qual)
    loops = [n for n in walk_no_nested(gi.node) if isinstance(n, ast.For)]
    gi_ok = (
        len(loops) == 1
        and attr_chain(loops[0].iter) == ["self", "_maps"]
        and any(isinstance(n, ast.Return) and isinstance(n.value, ast.Subscript) and is_name(n.value.value, loops[0].target.id) for n in ast.walk(loops[0]))
        and isinstance(gi.node.body[-1], ast.Raise)
    )
    if not gi_ok:
        res.add("C14-MAP", gi.qual, "front-to-back", "ReadOnlyChainMap.__getitem__ must return the first hit scanning self._maps in order, else raise KeyError", gi.file, gi.line)
    cm_init = repo.own_method(CM, "__init__")
    res.ob(cm_init.qual)
    if "deque(maps)" not in text(cm_init.node):
        res.add("C14-MAP", cm_init.qual, "order", "ReadOnlyChainMap must keep its maps in argument order", cm_init.file, cm_init.line)

    # ---- C14-PAIR ----------------------------------------------------------------
    def pairing(owner_qual, push_pred, pop_pred, what):
        n_push = 0
        for f in repo.all_functions():
            for blk in ast.walk(f.node):
                for fld in ("body", "orelse", "finalbody"):
                    seq = getattr(blk, fld, None)
                    if not isinstance(seq, list):
                        continue
                    for i, st in enumerate(seq):
                        if isinstance(st, ast.Expr) and isinstance(st.value, ast.Call) and push_pred(st.value):
                            n_push += 1
                            res.ob(f"{f.qual}:{what}-push")
                            if f.qual != owner_qual:
                                res.add("C14-PAIR", f.qual, f"{what}-push-elsewhere", f"{f.qual} pushes onto the {what} outside {owner_qual}", f.file, st.lineno)
                                continue
                            # the rest of the block up to a Try/With that pops in finally
                            ok = False
                            for nxt in seq[i + 1 :]:
                                t = nxt
                                if isinstance(t, ast.With):
                                    t = t.body[0] if t.body else None
                                if isinstance(t, ast.Try) and t.finalbody:
                                    pops = [c for s in t.finalbody for c in calls(s) if pop_pred(c)]
                                    ok = len(pops) == 1
                                    break
                                if isinstance(nxt, (ast.Return, ast.Raise)) or (isinstance(nxt, ast.Expr) and isinstance(nxt.value, (ast.Yield, ast.Call))):
                                    break
                            if not ok:
                                res.add("C14-PAIR", f.qual, f"{what}-pop-not-in-finally", f"{f.qual}: the {what} push is not followed by a try/finally that pops exactly once", f.file, st.lineno)
        return n_push

    n1 = pairing(
        f"{CTX}.extend",
        lambda c: callee_name(c) == "push" and attr_chain(call_recv(c)) == ["self", "scope"],
        lambda c: callee_name(c) == "pop" and attr_chain(call_recv(c)) == ["self", "scope"],
        "scope",
    )
    n2 = pairing(
        f"{CTX}.loop",
        lambda c: callee_name(c) == "append" and attr_chain(call_recv(c)) == ["self", "loops"],
        lambda c: callee_name(c) == "pop" and attr_chain(call_recv(c)) == ["self", "loops"],
        "loop-stack",
    )
    if n1 != 1 or n2 != 1:
        raise AnchorMissing(f"expected exactly one scope push and one loops append (found {n1}, {n2})")
    # pops elsewhere
    for f in repo.all_functions():
        for c in calls(f.node, nested=True):
            if callee_name(c) in ("pop", "push") and isinstance(call_recv(c), ast.Attribute) and call_recv(c).attr == "scope" and f.qual != f"{CTX}.extend":
                res.ob(f"{f.qual}:scope-{callee_name(c)}")
                res.add("C14-PAIR", f.qual, f"scope-{callee_name(c)}-elsewhere", f"{f.qual} calls scope.{callee_name(c)}() outside RenderContext.extend", f.file, c.lineno)

    # ---- C14-WITH ------------------------------------------------------------------
    for m in ("extend", "loop"):
        f = repo.own_method(CTX, m)
        res.ob(f.qual)
        if "contextmanager" not in f.decorators():
            res.add("C14-WITH", f.qual, "contextmanager", f"{f.qual} must be a @contextmanager", f.file, f.line)
    n_with = 0
    for f in repo.all_functions():
        with_items = set()
        for n in ast.walk(f.node):
            if isinstance(n, (ast.With, ast.AsyncWith)):
                for it in n.items:
                    with_items.add(id(it.context_expr))
        for c in calls(f.node, nested=True):
            if callee_name(c) in ("extend", "loop") and isinstance(c.func, ast.Attribute):
                recv = attr_chain(call_recv(c))
                if recv is None or recv[-1] not in ("context", "self", "ctx", "static_context", "macro_context") or (recv == ["self"] and (f.cls is None or f.cls.qual != CTX)):
                    continue
                n_with += 1
                res.ob(f"{f.qual}:{callee_name(c)}")
                if id(c) not in with_items:
                    res.add("C14-WITH", f.qual, f"{callee_name(c)}-not-with", f"{f.qual}: `{text(c)[:60]}` is not used as a with-item, so the namespace is never pushed/popped", f.file, c.lineno)
    if n_with < 10:
        raise AnchorMissing(f"only {n_with} extend/loop call sites found")

    # ---- C14-BLOCK -----------------------------------------------------------------
    def renders_inside_with(fq, child_attr, mgr):
        f = repo.func(fq)
        res.ob(f"{fq}:block-scope")
        ok = False
        for n in ast.walk(f.node):
            if isinstance(n, (ast.With, ast.AsyncWith)) and any(isinstance(it.context_expr, ast.Call) and callee_name(it.context_expr) in mgr and is_name(call_recv(it.context_expr), "context") for it in n.items):
                for c in calls(n, nested=False):
                    if callee_name(c) in ("render", "render_async", "render_with_context", "render_with_context_async"):
                        ok = True
        # and no child render outside such a with for the loop body
        if not ok:
            res.add("C14-BLOCK", fq, f"no-{'/'.join(mgr)}", f"{fq} must render its block inside `with context.{'/'.join(mgr)}(...)`", f.file, f.line)

    for suffix in ("", "_async"):
        renders_inside_with(f"liquid.builtin.tags.for_tag.ForNode.render_to_output{suffix}", "block", ("loop",))
        renders_inside_with(f"liquid.builtin.tags.tablerow_tag.TablerowNode.render_to_output{suffix}", "block", ("extend",))
        renders_inside_with(f"liquid.extra.tags._with.WithNode.render_to_output{suffix}", "block", ("extend",))
        renders_inside_with(f"liquid.builtin.tags.include_tag.IncludeNode.render_to_output{suffix}", "block", ("extend",))
    for fq in ("liquid.template.BoundTemplate.render_with_context", "liquid.template.BoundTemplate.render_with_context_async"):
        renders_inside_with(fq, "nodes", ("extend",))
    asg = repo.own_method(CTX, "assign")
    res.ob(asg.qual)
    if not any(isinstance(st, ast.Assign) and isinstance(st.targets[0], ast.Subscript) and attr_chain(st.targets[0].value) == ["self", "locals"] and is_name(st.targets[0].slice, "key") and is_name(st.value, "val") for st in walk_no_nested(asg.node)):
        res.add("C14-BLOCK", asg.qual, "locals-store", "RenderContext.assign must store self.locals[key] = val", asg.file, asg.line)
    for fq, name_expr in (
        ("liquid.builtin.tags.assign_tag.AssignNode.render_to_output", "self.name"),
        ("liquid.builtin.tags.assign_tag.AssignNode.render_to_output_async", "self.name"),
        ("liquid.builtin.tags.capture_tag.CaptureNode._assign", "self.name"),
        ("liquid.extra.tags.snippet_tag.SnippetNode.render_to_output", "self.name"),
    ):
        f = repo.func(fq)
        res.ob(fq)
        acalls = [c for c in calls(f.node) if callee_name(c) == "assign" and is_name(call_recv(c), "context")]
        if not acalls or not all(c.args and text(c.args[0]) == name_expr for c in acalls):
            res.add("C14-BLOCK", fq, "assign", f"{fq} must bind its variable with context.assign({name_expr}, ...)", f.file, f.line)

    # ---- C14-INCLUDE ---------------------------------------------------------------
    for suffix in ("", "_async"):
        f = repo.func(f"liquid.builtin.tags.include_tag.IncludeNode.render_to_output{suffix}")
        res.ob(f.qual + ":shared-scope")
        if any(callee_name(c) == "copy" for c in calls(f.node)):
            res.add("C14-INCLUDE", f.qual, "copy", f"{f.qual} copies the context: include must share the caller's scope", f.file, f.line)
        for c in calls(f.node):
            if callee_name(c).startswith("render_with_context"):
                if not (c.args and is_name(c.args[0], "context")):
                    res.add("C14-INCLUDE", f.qual, f"ctx={text(c.args[0]) if c.args else None}", f"{f.qual} must render the partial on the caller's `context`", f.file, c.lineno)
                kws = {k.arg: text(k.value) for k in c.keywords}
                if kws.get("block_scope", "False") != "False":
                    res.add("C14-INCLUDE", f.qual, "block_scope", f"{f.qual}: include must not request block scope", f.file, c.lineno)

    # ---- C14-UNDEF -----------------------------------------------------------------
    for m, want_classes in (("get", {"KeyError", "TypeError", "IndexError"}), ("get_async", {"KeyError", "TypeError", "IndexError"}), ("_resolve", {"KeyError"})):
        from ..normalize import nfunc

        # helpers that build the undefined value (`_undefined_root(...)`) are inlined
        f = nfunc(repo, repo.own_method(CTX, m), keep=("_resolve",), aliases=False)
        # every subscript of self.scope and every get_item call must sit in a try catching the classes
        sites = []
        for n in walk_no_nested(f.node):
            if isinstance(n, ast.Subscript) and attr_chain(n.value) == ["self", "scope"] and isinstance(n.ctx, ast.Load):
                sites.append(n)
            if isinstance(n, ast.Call) and callee_name(n) in ("get_item", "get_item_async"):
                sites.append(n)
        if not sites:
            raise AnchorMissing(f"{f.qual}: no lookup site found")
        from ..engines.hnd import enclosing_try_handlers

        for s in sites:
            res.ob(f"{f.qual}:{text(s)[:40]}")
            caught = set()
            bad_handler = False
            for _t, hs in enclosing_try_handlers(f.node, s):
                for h in hs:
                    caught |= set(handler_types(h))
                    # handler must return undefined(...) or default
                    rets = [r for r in walk_no_nested(h) if isinstance(r, ast.Return)]
                    if not rets or any(isinstance(r, ast.Raise) for r in walk_no_nested(h)):
                        bad_handler = True
                    for r in rets:
                        v = r.value
                        if not (is_name(v, "default") or (isinstance(v, ast.Call) and text(v.func) == "self.env.undefined")):
                            bad_handler = True
            need = want_classes if isinstance(s, ast.Call) or m != "_resolve" else {"KeyError"}
            if not need <= caught:
                res.add("C14-UNDEF", f.qual, f"uncaught:{sorted(need - caught)}:{text(s)[:30]}", f"{f.qual}: lookup `{text(s)[:50]}` does not convert {sorted(need - caught)} into an undefined value", f.file, s.lineno)
            if bad_handler:
                res.add("C14-UNDEF", f.qual, f"handler:{text(s)[:30]}", f"{f.qual}: a lookup-failure handler must return env.undefined(...) or the caller's default", f.file, s.lineno)
    res.stats.update(extend_loop_sites=n_with)
    # ---- C14-ITEM: the special properties size / first / last ---------------------------------------
    # Path conditions (sa/guards.py) of every exit of the two item getters:
    #   * ``obj[0]`` is returned only for the key "first" and ``obj[-1]`` only for "last", and — a
    #     str is a Sequence — only where the string guard is known not to apply:
    #     not (isinstance(obj, str) and not env.string_first_and_last);
    #   * ``len(obj)`` is returned only for the key "size";
    #   * the plain subscription ``obj[key]`` at the end is reached only where
    #     not (not env.string_sequences and isinstance(key, int) and isinstance(obj, str)).
    from ..guards import canon as _canon, conditions as _conditions

    def _atoms(e: ast.AST) -> set[str]:
        return {_canon(v) for v in (e.values if isinstance(e, ast.BoolOp) and isinstance(e.op, ast.And) else [e])}

    def _neg_text(a: str) -> str:
        return a[4:] if a.startswith("not ") and not a.startswith("not (") else f"not {a}"

    def refuted(cs, atoms: set[str]) -> bool:
        """the path conditions imply that the conjunction of ``atoms`` is false"""
        have = {_canon(c) for c in cs}
        if any(_neg_text(a) in have or (a.startswith("not ") and a[4:] in have) for a in atoms):
            return True
        for c in cs:
            if isinstance(c, ast.UnaryOp) and isinstance(c.op, ast.Not) and _atoms(c.operand) <= atoms:
                return True
            if isinstance(c, ast.BoolOp) and isinstance(c.op, ast.Or) and {_neg_text(_canon(v)) for v in c.values} <= atoms:
                return True
        return False

    from ..engines.exc import _int_const
    from ..guards import inner_conditions as _inner

    def _str_consts(e, mod):
        if isinstance(e, ast.Name) and e.id in mod.assigns:
            e = mod.assigns[e.id]
        if isinstance(e, (ast.Tuple, ast.List, ast.Set)) and all(isinstance(x, ast.Constant) and isinstance(x.value, str) for x in e.elts):
            return {x.value for x in e.elts}
        return None

    def key_values(cs, keyvars: dict):
        """the strings the key can still be under the path conditions (None: unknown).
        keyvars: variable -> finite domain it ranges over (or None)."""
        poss = None
        for v, dom in keyvars.items():
            if dom is not None:
                poss = set(dom) if poss is None else poss & dom
        for c in cs:
            if isinstance(c, ast.Compare) and len(c.ops) == 1 and isinstance(c.left, ast.Name) and c.left.id in keyvars and isinstance(c.comparators[0], ast.Constant) and isinstance(c.comparators[0].value, str):
                val = c.comparators[0].value
                if isinstance(c.ops[0], ast.Eq):
                    poss = {val} if poss is None else poss & {val}
                elif isinstance(c.ops[0], ast.NotEq) and poss is not None:
                    poss = poss - {val}
            elif isinstance(c, ast.Compare) and len(c.ops) == 1 and isinstance(c.ops[0], ast.In) and isinstance(c.left, ast.Name) and c.left.id in keyvars:
                d = _str_consts(c.comparators[0], repo.module("liquid.context"))
                if d is not None:
                    poss = set(d) if poss is None else poss & d
        return poss

    def scan(fn_node, qual, file_, objv, keyvars, base_cs, seen, plain_ok):
        """apply the exit rules to one function body; returns helper calls to follow"""
        follow = []
        str_guard = {f"isinstance({objv}, str)", "not self.env.string_first_and_last"}
        # a loop variable compared for equality with the key ranges over the loop's constants
        for n in walk_no_nested(fn_node):
            if isinstance(n, (ast.For, ast.AsyncFor)) and isinstance(n.target, ast.Name):
                d = _str_consts(n.iter, repo.module("liquid.context"))
                if d is not None:
                    for c in ast.walk(n):
                        if isinstance(c, ast.Compare) and len(c.ops) == 1 and isinstance(c.ops[0], ast.Eq) and {text(c.left), text(c.comparators[0])} == {n.target.id, next(iter(keyvars))}:
                            keyvars = {**keyvars, n.target.id: d}
        for st, cs0 in _conditions(fn_node):
            if isinstance(st, (ast.If, ast.For, ast.AsyncFor, ast.While, ast.With, ast.AsyncWith, ast.Try)):
                continue
            inner = _inner(st)
            for v in ast.walk(st):
                cs = list(base_cs) + list(cs0) + inner.get(id(v), [])
                have = {_canon(c) for c in cs}
                if isinstance(st, ast.Return) and isinstance(v, ast.Subscript) and isinstance(v.ctx, ast.Load) and is_name(v.value, objv):
                    k = _int_const(v.slice)
                    if k in (0, -1):
                        want_key = "first" if k == 0 else "last"
                        seen[want_key] += 1
                        res.ob(f"item:{qual}:{want_key}", 2)
                        poss = key_values(cs, keyvars)
                        if poss != {want_key}:
                            res.add("C14-ITEM", qual, f"index:{k}:{want_key}", f"{qual} returns `{text(v)}` where the key is not known to be '{want_key}' (it can be {sorted(poss) if poss is not None else 'anything'}): first is element 0 and last is element -1", file_, st.lineno)
                        if not refuted(cs, str_guard):
                            res.add("C14-ITEM", qual, f"string-{want_key}", f"{qual} returns `{text(v)}` for .{want_key} without `isinstance({objv}, str) and not self.env.string_first_and_last` having been ruled out (a str is a Sequence): `{{{{ s.{want_key} }}}}` of a string yields a character instead of the undefined value when string_first_and_last is off", file_, st.lineno)
                    elif plain_ok and isinstance(v.slice, ast.Name) and v.slice.id == next(iter(keyvars)) and v is unwrap_await(st.value):
                        seen["plain"] += 1
                        res.ob(f"item:{qual}:plain")
                        if not refuted(cs, plain_ok):
                            res.add("C14-ITEM", qual, "string-index", f"{qual} subscripts `{text(v)}` without the string_sequences guard having been ruled out", file_, st.lineno)
                elif isinstance(st, ast.Return) and isinstance(v, ast.Call) and is_name(v.func, "len") and v.args and is_name(v.args[0], objv):
                    seen["size"] += 1
                    res.ob(f"item:{qual}:size")
                    poss = key_values(cs, keyvars)
                    if poss != {"size"}:
                        res.add("C14-ITEM", qual, "len-not-size", f"{qual} returns len({objv}) where the key is not known to be 'size'", file_, st.lineno)
                elif isinstance(v, ast.Call) and len(v.args) == 2 and is_name(v.args[0], objv) and isinstance(v.args[1], ast.Name) and v.args[1].id in keyvars:
                    if isinstance(v.func, ast.Name) and isinstance(st, ast.Return) and v is unwrap_await(st.value) and v.args[1].id == next(iter(keyvars)) and plain_ok:
                        # the async twin's local getter: `await _get_item(obj, key)`
                        seen["plain"] += 1
                        res.ob(f"item:{qual}:plain")
                        if not refuted(cs, plain_ok):
                            res.add("C14-ITEM", qual, "string-index", f"{qual} looks up `{text(v)}` without the string_sequences guard having been ruled out", file_, st.lineno)
                    elif isinstance(v.func, ast.Attribute) and is_name(v.func.value, "self"):
                        follow.append((v.func.attr, v.args[1].id, key_values(cs, keyvars), cs))
        return follow

    for m in ("get_item", "get_item_async"):
        f = repo.own_method(CTX, m)
        ps = [p for p in f.params() if p != "self"]
        if len(ps) != 2:
            raise AnchorMissing(f"{f.qual} no longer takes (obj, key)")
        p_obj, p_key = ps
        seq_guard = {"not self.env.string_sequences", f"isinstance({p_key}, int)", f"isinstance({p_obj}, str)"}
        seen = {"first": 0, "last": 0, "size": 0, "plain": 0}
        follow = scan(f.node, f.qual, f.file, p_obj, {p_key: None}, [], seen, seq_guard)
        done = set()
        for hname, _kv, dom, _cs in follow:
            h = repo.cls(CTX).methods.get(hname)
            if h is None or hname in done:
                continue
            done.add(hname)
            hps = [p for p in h.params() if p != "self"]
            if len(hps) != 2:
                continue
            # the helper is reached with the key among `dom` (union over its call sites)
            doms = [d for n_, _k, d, _c in follow if n_ == hname]
            dom_u = None if any(d is None for d in doms) else set().union(*doms)
            scan(h.node, f"{f.qual}>{h.name}", h.file, hps[0], {hps[1]: dom_u}, [], seen, None)
        miss = [k for k, n_ in seen.items() if not n_]
        if miss:
            raise AnchorMissing(f"{f.qual}: no exit found for {miss} (size/first/last/plain expected); re-derive C14-ITEM")
    # ---- C14-HIT: the template-globals layer of a cached template is the current request's ------------
    # "then front matter and template globals": with a caching loader the template object is reused,
    # so the globals a name resolves against must be the ones passed with *this* request — also
    # when they are empty (a missing name must then be undefined, not an earlier request's value).
    # Decided by the cache-hit rule of C23 (every path that returns the cached template has stored
    # exactly this request's globals on it); same rule code, re-keyed.
    from . import c23 as _c23

    r23 = _c23.run(repo)
    res.ob("cache-hit-globals", 2)
    for f23 in r23.findings:
        if f23.rule == "C23-STORE" and f23.detail.startswith("globals-on-hit"):
            res.add("C14-HIT", f23.construct, f23.detail, f23.message + " — a name bound only in the template globals of an earlier request keeps resolving", f23.file, f23.line)

    return res


def selftest(repo: Repo):
    from ..selftest import Variant, text_edit

    def v(name, rel, old, new, expect, count=1):
        return lambda: Variant(name, text_edit(repo, rel, old, new, count), expect)

    C = "liquid/context.py"
    return [
        v("chain-globals-first", C, "ReadOnlyChainMap(self.locals, self.globals, builtin, self.counters)", "ReadOnlyChainMap(self.globals, self.locals, builtin, self.counters)", "C14-CHAIN"),
        v("matter-over-args", "liquid/template.py", "            render_args,\n            self.matter,\n            self.globals,", "            self.matter,\n            render_args,\n            self.globals,", "C14-CHAIN"),
        v("env-globals-win", "liquid/environment.py", "return {**self.globals, **globals}", "return {**globals, **self.globals}", "C14-CHAIN"),
        v("push-appends", "liquid/utils/chain_map.py", "self._maps.appendleft(namespace)", "self._maps.append(namespace)", "C14-MAP"),
        v("pop-outside-finally", C, "        try:\n            yield self\n        finally:\n            if template:\n                self.template = _template\n            self.scope.pop()", "        yield self\n        if template:\n            self.template = _template\n        self.scope.pop()", "C14-PAIR"),
        v("getitem-last-wins", "liquid/utils/chain_map.py", "        for mapping in self._maps:\n            try:\n                return mapping[key]", "        for mapping in reversed(self._maps):\n            try:\n                return mapping[key]", "C14-MAP"),
        v("with-tag-assigns", "liquid/extra/tags/_with.py", "        with context.extend({a.name: a.value.evaluate(context) for a in self.args}):\n            return self.block.render(context, buffer)", "        for a in self.args:\n            context.assign(a.name, a.value.evaluate(context))\n        return self.block.render(context, buffer)", "C14-BLOCK"),
        v("extend-not-with", "liquid/builtin/tags/tablerow_tag.py", "        with context.iterations(length), context.extend(namespace):\n            for item in tablerow:", "        context.extend(namespace)\n        with context.iterations(length):\n            for item in tablerow:", "C14-", count=2),
        v("include-copies", "liquid/builtin/tags/include_tag.py", "            else:\n                template.render_with_context(context, buffer, partial=True)\n\n        return True", "            else:\n                template.render_with_context(context.copy({}), buffer, partial=True)\n\n        return True", "C14-INCLUDE"),
        v("get-drops-indexerror", C, "        try:\n            obj = self.scope[root]\n        except (KeyError, TypeError, IndexError):\n            if default == UNDEFINED:\n                hint = f\"{root!r} is undefined\"\n                return self.env.undefined(root, hint=hint, token=token)\n            return default\n\n        for i, segment in enumerate(it):\n            try:\n                obj = self.get_item(obj, segment)\n            except (KeyError, TypeError):", "        try:\n            obj = self.scope[root]\n        except (KeyError, TypeError, IndexError):\n            if default == UNDEFINED:\n                hint = f\"{root!r} is undefined\"\n                return self.env.undefined(root, hint=hint, token=token)\n            return default\n\n        for i, segment in enumerate(it):\n            try:\n                obj = self.get_item(obj, segment)\n            except (KeyError,):", "C14-UNDEF"),
        v("capture-writes-scope", "liquid/builtin/tags/capture_tag.py", "            context.assign(self.name, buf.getvalue())", "            context.scope.push({self.name: buf.getvalue()})", "C14-"),
        v("assign-to-globals", C, "        self.locals[key] = val\n", "        self.counters[key] = val\n", "C14-BLOCK"),
    ]
