"""C11 — custom delimiters and environments are independent (clauses).

  C11-ESCAPE  each of the six delimiter parameters of ``compile_liquid_rules`` reaches a regex
              pattern only through ``re.escape`` (a delimiter made of regex metacharacters is
              matched literally).
  C11-PLUMB   the delimiter parameters keep their identity through the call chain, name by
              name and position by position: ``Environment.tokenizer`` → ``get_lexer`` →
              ``compile_liquid_rules`` (and the keyword arguments handed to
              ``_tokenize_template``); ``Template(...)`` forwards every configuration keyword
              under its own name to ``get_implicit_environment`` and that forwards every
              parameter under its own name to ``Environment(...)``; ``Environment.__init__``
              stores each delimiter parameter on the attribute of the same name (so the memo
              keys of the three lru_cache factories are the whole configuration).
  C11-LITERAL no string constant that looks like a delimiter (contains ``{{``, ``}}``, ``{%``,
              ``%}``, ``{#`` or ``#}``) is used by the lexing / tokenising code other than as a
              parameter default — the configured delimiters are the only ones.
  C11-IDENT   ``Environment`` and its subclasses define no ``__eq__`` (the parser memo is per
              instance) and ``Environment.__hash__`` covers the six delimiters and the mode;
              ``Parser`` keeps only ``env``; every attribute a ``Tag`` instance stores is ``env``
              or derived from ``self.env`` / the ``env`` argument.
  C11-MARKER  the liquid tag's line-comment marker, derived from ``comment_start_string``: it
              reaches the line pattern through ``re.escape``; in the alternation that captures a
              line's first word the marker alternative is tried before any alternative that can
              start with a word character (else the marker ``c-`` is read as the tag ``c``) and
              is closed by a word boundary for markers ending in a word character (else the
              marker ``c`` swallows ``case``); the tokenizer skips a line exactly when the
              captured name equals the same, unescaped, marker.
  C11-MEMO    a delimiter-taking function that memoises its result keys the memo on all its
              delimiter parameters, injectively: ``lru_cache`` over the argument tuple, or a
              hand-rolled mapping indexed by the tuple of the parameters themselves.
  C11-SHARED  (with C17-MODULE) no module- or class-level container is mutated by lexing or
              parsing code.
Not decided: output equality under delimiter rewriting as such (value level); the liquid
tag's comment marker is derived from ``comment_start_string`` by design (reviewed row).
"""

from __future__ import annotations

import ast

from ..astutil import attr_chain, bind_args, callee_name, calls, is_name, is_self_attr, names_in, text
from ..core import Result
from ..lexmodel import LexModel
from ..model import AnchorMissing, Repo, walk_no_nested

PID = "C11"
MIN_OBLIGATIONS = 60
DELIMS = [
    "tag_start_string",
    "tag_end_string",
    "statement_start_string",
    "statement_end_string",
    "comment_start_string",
    "comment_end_string",
]
DELIM_FRAGMENTS = ("{{", "}}", "{%", "%}", "{#", "#}")
LEX_FUNCS = [
    "liquid.lex.compile_liquid_rules",
    "liquid.lex._compile_rules",
    "liquid.lex._tokenize_template",
    "liquid.lex.get_lexer",
    "liquid.builtin.expressions._tokenize.tokenize",
    "liquid.builtin.tags.liquid_tag._tokenize_liquid_expression",
    "liquid.builtin.tags.liquid_tag._compile_rules",
    "liquid.builtin.tags.liquid_tag.LiquidTag.__init__",
    "liquid.builtin.tags.liquid_tag.LiquidTag.parse",
    "liquid.environment.Environment.tokenizer",
    "liquid.environment.Environment._parse",
]
REVIEWED_LITERAL = {
    "liquid.builtin.tags.liquid_tag.LiquidTag.__init__|{": "documented: inside a liquid tag the line-comment marker is the configured comment_start_string without its leading brace ('{#' -> '#')",
}


def run(repo: Repo) -> Result:
    res = Result(PID)
    res.rules = ["C11-ESCAPE", "C11-PLUMB", "C11-LITERAL", "C11-IDENT", "C11-MARKER", "C11-MEMO"]
    res.explanation = "taint of delimiter parameters into regex patterns; name-by-name plumbing of the configuration through the memoised factories; no hard-coded delimiters; per-instance identity of environments/parsers/tags"
    res.assumptions = ["delimiters do not collide with each other or with the template text (the property's own precondition)"]
    lm = LexModel(repo)

    # ---- C11-ESCAPE -------------------------------------------------------------
    crl = repo.func("liquid.lex.compile_liquid_rules")
    if [p for p in crl.params()] != DELIMS:
        raise AnchorMissing(f"compile_liquid_rules parameters are {crl.params()}")
    for p in DELIMS:
        res.ob(f"escape:{p}")
        if p not in lm.escaped_vars.values():
            res.add("C11-ESCAPE", crl.qual, f"never-escaped:{p}", f"{p} is never passed through re.escape", crl.file, crl.line)
    for p, node in lm.unescaped_uses:
        res.ob(f"raw-use:{p}")
        res.add("C11-ESCAPE", crl.qual, f"raw:{p}", f"{p} is interpolated into a pattern without re.escape: a delimiter such as '(*' or '[[' changes the regex", crl.file, node.lineno)
    # any other use of a delimiter parameter inside a pattern f-string
    for n in ast.walk(crl.node):
        if isinstance(n, ast.JoinedStr):
            for v in n.values:
                if isinstance(v, ast.FormattedValue):
                    res.ob("pattern-interpolation")
                    nm = text(v.value)
                    if nm in DELIMS:
                        res.add("C11-ESCAPE", crl.qual, f"raw-fstring:{nm}", f"pattern f-string interpolates the raw delimiter {nm}", crl.file, n.lineno)
                    elif not (isinstance(v.value, ast.Name) and (v.value.id in lm.escaped_vars or True)):
                        pass

    # ---- C11-PLUMB ---------------------------------------------------------------
    gl = repo.func("liquid.lex.get_lexer")
    res.ob(gl.qual, 3)
    if gl.params() != DELIMS:
        res.add("C11-PLUMB", gl.qual, f"params:{gl.params()}", f"get_lexer must take exactly the six delimiter strings in order (its lru_cache key): {DELIMS}", gl.file, gl.line)
    c = next((x for x in calls(gl.node) if callee_name(x) == "compile_liquid_rules"), None)
    b = bind_args(c, crl.node, skip_self=False) if c is not None else None
    if b is None or any(not is_name(b.get(p), p) for p in DELIMS):
        res.add("C11-PLUMB", gl.qual, "forward", "get_lexer must forward each delimiter to the compile_liquid_rules parameter of the same name", gl.file, gl.line)
    tt = repo.func("liquid.lex._tokenize_template")
    pc = next((x for x in calls(gl.node) if callee_name(x) == "partial"), None)
    if pc is None or not is_name(pc.args[0], "_tokenize_template"):
        res.add("C11-PLUMB", gl.qual, "partial", "get_lexer must return partial(_tokenize_template, ...)", gl.file, gl.line)
    else:
        kws = {k.arg: k.value for k in pc.keywords}
        for p in tt.params():
            if p in DELIMS:
                res.ob(f"tokenize-kw:{p}")
                if not is_name(kws.get(p), p):
                    res.add("C11-PLUMB", gl.qual, f"tokenize-kw:{p}", f"get_lexer must pass {p}={p} to _tokenize_template (it falls back to the default delimiter otherwise)", gl.file, pc.lineno)
    tk = repo.own_method("liquid.environment.Environment", "tokenizer")
    res.ob(tk.qual)
    c = next((x for x in calls(tk.node) if callee_name(x) == "get_lexer"), None)
    if c is not None and any(isinstance(a_, ast.Starred) for a_ in c.args):
        c = _expand_star(repo, tk, c) or c
    b = bind_args(c, gl.node, skip_self=False) if c is not None else None
    if b is None or any(attr_chain(b.get(p)) != ["self", p] for p in DELIMS):
        res.add("C11-PLUMB", tk.qual, "args", "Environment.tokenizer must pass self.<delimiter> to the get_lexer parameter of the same name (a swapped pair lexes with the wrong delimiters)", tk.file, tk.line)
    init = repo.own_method("liquid.environment.Environment", "__init__")
    for p in DELIMS:
        res.ob(f"env-init:{p}")
        ok = any(isinstance(st, ast.Assign) and attr_chain(st.targets[0]) == ["self", p] and is_name(st.value, p) for st in walk_no_nested(init.node))
        if not ok:
            res.add("C11-PLUMB", init.qual, f"store:{p}", f"Environment.__init__ must store self.{p} = {p}", init.file, init.line)
    tpl = repo.func("liquid.environment.Template")
    gie = repo.func("liquid.environment.get_implicit_environment")
    cfg = [p for p in tpl.params() if p not in ("source", "globals")]
    c = next((x for x in calls(tpl.node) if callee_name(x) == "get_implicit_environment"), None)
    kws = {k.arg: k.value for k in c.keywords} if c is not None else {}
    for p in cfg:
        res.ob(f"template-kw:{p}")
        if not is_name(kws.get(p), p):
            res.add("C11-PLUMB", tpl.qual, f"kw:{p}", f"Template() must forward {p}={p} to get_implicit_environment: otherwise two Templates with different {p} share one memoised environment", tpl.file, tpl.line)
    if c is not None and c.args:
        res.add("C11-PLUMB", tpl.qual, "positional", "Template() must call get_implicit_environment with keywords only", tpl.file, c.lineno)
    for p in gie.params():
        res.ob(f"implicit-param:{p}")
        if p not in kws:
            res.add("C11-PLUMB", tpl.qual, f"missing:{p}", f"Template() does not pass {p} to get_implicit_environment", tpl.file, tpl.line)
    c2 = next((x for x in calls(gie.node) if callee_name(x) == "Environment"), None)
    kws2 = {k.arg: k.value for k in c2.keywords} if c2 is not None else {}
    for p in gie.params():
        res.ob(f"implicit-forward:{p}")
        if not is_name(kws2.get(p), p):
            res.add("C11-PLUMB", gie.qual, f"forward:{p}", f"get_implicit_environment must pass {p}={p} to Environment(): the memo key and the environment built would disagree", gie.file, gie.line)
    env_params = [p for p in init.params() if p != "self"]
    for p in env_params:
        res.ob(f"implicit-covers:{p}")
        if p not in gie.params():
            res.add("C11-PLUMB", gie.qual, f"uncovered:{p}", f"Environment parameter {p} is not part of get_implicit_environment's memo key", gie.file, gie.line)

    # ---- C11-LITERAL --------------------------------------------------------------
    for fq in LEX_FUNCS:
        f = repo.func(fq)
        defaults = set()
        a = f.node.args
        for d in list(a.defaults) + [x for x in a.kw_defaults if x is not None]:
            defaults.add(id(d))
        for n in ast.walk(f.node):
            if isinstance(n, ast.Constant) and isinstance(n.value, str) and id(n) not in defaults:
                # docstring
                if any(isinstance(p, ast.Expr) and p.value is n for p in ast.walk(f.node)):
                    continue
                hit = [frag for frag in DELIM_FRAGMENTS if frag in n.value]
                # ("#" on its own is the inline comment tag's *name*, fixed by the language — not a
                # configurable delimiter; the comment delimiters are caught as `{#` / `#}` fragments)
                single = n.value in ("{", "}", "%") and fq.endswith(("__init__", "_tokenize_template", "tokenize"))
                if hit or single:
                    key = f"{fq}|{n.value}"
                    res.ob(f"literal:{key}")
                    if key in REVIEWED_LITERAL:
                        continue
                    res.add("C11-LITERAL", fq, f"literal:{n.value!r}", f"{fq} uses the hard-coded delimiter text {n.value!r}: with custom delimiters this tests for / produces the default delimiter instead of the configured one", f.file, n.lineno)
        res.ob(f"literal-scan:{fq}")

    # ---- C11-IDENT ------------------------------------------------------------------
    for c in repo.subclasses("liquid.environment.Environment"):
        res.ob(f"eq:{c.qual}")
        if "__eq__" in c.methods:
            res.add("C11-IDENT", c.qual, "__eq__", f"{c.qual} defines __eq__: get_parser's memo would hand one environment's parser (tags, filters, mode) to another equal-looking environment", c.file, c.methods["__eq__"].line)
    hs = repo.own_method("liquid.environment.Environment", "__hash__")
    res.ob(hs.qual)
    hashed = {n.attr for n in ast.walk(hs.node) if isinstance(n, ast.Attribute) and is_name(n.value, "self")}
    if not set(DELIMS) | {"mode"} <= hashed:
        res.add("C11-IDENT", hs.qual, f"missing:{sorted((set(DELIMS) | {'mode'}) - hashed)}", "Environment.__hash__ must cover the six delimiters and the mode", hs.file, hs.line)
    pr = repo.cls("liquid.parser.Parser")
    res.ob(pr.qual)
    if text(pr.attrs.get("__slots__")) != "('env',)":
        res.add("C11-IDENT", pr.qual, "slots", "Parser must keep only `env`", pr.file, pr.node.lineno)
    n_tag = 0
    for c in repo.subclasses("liquid.tag.Tag"):
        init = c.methods.get("__init__")
        if init is None:
            continue
        n_tag += 1
        res.ob(f"tag-init:{c.qual}")
        params = [p for p in init.params() if p != "self"]
        local = {}
        for st in walk_no_nested(init.node):
            if isinstance(st, ast.Assign) and isinstance(st.targets[0], ast.Name):
                local[st.targets[0].id] = st.value
        for st in walk_no_nested(init.node):
            if isinstance(st, ast.Assign) and is_self_attr(st.targets[0]):
                srcs = set()
                todo = [st.value]
                seen = set()
                while todo:
                    e = todo.pop()
                    for nm in names_in(e):
                        if nm in local and nm not in seen:
                            seen.add(nm)
                            todo.append(local[nm])
                        else:
                            srcs.add(nm)
                allowed = {"self", "env", "get_parser", "partial", "re", "_compile_rules", "_tokenize_liquid_expression", "TOKEN_ILLEGAL", "seq", "rules", "comment_start_string"} | set(params)
                def const_ok(nm):
                    v = c.module.assigns.get(nm)
                    if v is None:
                        return nm in c.module.imports  # imported constant (TOKEN_*, TAG_*)
                    return not (isinstance(v, (ast.Dict, ast.List, ast.Set)) or (isinstance(v, ast.Call) and callee_name(v) in ("dict", "list", "set", "defaultdict")))

                bad = {s for s in srcs if s not in allowed and not (s.isupper() and const_ok(s))}
                if bad:
                    res.add("C11-IDENT", c.qual, f"state:{text(st.targets[0])}<-{sorted(bad)}", f"{c.qual}.__init__ stores `{text(st)[:60]}`, which depends on {sorted(bad)} — tag instances may only hold their environment and values derived from it", c.file, st.lineno)
    # no global parser / lexer state: Parser and TokenStream are created per parse
    from ..normalize import nfunc

    # (small helper methods of the environment — e.g. a public `tokenize(source)` wrapper — are
    #  inlined, single-use locals substituted, before the shape is read)
    ep = nfunc(repo, repo.own_method("liquid.environment.Environment", "_parse"), small_public=3, keep=("tokenizer", "get_parser", "parse"))
    res.ob(ep.qual)
    t = text(ep.node)
    tok_calls = [c for c in ast.walk(ep.node) if isinstance(c, ast.Call) and isinstance(c.func, ast.Call) and callee_name(c.func) == "tokenizer" and text(c.func.func) == "self.tokenizer" and [text(a) for a in c.args] == ["source"]]
    if "get_parser(self)" not in t or not tok_calls or "TokenStream(" not in t:
        res.add("C11-IDENT", ep.qual, "per-env", "Environment._parse must use get_parser(self), self.tokenizer() and a fresh TokenStream", ep.file, ep.line)
    gp = repo.func("liquid.parser.get_parser")
    res.ob(gp.qual)
    if "return Parser(env)" not in text(gp.node):
        res.add("C11-IDENT", gp.qual, "parser", "get_parser must build Parser(env) for exactly the environment it is asked for", gp.file, gp.line)
    _check_marker(repo, res)
    n_memo = _check_memo(repo, res)
    res.stats.update(tag_inits=n_tag, template_config_keywords=cfg, memoised_factories=n_memo)
    return res


def _check_memo(repo: Repo, res: Result) -> int:
    """C11-MEMO: a function that takes delimiter parameters and memoises its result must key the
    memo on *all* of them, injectively.  ``functools.lru_cache`` / ``cache`` do (the key is the
    argument tuple).  A hand-rolled memo — a module- or class-level mapping read and written
    inside the function — must be indexed by a tuple that holds every delimiter parameter as is:
    a concatenation, a join, a format string or a subset of the parameters maps two different
    configurations to one entry, and the second environment lexes with the first one's
    delimiters."""
    n = 0
    for f in repo.all_functions():
        ds = [p for p in f.params() if p in DELIMS]
        if not ds:
            continue
        decos = [text(d.func if isinstance(d, ast.Call) else d).split(".")[-1] for d in f.node.decorator_list]
        if any(d in ("lru_cache", "cache") for d in decos):
            n += 1
            res.ob(f"memo:{f.qual}")
            res.sample({"rule": "C11-MEMO", "function": f.qual, "memo": "lru_cache over the argument tuple"})
            continue
        # containers that outlive the call: module-level names, self./cls. attributes
        local_assign = {}
        for st in walk_no_nested(f.node):
            if isinstance(st, ast.Assign):
                for t in st.targets:
                    if isinstance(t, ast.Name):
                        local_assign[t.id] = st.value
                    elif isinstance(t, ast.Tuple):
                        pass
        locals_ = set(local_assign) | set(f.params())

        def persistent(e: ast.AST) -> bool:
            if isinstance(e, ast.Name):
                return e.id not in locals_ and e.id in f.module.assigns
            if isinstance(e, ast.Attribute) and isinstance(e.value, ast.Name) and e.value.id in ("self", "cls"):
                return True
            return False

        keys = []
        for x in ast.walk(f.node):
            if isinstance(x, ast.Subscript) and persistent(x.value):
                keys.append((x, x.slice))
            elif isinstance(x, ast.Call) and isinstance(x.func, ast.Attribute) and x.func.attr in ("get", "setdefault", "pop") and persistent(x.func.value) and x.args:
                keys.append((x, x.args[0]))
            elif isinstance(x, ast.Compare) and len(x.ops) == 1 and isinstance(x.ops[0], (ast.In, ast.NotIn)) and persistent(x.comparators[0]):
                keys.append((x, x.left))
        # only containers the function itself stores into are memos (a constant table it merely
        # reads is not)
        written = {text(x.value) for x in ast.walk(f.node) if isinstance(x, ast.Subscript) and isinstance(x.ctx, ast.Store) and persistent(x.value)}
        written |= {text(x.func.value) for x in ast.walk(f.node) if isinstance(x, ast.Call) and isinstance(x.func, ast.Attribute) and x.func.attr in ("setdefault", "update") and persistent(x.func.value)}

        def container(node):
            if isinstance(node, ast.Subscript):
                return text(node.value)
            if isinstance(node, ast.Call):
                return text(node.func.value)
            return text(node.comparators[0])

        keys = [(node, k) for node, k in keys if container(node) in written]
        if not keys:
            continue
        n += 1
        res.ob(f"memo:{f.qual}", len(keys))
        # which delimiter parameters the result depends on: those read outside the key expressions
        for node, k in keys:
            seen_k = set()
            while isinstance(k, ast.Name) and k.id in local_assign and k.id not in seen_k:
                seen_k.add(k.id)
                k = local_assign[k.id]
            if isinstance(k, ast.Tuple) and all(isinstance(e, ast.Name) for e in k.elts):
                missing = [d for d in ds if d not in {e.id for e in k.elts}]
                if missing:
                    res.add("C11-MEMO", f.qual, f"key-misses:{','.join(missing)}", f"{f.qual} memoises its result under a key that does not contain {missing}: two configurations that differ only there share one entry, and the second lexes with the first one's delimiters", f.file, node.lineno)
            else:
                res.add("C11-MEMO", f.qual, "key-not-injective", f"{f.qual} memoises its result under `{text(k)[:70]}`, which is not the tuple of its delimiter parameters: different configurations can produce the same key (e.g. a concatenation: '{{%' + '%}}' ... vs a shifted split of the same characters), and the second one lexes with the first one's delimiters", f.file, node.lineno)
    if n < 1:
        raise AnchorMissing("C11-MEMO: no memoised delimiter-taking factory found (get_lexer expected)")
    return n


def _expand_star(repo: Repo, f, call: ast.Call):
    """``g(*self.<prop>)`` where ``<prop>`` is a property of the class whose single return is a
    tuple literal or a call of a NamedTuple class: the call with the star argument written out
    positionally (NamedTuple keywords placed in field order).  None if that cannot be done."""
    if not (len(call.args) == 1 and isinstance(call.args[0], ast.Starred) and not call.keywords):
        return None
    v = call.args[0].value
    if not (isinstance(v, ast.Attribute) and is_name(v.value, "self") and f.cls is not None):
        return None
    prop = repo.find_method(f.cls, v.attr)
    if prop is None or "property" not in " ".join(prop.decorators()):
        return None
    rets = [r.value for r in walk_no_nested(prop.node) if isinstance(r, ast.Return) and r.value is not None]
    if len(rets) != 1:
        return None
    r = rets[0]
    elts = None
    if isinstance(r, ast.Tuple):
        elts = list(r.elts)
    elif isinstance(r, ast.Call) and isinstance(r.func, (ast.Name, ast.Attribute)):
        cls_ = repo.resolve_in(prop.module, text(r.func))
        if hasattr(cls_, "node") and isinstance(cls_.node, ast.ClassDef) and any("NamedTuple" in text(b) for b in cls_.node.bases):
            fields = [st.target.id for st in cls_.node.body if isinstance(st, ast.AnnAssign) and isinstance(st.target, ast.Name)]
            vals = dict(zip(fields, r.args))
            for k in r.keywords:
                if k.arg is None:
                    return None
                vals[k.arg] = k.value
            if all(fld in vals for fld in fields):
                elts = [vals[fld] for fld in fields]
    if elts is None:
        return None
    return ast.copy_location(ast.Call(func=call.func, args=elts, keywords=[]), call)


MARK = ""  # stands for re.escape(<marker derived from comment_start_string>)
RAWMARK = ""  # the marker interpolated without re.escape


def _check_marker(repo: Repo, res: Result) -> None:
    import re._constants as C  # type: ignore[import-not-found]
    import re._parser as P  # type: ignore[import-not-found]

    from .. import rx
    from ..guards import canon, conditions
    from ..model import fold_str
    from ..normalize import propagate_aliases

    init = repo.own_method("liquid.builtin.tags.liquid_tag.LiquidTag", "__init__")
    mod = init.module
    res.ob(f"marker:{init.qual}", 3)

    # -- abstract run of __init__: strings with placeholders, forking at every `if` ----------
    def derived(e, env) -> bool:
        return any((isinstance(n, ast.Attribute) and n.attr == "comment_start_string") or (isinstance(n, ast.Name) and env.get(n.id) in ("<marker>",)) for n in ast.walk(e))

    def ev(e, env):
        if isinstance(e, ast.Constant) and isinstance(e.value, str):
            return e.value
        if isinstance(e, ast.JoinedStr):
            out = []
            for v in e.values:
                if isinstance(v, ast.Constant):
                    out.append(str(v.value))
                else:
                    x = ev(v.value, env)
                    if x is None:
                        return None
                    out.append(RAWMARK if x == "<marker>" else x)
            return "".join(out)
        if isinstance(e, ast.BinOp) and isinstance(e.op, ast.Add):
            a, b = ev(e.left, env), ev(e.right, env)
            if a is None or b is None:
                return None
            return (RAWMARK if a == "<marker>" else a) + (RAWMARK if b == "<marker>" else b)
        if isinstance(e, ast.Call) and text(e.func) == "re.escape" and len(e.args) == 1:
            return MARK if derived(e.args[0], env) else None
        if isinstance(e, ast.Name):
            if e.id in env:
                return env[e.id]
            return fold_str(repo, mod, e, 0)
        if derived(e, env):
            return "<marker>"
        return fold_str(repo, mod, e, 0)

    found: list[tuple[str, tuple, int]] = []  # (pattern, conditions, line)
    plumb: list[tuple[ast.Call, dict]] = []

    def scan(e, env, conds):
        for n in ast.walk(e):
            if isinstance(n, ast.Tuple) and len(n.elts) == 2 and fold_str(repo, mod, n.elts[0], 0) == "LIQUID_EXPR":
                pat = ev(n.elts[1], env)
                if pat is None:
                    raise AnchorMissing(f"LiquidTag.__init__: cannot evaluate the LIQUID_EXPR pattern `{text(n.elts[1])[:60]}` statically")
                found.append((pat, tuple(conds), n.lineno))
            if isinstance(n, ast.Call) and callee_name(n) == "partial":
                plumb.append((n, dict(env)))

    def run_block(body, states):
        """all-paths run: ``states`` is a list of (environment, conditions); an ``if`` forks every
        state, and the statements after it run once per resulting state (a name bound differently in
        the two branches keeps its branch's value on that branch's path)"""
        for st in body:
            nxt = []
            for env, conds in states:
                if isinstance(st, ast.If):
                    t = text(st.test)
                    d = derived(st.test, env)
                    nxt += run_block(st.body, [(dict(env), conds + [(t, d)])])
                    nxt += run_block(st.orelse, [(dict(env), conds + [(f"not ({t})", d)])])
                    continue
                if isinstance(st, (ast.Return, ast.Raise)):
                    scan(st, env, conds)
                    continue
                if isinstance(st, ast.Assign) and len(st.targets) == 1:
                    scan(st.value, env, conds)
                    if isinstance(st.targets[0], ast.Name):
                        v = ev(st.value, env)
                        if v is not None:
                            env[st.targets[0].id] = v
                        else:
                            env.pop(st.targets[0].id, None)
                    nxt.append((env, conds))
                    continue
                if isinstance(st, ast.AugAssign) and isinstance(st.target, ast.Name) and isinstance(st.op, ast.Add):
                    a, b = env.get(st.target.id), ev(st.value, env)
                    if isinstance(a, str) and isinstance(b, str) and a != "<marker>":
                        env[st.target.id] = a + b
                    else:
                        env.pop(st.target.id, None)
                    nxt.append((env, conds))
                    continue
                scan(st, env, conds)
                nxt.append((env, conds))
            states = nxt
            if len(states) > 64:
                raise AnchorMissing("LiquidTag.__init__: too many paths to enumerate")
        return states

    run_block(init.node.body, [({}, [])])
    marked = [(p, c, ln) for p, c, ln in found if MARK in p or RAWMARK in p]
    if not marked:
        raise AnchorMissing("LiquidTag.__init__: no LIQUID_EXPR pattern built from comment_start_string found")
    res.stats["liquid_tag_line_patterns"] = len(found)

    WORD = rx._category("word")

    def first_chars(items) -> int:
        """over-approximate set of first characters an item list can start with"""
        out = 0
        for op, av in items:
            if op is C.LITERAL and chr(av) in (MARK, RAWMARK):
                return out | rx._all()
            m = rx.charset(op, av, True)
            if m is not None:
                return out | m
            if op in (C.MAX_REPEAT, C.MIN_REPEAT):
                out |= first_chars(list(av[2]))
                if av[0] > 0:
                    return out
                continue
            if op is C.SUBPATTERN:
                return out | first_chars(list(av[3]))
            if op is C.BRANCH:
                for b in av[1]:
                    out |= first_chars(list(b))
                return out
            if op in (C.ASSERT, C.ASSERT_NOT, C.AT):
                continue
            return rx._all()
        return out

    def is_not_word_ahead(op, av) -> bool:
        if op is C.AT and av is C.AT_BOUNDARY:
            return True
        if op is C.ASSERT_NOT and av[0] == 1:
            sub = list(av[1])
            return len(sub) == 1 and rx.charset(*sub[0], True) is not None and rx.subset(WORD, rx.charset(*sub[0], True))
        if op is C.ASSERT and av[0] == 1:
            sub = list(av[1])
            m = rx.charset(*sub[0], True) if len(sub) == 1 else None
            return m is not None and m & WORD == 0
        return False

    def is_not_word_behind(op, av) -> bool:
        if op is C.ASSERT_NOT and av[0] == -1:
            sub = list(av[1])
            return len(sub) == 1 and rx.charset(*sub[0], True) is not None and rx.subset(WORD, rx.charset(*sub[0], True))
        if op is C.ASSERT and av[0] == -1:
            sub = list(av[1])
            m = rx.charset(*sub[0], True) if len(sub) == 1 else None
            return m is not None and m & WORD == 0
        return False

    def boundary_ok(tail) -> bool:
        """the items right after the marker make `marker ends in a word char => no word char
        follows` true"""
        if not tail:
            return False
        op, av = tail[0]
        if is_not_word_ahead(op, av):
            return True
        alts = None
        if op is C.SUBPATTERN and len(list(av[3])) == 1 and list(av[3])[0][0] is C.BRANCH:
            alts = [list(b) for b in list(av[3])[0][1][1]]
        elif op is C.BRANCH:
            alts = [list(b) for b in av[1]]
        if alts:
            ok_each = all(len(a) == 1 and (is_not_word_ahead(*a[0]) or is_not_word_behind(*a[0])) for a in alts)
            return ok_each and any(is_not_word_ahead(*a[0]) for a in alts)
        return False

    def flatten(items) -> list[list]:
        """alternatives of the content of the name group"""
        items = list(items)
        if len(items) == 1 and items[0][0] is C.BRANCH:
            out = []
            for b in items[0][1][1]:
                out += flatten(b)
            return out
        if len(items) == 1 and items[0][0] is C.SUBPATTERN:
            return flatten(items[0][1][3])
        return [items]

    verdicts: dict[tuple, list] = {}
    for pat, conds, ln in marked:
        key = tuple(t for t, dep in conds if not dep)
        probs = []
        if RAWMARK in pat:
            probs.append(("raw", "the marker is interpolated into the line pattern without re.escape: a marker made of regex metacharacters changes the pattern"))
        try:
            tree = P.parse(pat, 16)
        except Exception as err:  # noqa: BLE001
            raise AnchorMissing(f"LiquidTag.__init__: LIQUID_EXPR pattern does not parse: {err}") from err
        gid = tree.state.groupdict.get("name")
        grp = None

        def find(items):
            nonlocal grp
            for op, av in items:
                if op is C.SUBPATTERN:
                    if av[0] == gid:
                        grp = list(av[3])
                    find(av[3])
                elif op is C.BRANCH:
                    for b in av[1]:
                        find(b)
                elif op in (C.MAX_REPEAT, C.MIN_REPEAT):
                    find(av[2])

        find(tree)
        if gid is None or grp is None:
            probs.append(("no-name-group", "the line pattern has no group `name`"))
            verdicts.setdefault(key, []).append((probs, ln))
            continue
        alts = flatten(grp)
        m_idx = [i for i, a in enumerate(alts) if a and a[0][0] is C.LITERAL and chr(a[0][1]) in (MARK, RAWMARK)]
        if not m_idx:
            probs.append(("marker-not-alternative", "the marker is not an alternative of the `name` group: a comment line is never recognised"))
        for i in m_idx:
            for j, a in enumerate(alts[:i]):
                if first_chars(a) & WORD:
                    probs.append(("marker-after-word", "an alternative that can start with a word character is tried before the marker: the marker `c-` (comment_start_string '{c-') is read as the tag name `c`"))
                    break
            later_word = any(first_chars(a) & WORD for a in alts[i + 1 :])
            if later_word and not boundary_ok(alts[i][1:]):
                probs.append(("marker-prefix", "the marker alternative is not closed by a word boundary: with comment_start_string '{c' every line whose tag name starts with `c` (case, cycle, capture, continue) is skipped as a comment"))
        verdicts.setdefault(key, []).append((probs, ln))
    for key, vs in verdicts.items():
        res.ob(f"marker-pattern:{'&'.join(key)[:60] or 'always'}", 3)
        if any(not probs for probs, _ln in vs):
            continue  # under marker-dependent conditions one variant per case: decided leniently
        for probs, ln in vs[:1]:
            for k, msg in probs:
                res.add("C11-MARKER", init.qual, k, f"LiquidTag.__init__: {msg}", init.file, ln)

    # -- the same marker, unescaped, reaches the tokenizer; the skip is an equality test -----
    tk = repo.func("liquid.builtin.tags.liquid_tag._tokenize_liquid_expression")
    res.ob(f"marker:{tk.qual}", 2)
    ok_plumb = False
    for c, env in plumb:
        if c.args and is_name(c.args[0], "_tokenize_liquid_expression"):
            kw = {k.arg: k.value for k in c.keywords}
            v = kw.get("comment_start_string")
            if v is not None and (ev(v, env) == "<marker>"):
                ok_plumb = True
    if not ok_plumb:
        res.add("C11-MARKER", init.qual, "plumb", "LiquidTag.__init__ must hand the marker derived from env.comment_start_string (unescaped) to _tokenize_liquid_expression as comment_start_string", init.file, init.line)
    from ..normalize import lexer_canonical

    fn = propagate_aliases(lexer_canonical(tk.node))  # loop variable over finditer is `match`
    # locals bound once to the captured group: `name = match.group("name")`
    binds: dict[str, list] = {}
    for n in walk_no_nested(fn):
        if isinstance(n, ast.Assign) and len(n.targets) == 1 and isinstance(n.targets[0], ast.Name):
            binds.setdefault(n.targets[0].id, []).append(n.value)
    cap = {nm for nm, vs in binds.items() if len(vs) == 1 and text(vs[0]).replace('"', "'") == "match.group('name')"}
    want = set()
    for lhs in ["match.group('name')"] + sorted(cap):
        want.add(canon(ast.parse(f"{lhs} == comment_start_string", mode="eval").body))
        want.add(canon(ast.parse(f"comment_start_string == {lhs}", mode="eval").body))
    skips = [(st, cs) for st, cs in conditions(fn) if isinstance(st, ast.Continue)]
    hit = [1 for st, cs in skips if {canon(c) for c in cs} & want]
    if not hit:
        res.add("C11-MARKER", tk.qual, "skip-test", "_tokenize_liquid_expression must skip a line exactly when the captured `name` equals comment_start_string", tk.file, tk.line)
    for st, cs in skips:
        cc = {canon(c) for c in cs}
        if not (cc & want) and any("name" in x or "comment_start_string" in x for x in cc) and not any("SKIP" in x for x in cc):
            res.add("C11-MARKER", tk.qual, f"skip-other:{sorted(cc)[-1][:50]}", "_tokenize_liquid_expression skips a line on a test other than `name == comment_start_string` (startswith / prefix tests swallow tag names that begin with the marker)", tk.file, st.lineno)


def _hand_memo(repo: Repo, key: str):
    """get_lexer with a hand-rolled module-level memo under the given key expression"""
    from ..selftest import text_edit

    ov = text_edit(repo, "liquid/lex.py", "@lru_cache(maxsize=128)\ndef get_lexer(", "_LEXERS: dict = {}\n\n\ndef get_lexer(", 1)
    src = ov["liquid/lex.py"]
    a = '    """Return a template lexer using the given tag and statement delimiters."""\n'
    assert src.count(a) == 1
    src = src.replace(a, a + f"    memo_key = {key}\n    if memo_key in _LEXERS:\n        return _LEXERS[memo_key]\n")
    b = "    return partial(\n        _tokenize_template,\n        rules=rules,\n"
    assert src.count(b) == 1
    head, tail = src.split(b)
    end = tail.index("    )\n") + len("    )\n")
    src = head + "    made = partial(\n        _tokenize_template,\n        rules=rules,\n" + tail[:end] + "    _LEXERS[memo_key] = made\n    return made\n" + tail[end:]
    return {"liquid/lex.py": src}


def selftest(repo: Repo):
    from ..selftest import Variant, text_edit

    def v(name, rel, old, new, expect, count=1):
        return lambda: Variant(name, text_edit(repo, rel, old, new, count), expect)

    L = "liquid/lex.py"
    E = "liquid/environment.py"
    return [
        lambda: Variant("hand-memo-keyed-on-the-parameter-tuple-is-silent", _hand_memo(repo, "(tag_start_string, tag_end_string, statement_start_string, statement_end_string, comment_start_string, comment_end_string)"), "", silent=True),
        lambda: Variant("hand-memo-key-misses-comment-delimiters", _hand_memo(repo, "(tag_start_string, tag_end_string, statement_start_string, statement_end_string)"), "C11-MEMO"),
        lambda: Variant("hand-memo-key-is-a-format-string", _hand_memo(repo, 'f"{tag_start_string}{tag_end_string}{statement_start_string}{statement_end_string}{comment_start_string}{comment_end_string}"'), "C11-MEMO"),
        v("raw-delimiter-in-pattern", L, "    comment_e = re.escape(comment_end_string)", "    comment_e = comment_end_string", "C11-ESCAPE"),
        v("raw-fstring", L, 'output_pattern = rf"{stmt_s}-?\\s*(?P<stmt>.*?)\\s*(?P<rss>-?){stmt_e}"', 'output_pattern = rf"{statement_start_string}-?\\s*(?P<stmt>.*?)\\s*(?P<rss>-?){stmt_e}"', "C11-ESCAPE"),
        v("tokenizer-swaps-args", E, "            self.tag_start_string,\n            self.tag_end_string,\n            self.statement_start_string,\n            self.statement_end_string,\n            self.comment_start_string,", "            self.statement_start_string,\n            self.tag_end_string,\n            self.tag_start_string,\n            self.statement_end_string,\n            self.comment_start_string,", "C11-PLUMB"),
        v("get_lexer-drops-kw", L, "        statement_start_string=statement_start_string,\n        statement_end_string=statement_end_string,\n    )", "        statement_end_string=statement_end_string,\n    )", "C11-PLUMB"),
        v("hard-coded-check", L, "            if value.startswith(statement_start_string):", '            if value.startswith(r"{{"):', "C11-LITERAL"),
        v("hard-coded-message", L, "                    f\"expected '{tag_end_string}', found end of file\",", "                    \"expected '%}', found end of file\",", "C11-LITERAL"),
        v("template-drops-autoescape", E, "        strict_filters=strict_filters,\n        autoescape=autoescape,\n        globals=None,", "        strict_filters=strict_filters,\n        autoescape=False,\n        globals=None,", "C11-PLUMB"),
        v("implicit-env-wrong-forward", E, "        comment_start_string=comment_start_string,\n        comment_end_string=comment_end_string,\n    )\n\n\n# `Template`", "        comment_start_string=comment_end_string,\n        comment_end_string=comment_end_string,\n    )\n\n\n# `Template`", "C11-PLUMB"),
        v("marker-no-boundary", "liquid/builtin/tags/liquid_tag.py", "{seq}(?:(?<!\\w)|(?!\\w))|\\w+)", "{seq}|\\w+)", "C11-MARKER"),
        v("marker-after-word", "liquid/builtin/tags/liquid_tag.py", "{seq}(?:(?<!\\w)|(?!\\w))|\\w+)", "\\w+|{seq})", "C11-MARKER"),
        v("marker-unescaped", "liquid/builtin/tags/liquid_tag.py", "            seq = re.escape(comment_start_string)", "            seq = comment_start_string", "C11-MARKER"),
        v("marker-prefix-skip", "liquid/builtin/tags/liquid_tag.py", "            if name == comment_start_string:\n                continue", "            if comment_start_string and name.startswith(comment_start_string):\n                continue", "C11-MARKER"),
        v("env-eq", E, "    def __hash__(self) -> int:\n        return hash(", "    def __eq__(self, other):\n        return isinstance(other, Environment) and hash(self) == hash(other)\n\n    def __hash__(self) -> int:\n        return hash(", "C11-IDENT"),
        v("hash-drops-mode", E, "                self.comment_end_string,\n                self.mode,\n", "                self.comment_end_string,\n", "C11-IDENT"),
        v("init-swaps-store", E, "        self.tag_start_string = tag_start_string\n        self.tag_end_string = tag_end_string", "        self.tag_start_string = tag_end_string\n        self.tag_end_string = tag_start_string", "C11-PLUMB"),
        v("tag-holds-global-parser", "liquid/builtin/tags/case_tag.py", "        self.parser = get_parser(self.env)", "        self.parser = _SHARED.setdefault('parser', get_parser(self.env))", "C11-IDENT"),
        (lambda: Variant("tag-holds-module-dict", {"liquid/builtin/tags/case_tag.py": next(m for m in repo.modules.values() if m.relpath == "liquid/builtin/tags/case_tag.py").source.replace('TAG_CASE = sys.intern("case")', 'TAG_CASE = sys.intern("case")\n_SHARED = {}').replace("        self.parser = get_parser(self.env)", "        self.parser = _SHARED.setdefault('parser', get_parser(self.env))")}, "C11-IDENT")),
    ]
