"""C11 — custom delimiters and environments are independent (clauses).

  C11-ESCAPE  each of the six delimiter parameters of ``compile_liquid_rules`` reaches a regex
              pattern only through ``re.escape`` (a delimiter made of regex metacharacters is
              matched literally).
  C11-PLUMB   the delimiter parameters keep their identity through the call chain, name by
              name and position by position: ``Environment.tokenizer`` → ``get_lexer`` →
              ``compile_liquid_rules`` (and the keyword arguments handed to
              ``_tokenize_template``); ``Template(...)`` forwards every configuration keyword
              under its own name to ``get_implicit_environment`` and that forwards every
              parameter under its own name to ``Environment(...)``; ``Environment.__init__``
              stores each delimiter parameter on the attribute of the same name (so the memo
              keys of the three lru_cache factories are the whole configuration).
  C11-LITERAL no string constant that looks like a delimiter (contains ``{{``, ``}}``, ``{%``,
              ``%}``, ``{#`` or ``#}``) is used by the lexing / tokenising code other than as a
              parameter default — the configured delimiters are the only ones.
  C11-IDENT   ``Environment`` and its subclasses define no ``__eq__`` (the parser memo is per
              instance) and ``Environment.__hash__`` covers the six delimiters and the mode;
              ``Parser`` keeps only ``env``; every attribute a ``Tag`` instance stores is ``env``
              or derived from ``self.env`` / the ``env`` argument.
  C11-SHARED  (with C17-MODULE) no module- or class-level container is mutated by lexing or
              parsing code.
Not decided: output equality under delimiter rewriting as such (value level); the liquid
tag's comment marker is derived from ``comment_start_string`` by design (reviewed row).
"""

from __future__ import annotations

import ast

from ..astutil import attr_chain, bind_args, callee_name, calls, is_name, is_self_attr, names_in, text
from ..core import Result
from ..lexmodel import LexModel
from ..model import AnchorMissing, Repo, walk_no_nested

PID = "C11"
MIN_OBLIGATIONS = 60
DELIMS = [
    "tag_start_string",
    "tag_end_string",
    "statement_start_string",
    "statement_end_string",
    "comment_start_string",
    "comment_end_string",
]
DELIM_FRAGMENTS = ("{{", "}}", "{%", "%}", "{#", "#}")
LEX_FUNCS = [
    "liquid.lex.compile_liquid_rules",
    "liquid.lex._compile_rules",
    "liquid.lex._tokenize_template",
    "liquid.lex.get_lexer",
    "liquid.builtin.expressions._tokenize.tokenize",
    "liquid.builtin.tags.liquid_tag._tokenize_liquid_expression",
    "liquid.builtin.tags.liquid_tag._compile_rules",
    "liquid.builtin.tags.liquid_tag.LiquidTag.__init__",
    "liquid.builtin.tags.liquid_tag.LiquidTag.parse",
    "liquid.environment.Environment.tokenizer",
    "liquid.environment.Environment._parse",
]
REVIEWED_LITERAL = {
    "liquid.builtin.tags.liquid_tag.LiquidTag.__init__|{": "documented: inside a liquid tag the line-comment marker is the configured comment_start_string without its leading brace ('{#' -> '#')",
}


def run(repo: Repo) -> Result:
    res = Result(PID)
    res.rules = ["C11-ESCAPE", "C11-PLUMB", "C11-LITERAL", "C11-IDENT"]
    res.explanation = "taint of delimiter parameters into regex patterns; name-by-name plumbing of the configuration through the memoised factories; no hard-coded delimiters; per-instance identity of environments/parsers/tags"
    res.assumptions = ["delimiters do not collide with each other or with the template text (the property's own precondition)"]
    lm = LexModel(repo)

    # ---- C11-ESCAPE -------------------------------------------------------------
    crl = repo.func("liquid.lex.compile_liquid_rules")
    if [p for p in crl.params()] != DELIMS:
        raise AnchorMissing(f"compile_liquid_rules parameters are {crl.params()}")
    for p in DELIMS:
        res.ob(f"escape:{p}")
        if p not in lm.escaped_vars.values():
            res.add("C11-ESCAPE", crl.qual, f"never-escaped:{p}", f"{p} is never passed through re.escape", crl.file, crl.line)
    for p, node in lm.unescaped_uses:
        res.ob(f"raw-use:{p}")
        res.add("C11-ESCAPE", crl.qual, f"raw:{p}", f"{p} is interpolated into a pattern without re.escape: a delimiter such as '(*' or '[[' changes the regex", crl.file, node.lineno)
    # any other use of a delimiter parameter inside a pattern f-string
    for n in ast.walk(crl.node):
        if isinstance(n, ast.JoinedStr):
            for v in n.values:
                if isinstance(v, ast.FormattedValue):
                    res.ob("pattern-interpolation")
                    nm = text(v.value)
                    if nm in DELIMS:
                        res.add("C11-ESCAPE", crl.qual, f"raw-fstring:{nm}", f"pattern f-string interpolates the raw delimiter {nm}", crl.file, n.lineno)
                    elif not (isinstance(v.value, ast.Name) and (v.value.id in lm.escaped_vars or True)):
                        pass

    # ---- C11-PLUMB ---------------------------------------------------------------
    gl = repo.func("liquid.lex.get_lexer")
    res.ob(gl.qual, 3)
    if gl.params() != DELIMS:
        res.add("C11-PLUMB", gl.qual, f"params:{gl.params()}", f"get_lexer must take exactly the six delimiter strings in order (its lru_cache key): {DELIMS}", gl.file, gl.line)
    c = next((x for x in calls(gl.node) if callee_name(x) == "compile_liquid_rules"), None)
    b = bind_args(c, crl.node, skip_self=False) if c is not None else None
    if b is None or any(not is_name(b.get(p), p) for p in DELIMS):
        res.add("C11-PLUMB", gl.qual, "forward", "get_lexer must forward each delimiter to the compile_liquid_rules parameter of the same name", gl.file, gl.line)
    tt = repo.func("liquid.lex._tokenize_template")
    pc = next((x for x in calls(gl.node) if callee_name(x) == "partial"), None)
    if pc is None or not is_name(pc.args[0], "_tokenize_template"):
        res.add("C11-PLUMB", gl.qual, "partial", "get_lexer must return partial(_tokenize_template, ...)", gl.file, gl.line)
    else:
        kws = {k.arg: k.value for k in pc.keywords}
        for p in tt.params():
            if p in DELIMS:
                res.ob(f"tokenize-kw:{p}")
                if not is_name(kws.get(p), p):
                    res.add("C11-PLUMB", gl.qual, f"tokenize-kw:{p}", f"get_lexer must pass {p}={p} to _tokenize_template (it falls back to the default delimiter otherwise)", gl.file, pc.lineno)
    tk = repo.own_method("liquid.environment.Environment", "tokenizer")
    res.ob(tk.qual)
    c = next((x for x in calls(tk.node) if callee_name(x) == "get_lexer"), None)
    b = bind_args(c, gl.node, skip_self=False) if c is not None else None
    if b is None or any(attr_chain(b.get(p)) != ["self", p] for p in DELIMS):
        res.add("C11-PLUMB", tk.qual, "args", "Environment.tokenizer must pass self.<delimiter> to the get_lexer parameter of the same name (a swapped pair lexes with the wrong delimiters)", tk.file, tk.line)
    init = repo.own_method("liquid.environment.Environment", "__init__")
    for p in DELIMS:
        res.ob(f"env-init:{p}")
        ok = any(isinstance(st, ast.Assign) and attr_chain(st.targets[0]) == ["self", p] and is_name(st.value, p) for st in walk_no_nested(init.node))
        if not ok:
            res.add("C11-PLUMB", init.qual, f"store:{p}", f"Environment.__init__ must store self.{p} = {p}", init.file, init.line)
    tpl = repo.func("liquid.environment.Template")
    gie = repo.func("liquid.environment.get_implicit_environment")
    cfg = [p for p in tpl.params() if p not in ("source", "globals")]
    c = next((x for x in calls(tpl.node) if callee_name(x) == "get_implicit_environment"), None)
    kws = {k.arg: k.value for k in c.keywords} if c is not None else {}
    for p in cfg:
        res.ob(f"template-kw:{p}")
        if not is_name(kws.get(p), p):
            res.add("C11-PLUMB", tpl.qual, f"kw:{p}", f"Template() must forward {p}={p} to get_implicit_environment: otherwise two Templates with different {p} share one memoised environment", tpl.file, tpl.line)
    if c is not None and c.args:
        res.add("C11-PLUMB", tpl.qual, "positional", "Template() must call get_implicit_environment with keywords only", tpl.file, c.lineno)
    for p in gie.params():
        res.ob(f"implicit-param:{p}")
        if p not in kws:
            res.add("C11-PLUMB", tpl.qual, f"missing:{p}", f"Template() does not pass {p} to get_implicit_environment", tpl.file, tpl.line)
    c2 = next((x for x in calls(gie.node) if callee_name(x) == "Environment"), None)
    kws2 = {k.arg: k.value for k in c2.keywords} if c2 is not None else {}
    for p in gie.params():
        res.ob(f"implicit-forward:{p}")
        if not is_name(kws2.get(p), p):
            res.add("C11-PLUMB", gie.qual, f"forward:{p}", f"get_implicit_environment must pass {p}={p} to Environment(): the memo key and the environment built would disagree", gie.file, gie.line)
    env_params = [p for p in init.params() if p != "self"]
    for p in env_params:
        res.ob(f"implicit-covers:{p}")
        if p not in gie.params():
            res.add("C11-PLUMB", gie.qual, f"uncovered:{p}", f"Environment parameter {p} is not part of get_implicit_environment's memo key", gie.file, gie.line)

    # ---- C11-LITERAL --------------------------------------------------------------
    for fq in LEX_FUNCS:
        f = repo.func(fq)
        defaults = set()
        a = f.node.args
        for d in list(a.defaults) + [x for x in a.kw_defaults if x is not None]:
            defaults.add(id(d))
        for n in ast.walk(f.node):
            if isinstance(n, ast.Constant) and isinstance(n.value, str) and id(n) not in defaults:
                # docstring
                if any(isinstance(p, ast.Expr) and p.value is n for p in ast.walk(f.node)):
                    continue
                hit = [frag for frag in DELIM_FRAGMENTS if frag in n.value]
                single = n.value in ("{", "}", "%", "#") and fq.endswith(("__init__", "_tokenize_template", "tokenize"))
                if hit or single:
                    key = f"{fq}|{n.value}"
                    res.ob(f"literal:{key}")
                    if key in REVIEWED_LITERAL:
                        continue
                    res.add("C11-LITERAL", fq, f"literal:{n.value!r}", f"{fq} uses the hard-coded delimiter text {n.value!r}: with custom delimiters this tests for / produces the default delimiter instead of the configured one", f.file, n.lineno)
        res.ob(f"literal-scan:{fq}")

    # ---- C11-IDENT ------------------------------------------------------------------
    for c in repo.subclasses("liquid.environment.Environment"):
        res.ob(f"eq:{c.qual}")
        if "__eq__" in c.methods:
            res.add("C11-IDENT", c.qual, "__eq__", f"{c.qual} defines __eq__: get_parser's memo would hand one environment's parser (tags, filters, mode) to another equal-looking environment", c.file, c.methods["__eq__"].line)
    hs = repo.own_method("liquid.environment.Environment", "__hash__")
    res.ob(hs.qual)
    hashed = {n.attr for n in ast.walk(hs.node) if isinstance(n, ast.Attribute) and is_name(n.value, "self")}
    if not set(DELIMS) | {"mode"} <= hashed:
        res.add("C11-IDENT", hs.qual, f"missing:{sorted((set(DELIMS) | {'mode'}) - hashed)}", "Environment.__hash__ must cover the six delimiters and the mode", hs.file, hs.line)
    pr = repo.cls("liquid.parser.Parser")
    res.ob(pr.qual)
    if text(pr.attrs.get("__slots__")) != "('env',)":
        res.add("C11-IDENT", pr.qual, "slots", "Parser must keep only `env`", pr.file, pr.node.lineno)
    n_tag = 0
    for c in repo.subclasses("liquid.tag.Tag"):
        init = c.methods.get("__init__")
        if init is None:
            continue
        n_tag += 1
        res.ob(f"tag-init:{c.qual}")
        params = [p for p in init.params() if p != "self"]
        local = {}
        for st in walk_no_nested(init.node):
            if isinstance(st, ast.Assign) and isinstance(st.targets[0], ast.Name):
                local[st.targets[0].id] = st.value
        for st in walk_no_nested(init.node):
            if isinstance(st, ast.Assign) and is_self_attr(st.targets[0]):
                srcs = set()
                todo = [st.value]
                seen = set()
                while todo:
                    e = todo.pop()
                    for nm in names_in(e):
                        if nm in local and nm not in seen:
                            seen.add(nm)
                            todo.append(local[nm])
                        else:
                            srcs.add(nm)
                allowed = {"self", "env", "get_parser", "partial", "re", "_compile_rules", "_tokenize_liquid_expression", "TOKEN_ILLEGAL", "seq", "rules", "comment_start_string"} | set(params)
                def const_ok(nm):
                    v = c.module.assigns.get(nm)
                    if v is None:
                        return nm in c.module.imports  # imported constant (TOKEN_*, TAG_*)
                    return not (isinstance(v, (ast.Dict, ast.List, ast.Set)) or (isinstance(v, ast.Call) and callee_name(v) in ("dict", "list", "set", "defaultdict")))

                bad = {s for s in srcs if s not in allowed and not (s.isupper() and const_ok(s))}
                if bad:
                    res.add("C11-IDENT", c.qual, f"state:{text(st.targets[0])}<-{sorted(bad)}", f"{c.qual}.__init__ stores `{text(st)[:60]}`, which depends on {sorted(bad)} — tag instances may only hold their environment and values derived from it", c.file, st.lineno)
    # no global parser / lexer state: Parser and TokenStream are created per parse
    from ..normalize import nfunc

    # (small helper methods of the environment — e.g. a public `tokenize(source)` wrapper — are
    #  inlined, single-use locals substituted, before the shape is read)
    ep = nfunc(repo, repo.own_method("liquid.environment.Environment", "_parse"), small_public=3, keep=("tokenizer", "get_parser", "parse"))
    res.ob(ep.qual)
    t = text(ep.node)
    tok_calls = [c for c in ast.walk(ep.node) if isinstance(c, ast.Call) and isinstance(c.func, ast.Call) and callee_name(c.func) == "tokenizer" and text(c.func.func) == "self.tokenizer" and [text(a) for a in c.args] == ["source"]]
    if "get_parser(self)" not in t or not tok_calls or "TokenStream(" not in t:
        res.add("C11-IDENT", ep.qual, "per-env", "Environment._parse must use get_parser(self), self.tokenizer() and a fresh TokenStream", ep.file, ep.line)
    gp = repo.func("liquid.parser.get_parser")
    res.ob(gp.qual)
    if "return Parser(env)" not in text(gp.node):
        res.add("C11-IDENT", gp.qual, "parser", "get_parser must build Parser(env) for exactly the environment it is asked for", gp.file, gp.line)
    res.stats.update(tag_inits=n_tag, template_config_keywords=cfg)
    return res


def selftest(repo: Repo):
    from ..selftest import Variant, text_edit

    def v(name, rel, old, new, expect, count=1):
        return lambda: Variant(name, text_edit(repo, rel, old, new, count), expect)

    L = "liquid/lex.py"
    E = "liquid/environment.py"
    return [
        v("raw-delimiter-in-pattern", L, "    comment_e = re.escape(comment_end_string)", "    comment_e = comment_end_string", "C11-ESCAPE"),
        v("raw-fstring", L, 'output_pattern = rf"{stmt_s}-?\\s*(?P<stmt>.*?)\\s*(?P<rss>-?){stmt_e}"', 'output_pattern = rf"{statement_start_string}-?\\s*(?P<stmt>.*?)\\s*(?P<rss>-?){stmt_e}"', "C11-ESCAPE"),
        v("tokenizer-swaps-args", E, "            self.tag_start_string,\n            self.tag_end_string,\n            self.statement_start_string,\n            self.statement_end_string,\n            self.comment_start_string,", "            self.statement_start_string,\n            self.tag_end_string,\n            self.tag_start_string,\n            self.statement_end_string,\n            self.comment_start_string,", "C11-PLUMB"),
        v("get_lexer-drops-kw", L, "        statement_start_string=statement_start_string,\n        statement_end_string=statement_end_string,\n    )", "        statement_end_string=statement_end_string,\n    )", "C11-PLUMB"),
        v("hard-coded-check", L, "            if value.startswith(statement_start_string):", '            if value.startswith(r"{{"):', "C11-LITERAL"),
        v("hard-coded-message", L, "                    f\"expected '{tag_end_string}', found end of file\",", "                    \"expected '%}', found end of file\",", "C11-LITERAL"),
        v("template-drops-autoescape", E, "        strict_filters=strict_filters,\n        autoescape=autoescape,\n        globals=None,", "        strict_filters=strict_filters,\n        autoescape=False,\n        globals=None,", "C11-PLUMB"),
        v("implicit-env-wrong-forward", E, "        comment_start_string=comment_start_string,\n        comment_end_string=comment_end_string,\n    )\n\n\n# `Template`", "        comment_start_string=comment_end_string,\n        comment_end_string=comment_end_string,\n    )\n\n\n# `Template`", "C11-PLUMB"),
        v("env-eq", E, "    def __hash__(self) -> int:\n        return hash(", "    def __eq__(self, other):\n        return isinstance(other, Environment) and hash(self) == hash(other)\n\n    def __hash__(self) -> int:\n        return hash(", "C11-IDENT"),
        v("hash-drops-mode", E, "                self.comment_end_string,\n                self.mode,\n", "                self.comment_end_string,\n", "C11-IDENT"),
        v("init-swaps-store", E, "        self.tag_start_string = tag_start_string\n        self.tag_end_string = tag_end_string", "        self.tag_start_string = tag_end_string\n        self.tag_end_string = tag_start_string", "C11-PLUMB"),
        v("tag-holds-global-parser", "liquid/builtin/tags/case_tag.py", "        self.parser = get_parser(self.env)", "        self.parser = _SHARED.setdefault('parser', get_parser(self.env))", "C11-IDENT"),
        (lambda: Variant("tag-holds-module-dict", {"liquid/builtin/tags/case_tag.py": next(m for m in repo.modules.values() if m.relpath == "liquid/builtin/tags/case_tag.py").source.replace('TAG_CASE = sys.intern("case")', 'TAG_CASE = sys.intern("case")\n_SHARED = {}').replace("        self.parser = get_parser(self.env)", "        self.parser = _SHARED.setdefault('parser', get_parser(self.env))")}, "C11-IDENT")),
    ]
