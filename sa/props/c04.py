"""C04 — serialising a template back to source preserves its meaning (clauses).

Round-trip equality for all templates is value-level; these necessary conditions are
structural and decided here:
  C04-COVER  every node class of a standard tag, every expression class and the argument
             helpers define (or inherit from a repo class) ``__str__``; every slot a class
             reads while rendering / evaluating is also read by its ``__str__`` — a field the
             behaviour depends on cannot be dropped from the text.
  C04-SKEL   the text a node's ``__str__`` returns, reduced to a skeleton (constants kept,
             interpolated values → ▢), consists of ``{% ... %}`` / ``{{ ... }}`` markup and
             whitespace only; a tag node's skeleton opens with ``{% <tag name>`` and a block
             tag's closes with ``{% <end tag> ... %}``.
  C04-WORDS  reader/writer agreement: every keyword the serialiser writes (``elsif``,
             ``when``, ``limit``, ``offset``, ``cols``, ``reversed``, ``with``, ``for``, ``as``,
             ``if``, ``else``, ``and``, ``or``, ``not``, ``contains``, ``required``, ``plural``,
             end tags, ...) is a keyword / tag name the matching parser tests for.
  C04-QUOTE  string literals and quoted path segments are written verbatim between a quote
             character they do not contain (the reader has no escape syntax: no ``repr``),
             floats are written positionally (the reader has no exponent form), a cycle group
             is written through its expression, and a path's first segment goes through the
             same word / quoted / nested branches as the others.
  C04-PREC   the logical-expression serialiser brackets with the parser's binding powers:
             the binding it uses for ``and`` and ``or`` is the constant the parser's
             ``PRECEDENCES`` gives them (equal), a left operand is bracketed when it binds no
             tighter than its parent (right grouping), a right operand when it binds looser,
             ``not`` whenever it is an operand, and comparison / membership operators are
             serialised with the same rule.
  C04-TOKEN  no evaluate / render method reads the kind or text of the token a *sub-expression* was
             parsed from (``self.<field>.token.kind``): str() cannot write that back.
  C04-VERBATIM  a node that keeps source text (the content node's text, the liquid tag's expression
             token) writes it back unchanged: copies, f-strings, concatenation and a strip of the
             whole text are the only operations between the field and the returned string.
  C04-RAW    the lexer hands the text of ``raw`` blocks to the plain content node; its serialiser
             re-wraps text containing ``{{`` / ``{%`` in a raw block.
  C04-ORDER  a list field is serialised by one order-preserving traversal (no sorted / reversed /
             partition into several lists).
Not decided: that text satisfying these re-parses to an *equal* tree for every template.
"""

from __future__ import annotations

import ast
import re

from ..astutil import call_recv, attr_chain, callee_name, calls, is_name, is_self_attr, text
from ..core import Result
from ..model import AnchorMissing, ClassInfo, Repo, fold_str, fold_str_set, walk_no_nested
from ..registry import Registry

PID = "C04"
MIN_OBLIGATIONS = 120
HOLE = "▢"
IGNORED_FIELDS = {"token", "blank", "tag", "liquid_token"}
REVIEWED_COVER = {
    "liquid.builtin.tags.liquid_tag.LiquidNode|block": "LiquidNode prints the original `{% liquid %}` expression text (liquid_token.value), which is what `block` was parsed from",
    "liquid.builtin.expressions.primitive.TrueLiteral|value": "the value is the class constant True; the keyword `true` is printed",
    "liquid.builtin.expressions.primitive.FalseLiteral|value": "the value is the class constant False; the keyword `false` is printed",
    "liquid.builtin.tags.case_tag._AnyExpression|left": "the case subject is printed by CaseNode.__str__ (`{% case <expression> %}`); each when-clause prints only its alternatives",
}
# classes that are values/markers at render time; their str() is also what the render outputs
# (pinned by the test-suite), so they cannot print their keyword: recorded as known findings
EXPR_EXTRA = [
    "liquid.builtin.expressions.filtered.Filter",
    "liquid.builtin.expressions.arguments.KeywordArgument",
    "liquid.builtin.expressions.arguments.PositionalArgument",
    "liquid.builtin.expressions.arguments.Parameter",
]


def slots_of(repo: Repo, c: ClassInfo) -> list[str]:
    out = []
    for k in repo.mro_classes(c):
        s = k.attrs.get("__slots__")
        if isinstance(s, (ast.Tuple, ast.List)):
            out += [e.value for e in s.elts if isinstance(e, ast.Constant)]
    return [x for x in dict.fromkeys(out)]


def self_reads(node: ast.AST) -> set[str]:
    return {n.attr for n in ast.walk(node) if isinstance(n, ast.Attribute) and is_name(n.value, "self") and isinstance(n.ctx, ast.Load)}


class Skel:
    """Symbolic evaluation of a __str__ body to the set of strings it can return, with
    interpolated values replaced by HOLE.  Straight-line code with if/for over locals."""

    def __init__(self, repo, cls, fn):
        self.repo, self.cls, self.fn = repo, cls, fn
        self.mod = fn.module

    def run(self) -> set[str]:
        envs = [dict()]
        out: set[str] = set()
        self._block(self.fn.node.body, envs, out)
        return out

    def _expr(self, e, env) -> set[str]:
        if isinstance(e, ast.Constant):
            return {str(e.value)} if isinstance(e.value, str) else {HOLE}
        if isinstance(e, ast.JoinedStr):
            acc = {""}
            for v in e.values:
                if isinstance(v, ast.Constant):
                    parts = {str(v.value)}
                else:
                    inner = v.value
                    if isinstance(inner, ast.Name) and inner.id in env:
                        parts = env[inner.id]
                    else:
                        parts = {HOLE}
                acc = {a + p for a in acc for p in parts}
                if len(acc) > 64:
                    acc = set(list(acc)[:64])
            return acc
        if isinstance(e, ast.Name):
            return env.get(e.id, {HOLE})
        if isinstance(e, ast.BinOp) and isinstance(e.op, ast.Add):
            a, b = self._expr(e.left, env), self._expr(e.right, env)
            return {x + y for x in a for y in b}
        if isinstance(e, ast.IfExp):
            return self._expr(e.body, env) | self._expr(e.orelse, env)
        if isinstance(e, ast.Call) and callee_name(e) == "join" and isinstance(e.func, ast.Attribute):
            sep = self._expr(call_recv(e), env)
            arg = e.args[0] if e.args else None
            if isinstance(arg, ast.Name) and arg.id in env and isinstance(env[arg.id], set):
                # list built by appends: any concatenation; approximate by joining all fragments once
                frags = sorted(env[arg.id])
                return {s.join(frags) for s in sep} | {HOLE}
            return {HOLE} | {HOLE + s + HOLE for s in sep}
        return {HOLE}

    def _block(self, body, envs, out):
        for st in body:
            if isinstance(st, ast.Expr):
                # buf.append(x) on a list var
                c = st.value
                if isinstance(c, ast.Call) and callee_name(c) == "append" and isinstance(call_recv(c), ast.Name):
                    for env in envs:
                        cur = env.get(call_recv(c).id, set())
                        env[call_recv(c).id] = set(cur) | self._expr(c.args[0], env)
                continue
            if isinstance(st, (ast.Assign, ast.AnnAssign)):
                tgt = st.targets[0] if isinstance(st, ast.Assign) else st.target
                if isinstance(tgt, ast.Name) and st.value is not None:
                    for env in envs:
                        if isinstance(st.value, (ast.List,)):
                            acc = set()
                            for x in st.value.elts:
                                acc |= self._expr(x, env)
                            env[tgt.id] = acc
                        else:
                            env[tgt.id] = self._expr(st.value, env)
                elif isinstance(tgt, ast.Tuple):
                    for env in envs:
                        for t in tgt.elts:
                            if isinstance(t, ast.Name):
                                env[t.id] = {HOLE}
                continue
            if isinstance(st, ast.AugAssign) and isinstance(st.target, ast.Name):
                for env in envs:
                    cur = env.get(st.target.id, {""})
                    add = self._expr(st.value, env)
                    env[st.target.id] = {a + b for a in cur for b in add}
                continue
            if isinstance(st, ast.If):
                a = [dict(e) for e in envs]
                b = [dict(e) for e in envs]
                self._block(st.body, a, out)
                self._block(st.orelse, b, out)
                envs[:] = (a + b)[:16]
                continue
            if isinstance(st, (ast.For,)):
                a = [dict(e) for e in envs]
                self._block(st.body, a, out)
                envs[:] = (envs + a)[:16]
                continue
            if isinstance(st, ast.Return):
                for env in envs:
                    out |= self._expr(st.value, env) if st.value is not None else {""}
                continue
            if isinstance(st, (ast.FunctionDef,)):
                continue


MARKUP = re.compile(r"\{%.*?%\}|\{\{.*?\}\}", re.S)


def _check_path_shorthand(repo: Repo, res: Result, pth) -> None:
    """C04-QUOTE (shorthand): ``Path.__str__`` writes a string segment *without* brackets only
    under a test that makes the reader read it back as that one segment:

      full     the test matches the WHOLE segment (``R.fullmatch(seg)`` / ``re.fullmatch``, or
               ``match`` on a pattern ending in ``\\Z``) — a prefix test lets ``meta.title`` and
               ``first name`` through;
      word     every string R accepts is one WORD token of the expression tokenizer: R's first
               character class is inside the token pattern's first class and contains no digit
               (INTEGER / FLOAT win the alternation), its other classes are inside the token
               pattern's repeated class — decided on exact bitmaps over all code points
               (sa/rx.py), patterns folded from the source;
      keyword  the segment is not one of the tokenizer's keywords (they get their own token
               kinds, which the path parser does not accept after a dot).
    """
    from .. import rx
    from ..guards import canon, conditions

    mod = pth.module if hasattr(pth, "module") else repo.own_method("liquid.builtin.expressions.path.Path", "__str__").module
    loops = [n for n in walk_no_nested(pth.node) if isinstance(n, (ast.For,))]
    segvars: set[str] = set()
    for lp in loops:
        if "self.path" in text(lp.iter):
            segvars |= {n.id for n in ast.walk(lp.target) if isinstance(n, ast.Name)}
    if not segvars:
        return  # reported by the loop rule above

    tok = repo.resolve("liquid.builtin.expressions._tokenize")
    tmod = repo.modules.get("liquid.builtin.expressions._tokenize") if hasattr(repo, "modules") else None
    if tmod is None:
        raise AnchorMissing("liquid.builtin.expressions._tokenize not found")
    # the WORD rule of the tokenizer's rule table
    word_pat = None
    rules = tmod.assigns.get("_rules")
    if isinstance(rules, (ast.Tuple, ast.List)):
        for e in rules.elts:
            if isinstance(e, ast.Tuple) and len(e.elts) == 2 and fold_str(repo, tmod, e.elts[0], 0) == "word":
                word_pat = fold_str(repo, tmod, e.elts[1], 0)
    if word_pat is None:
        raise AnchorMissing("the expression tokenizer's WORD rule was not found in _tokenize._rules")
    wshape = rx.simple_shape(word_pat)
    if wshape is None:
        raise AnchorMissing(f"the WORD token pattern {word_pat!r} is not of the simple one-class-then-repeat form")
    kw = tmod.assigns.get("_keywords")
    keywords = fold_str_set(repo, tmod, kw) if kw is not None else None
    if not keywords:
        raise AnchorMissing("_tokenize._keywords could not be folded")

    def bare_write(st: ast.stmt) -> list[str]:
        """segment variables the statement writes outside square brackets"""
        out = []
        if isinstance(st, (ast.If, ast.For, ast.While, ast.With, ast.Try, ast.FunctionDef)):
            return out
        for n in ast.walk(st):
            if isinstance(n, ast.JoinedStr):
                consts = "".join(str(v.value) for v in n.values if isinstance(v, ast.Constant))
                if "[" in consts:
                    continue
                for v in n.values:
                    if isinstance(v, ast.FormattedValue) and isinstance(v.value, ast.Name) and v.value.id in segvars:
                        out.append(v.value.id)
        # a bare `buf.append(segment)` / `yield segment` / `x += segment`
        val = None
        if isinstance(st, ast.Expr) and isinstance(st.value, ast.Call) and callee_name(st.value) in ("append", "write") and st.value.args:
            val = st.value.args[0]
        elif isinstance(st, ast.Expr) and isinstance(st.value, ast.Yield):
            val = st.value.value
        elif isinstance(st, ast.AugAssign):
            val = st.value
        elif isinstance(st, ast.Assign):
            val = st.value
        stack = [val] if val is not None else []
        while stack:
            e = stack.pop()
            if isinstance(e, ast.Name) and e.id in segvars:
                out.append(e.id)
            elif isinstance(e, ast.IfExp):
                stack += [e.body, e.orelse]
            elif isinstance(e, ast.BinOp) and isinstance(e.op, ast.Add):
                consts = [x.value for x in (e.left, e.right) if isinstance(x, ast.Constant) and isinstance(x.value, str)]
                if not any("[" in c for c in consts):
                    stack += [e.left, e.right]
        return out

    n_sites = 0
    for st, conds in conditions(pth.node):
        for seg in sorted(set(bare_write(st))):
            # string segments only: int segments / nested paths are written in brackets by the
            # other branches; a write with no isinstance(str) fact is judged all the same
            n_sites += 1
            res.ob(f"shorthand:{pth.qual}:{text(st)[:40]}", 3)
            full = None
            kw_ok = False
            for c in conds:
                if isinstance(c, ast.Call) and isinstance(c.func, ast.Attribute) and c.func.attr in ("fullmatch", "match") and c.args:
                    recv = c.func.value
                    pat = None
                    arg = None
                    if is_name(recv, "re") and len(c.args) >= 2:
                        pat = fold_str(repo, mod, c.args[0], 0)
                        arg = c.args[1]
                    else:
                        r = repo.resolve_in(mod, text(recv))
                        if isinstance(r, tuple) and r[0] == "const" and isinstance(r[2], ast.Call) and callee_name(r[2]) == "compile" and r[2].args:
                            pat = fold_str(repo, r[1], r[2].args[0], 0)
                        arg = c.args[0]
                    if pat is None or not is_name(arg, seg):
                        continue
                    whole = c.func.attr == "fullmatch" or rx.ends_anchored(pat)
                    full = (pat, whole)
                if isinstance(c, ast.Compare) and len(c.ops) == 1 and isinstance(c.ops[0], ast.NotIn) and is_name(c.left, seg):
                    ks = fold_str_set(repo, mod, c.comparators[0])
                    if ks is not None and keywords <= ks:
                        kw_ok = True
                    elif ks is not None:
                        res.add("C04-QUOTE", pth.qual, "shorthand:keyword-set", f"Path.__str__ excludes {sorted(ks)[:6]}… from dot notation but the tokenizer's keywords also include {sorted(keywords - ks)[:6]}: `a['{sorted(keywords - ks)[0]}']` is written `a.{sorted(keywords - ks)[0]}`, which does not parse", pth.file, st.lineno)
                        kw_ok = True
            if full is None:
                res.add("C04-QUOTE", pth.qual, "shorthand:untested", f"Path.__str__ writes the string segment `{seg}` without brackets (`{text(st)[:60]}`) under no pattern test: any key is written in dot notation", pth.file, st.lineno)
                continue
            pat, whole = full
            if not whole:
                res.add("C04-QUOTE", pth.qual, "shorthand:prefix-test", f"Path.__str__ decides dot notation with a prefix test (`match` on {pat!r}): `page['meta.title']` is written `page.meta.title` (a different path) and `page['first name']` as text that does not parse", pth.file, st.lineno)
            shape = rx.simple_shape(pat)
            if shape is None:
                raise AnchorMissing(f"Path.__str__: the shorthand pattern {pat!r} is not of the simple one-class-then-repeat form; the inclusion in the WORD token cannot be decided")
            first, rest, _n, _star = shape
            wfirst, _wrest, _wn, wstar = wshape
            digits = rx._category("digit")
            w = rx.witness(first, wfirst & ~digits & rx._all())
            if w is not None:
                res.add("C04-QUOTE", pth.qual, "shorthand:first-char", f"Path.__str__ writes a segment starting with {w!r} (U+{ord(w):04X}) in dot notation; the tokenizer does not start a WORD token there (pattern {word_pat!r}, digits start a number): the text does not parse back to the same path", pth.file, st.lineno)
            w = rx.witness(rest, wstar)
            if w is not None:
                res.add("C04-QUOTE", pth.qual, "shorthand:rest-char", f"Path.__str__ writes a segment containing {w!r} (U+{ord(w):04X}) in dot notation; the tokenizer's WORD token (pattern {word_pat!r}) stops there: the text does not parse back to the same path", pth.file, st.lineno)
            if not kw_ok:
                k0 = sorted(keywords)[0]
                res.add("C04-QUOTE", pth.qual, "shorthand:keyword", f"Path.__str__ writes a segment equal to a tokenizer keyword in dot notation: `a['{k0}']` becomes `a.{k0}`, which the path parser rejects (keywords get their own token kind)", pth.file, st.lineno)
    if n_sites == 0:
        res.add("C04-QUOTE", pth.qual, "shorthand:none", "Path.__str__: no dot-notation write of a string segment found (the rule has nothing to decide)", pth.file, pth.line)


_STRIPS = ("strip", "lstrip", "rstrip")


def verbatim_flow(fn: ast.AST, is_raw) -> list[tuple[ast.AST, str]]:
    """Returns of ``fn`` in which source text (expressions for which ``is_raw`` holds) arrives
    *transformed*.  Text may be copied through local names, f-strings without a conversion,
    concatenation, conditional expressions and an argument-less strip of the whole text (white
    space next to the tag delimiters is not significant); any other call, subscript or
    comprehension applied to it on the way to the returned string counts as a transformation —
    the text is source that is parsed again (or written out verbatim), and a string literal in it
    may contain any character, line ends and runs of blanks included."""
    env: dict[str, str] = {}

    def has(e: ast.AST) -> bool:
        return any(is_raw(x) or (isinstance(x, ast.Name) and x.id in env) for x in ast.walk(e))

    def worst(vals) -> str | None:
        vals = [v for v in vals if v]
        return "xf" if "xf" in vals else ("raw" if vals else None)

    def carries(e: ast.AST) -> str | None:
        if is_raw(e):
            return "raw"
        if isinstance(e, ast.Name):
            return env.get(e.id)
        if isinstance(e, ast.Constant):
            return None
        if isinstance(e, ast.JoinedStr):
            return worst(carries(v) for v in e.values)
        if isinstance(e, ast.FormattedValue):
            c = carries(e.value)
            if c and (e.conversion != -1 or e.format_spec is not None):
                return "xf"
            return c
        if isinstance(e, ast.IfExp):
            return worst([carries(e.body), carries(e.orelse)])
        if isinstance(e, ast.BinOp) and isinstance(e.op, ast.Add):
            return worst([carries(e.left), carries(e.right)])
        if isinstance(e, (ast.Compare, ast.BoolOp)) and not isinstance(e, ast.BoolOp):
            return None
        if isinstance(e, ast.BoolOp):
            # `x or ""`
            return worst(carries(v) for v in e.values)
        if isinstance(e, ast.Call) and isinstance(e.func, ast.Attribute) and e.func.attr in _STRIPS and not e.args and not e.keywords:
            return carries(e.func.value)
        return "xf" if has(e) else None

    changed = True
    rounds = 0
    while changed and rounds < 6:
        changed = False
        rounds += 1
        for st in walk_no_nested(fn):
            pairs = []
            if isinstance(st, ast.Assign) and len(st.targets) == 1 and isinstance(st.targets[0], ast.Name):
                pairs = [(st.targets[0].id, carries(st.value))]
            elif isinstance(st, ast.AnnAssign) and isinstance(st.target, ast.Name) and st.value is not None:
                pairs = [(st.target.id, carries(st.value))]
            elif isinstance(st, ast.AugAssign) and isinstance(st.target, ast.Name):
                pairs = [(st.target.id, carries(st.value))]
            elif isinstance(st, (ast.For, ast.AsyncFor)) and has(st.iter):
                pairs = [(x.id, "xf") for x in ast.walk(st.target) if isinstance(x, ast.Name)]
            elif isinstance(st, ast.Expr) and isinstance(st.value, ast.Call) and isinstance(st.value.func, ast.Attribute) and st.value.func.attr in ("append", "extend", "insert", "write") and isinstance(st.value.func.value, ast.Name):
                vals = [carries(a) for a in st.value.args]
                # a list / buffer the text is collected in: joined later
                pairs = [(st.value.func.value.id, "xf" if "xf" in vals else ("raw" if "raw" in vals else None))]
            for name, c in pairs:
                if c and worst([env.get(name), c]) != env.get(name):
                    env[name] = worst([env.get(name), c])
                    changed = True
    out = []
    n_raw = 0
    for st in walk_no_nested(fn):
        if isinstance(st, ast.Return) and st.value is not None:
            v = st.value
            # "".join(parts): a list the text was collected in unchanged
            if isinstance(v, ast.Call) and isinstance(v.func, ast.Attribute) and v.func.attr == "join" and isinstance(v.func.value, ast.Constant) and len(v.args) == 1 and isinstance(v.args[0], ast.Name):
                c = env.get(v.args[0].id)
            else:
                c = carries(v)
            if c:
                n_raw += 1
            if c == "xf":
                out.append((st, text(v)[:80]))
    return out, n_raw


def run(repo: Repo) -> Result:
    res = Result(PID)
    res.rules = ["C04-RAW", "C04-ORDER", "C04-COVER", "C04-SKEL", "C04-WORDS", "C04-QUOTE", "C04-PREC", "C04-VERBATIM", "C04-TOKEN"]
    res.explanation = "necessary conditions of round-trip serialisation: field coverage of __str__, markup skeleton shape, reader/writer keyword agreement, quoting without escapes, bracket rule using the parser's binding powers"
    res.assumptions = ["equality of the re-parsed tree for every template is not decided (value level)"]
    reg = Registry(repo)

    node_classes: dict[str, tuple[ClassInfo, object]] = {}
    for t in reg.tags.values():
        if t.node_class is not None:
            node_classes[t.node_class.qual] = (t.node_class, t)
    for q in ("liquid.ast.BlockNode", "liquid.ast.ConditionalBlockNode", "liquid.builtin.tags.case_tag.MultiExpressionBlockNode", "liquid.builtin.tags.for_tag.BreakNode", "liquid.builtin.tags.for_tag.ContinueNode"):
        node_classes.setdefault(q, (repo.cls(q), None))
    expr_classes = [c for c in repo.subclasses("liquid.expression.Expression", strict=True)] + [repo.cls(q) for q in EXPR_EXTRA]

    # ---- C04-COVER ---------------------------------------------------------------
    def str_method(c):
        m = repo.find_method(c, "__str__")
        return m

    for q, (c, tag) in sorted(node_classes.items()):
        m = str_method(c)
        res.ob(f"cover:{q}")
        if m is None:
            if tag is not None and tag.origin == "extra":
                res.sample({"rule": "C04-COVER", "class": q, "note": "extra tag without __str__ (outside the property's standard tags)"})
                continue
            res.add("C04-COVER", q, "no-__str__", f"{q} has no __str__: the template cannot be serialised back to source", c.file, c.node.lineno)
            continue
        used = set()
        for rm in ("render_to_output", "render_to_output_async"):
            f = repo.find_method(c, rm)
            if f is not None and f.cls.qual != "liquid.ast.Node":
                used |= self_reads(f.node)
        helpers = set()
        written = self_reads(m.node)
        for fld in slots_of(repo, c):
            if fld in IGNORED_FIELDS:
                continue
            res.ob(f"cover:{q}.{fld}")
            if fld in used and fld not in written:
                if f"{q}|{fld}" in REVIEWED_COVER:
                    continue
                res.add("C04-COVER", q, f"field:{fld}", f"{c.name}.__str__ never reads self.{fld}, which rendering depends on: the serialised template loses it", m.file, m.line)
    for c in expr_classes:
        m = str_method(c)
        res.ob(f"cover:{c.qual}")
        if m is None:
            res.add("C04-COVER", c.qual, "no-__str__", f"{c.qual} has no __str__", c.file, c.node.lineno)
            continue
        used = set()
        for rm in ("evaluate", "evaluate_async", "evaluate_args", "_make_range", "_slice"):
            f = repo.find_method(c, rm)
            if f is not None and f.cls.qual != "liquid.expression.Expression":
                used |= self_reads(f.node)
        written = self_reads(m.node)
        if c.name == "BooleanExpression":
            written |= {"expression"}
        for fld in slots_of(repo, c):
            if fld in IGNORED_FIELDS:
                continue
            res.ob(f"cover:{c.qual}.{fld}")
            if fld in used and fld not in written:
                if f"{c.qual}|{fld}" in REVIEWED_COVER:
                    if c.name == "_AnyExpression" and "expression" not in self_reads(repo.own_method("liquid.builtin.tags.case_tag.CaseNode", "__str__").node):
                        pass
                    else:
                        continue
                res.add("C04-COVER", c.qual, f"field:{fld}", f"{c.name}.__str__ never reads self.{fld}, which evaluation depends on", m.file, m.line)

    # ---- C04-SKEL / C04-WORDS ------------------------------------------------------
    def parser_words(c: ClassInfo, tag) -> set[str]:
        """Keyword strings the parser(s) that construct class c test for."""
        words: set[str] = set()
        fns = []
        if tag is not None:
            fns += [m for m in tag.cls.methods.values()]
            words |= {tag.name, tag.end}
        # functions that construct c
        for f in repo.all_functions():
            if f.name.startswith(("parse", "_parse")):
                for call in calls(f.node, nested=True):
                    if isinstance(call.func, ast.Name) and call.func.id == c.name:
                        fns.append(f)
                        if f.cls is not None:
                            fns += [m for m in f.cls.methods.values() if m.name.startswith(("parse", "_parse"))]
                            for a in ("name", "end"):
                                av = repo.find_attr(f.cls, a)
                                if av:
                                    s = fold_str(repo, av[0].module, av[1], 0)
                                    if s:
                                        words.add(s)
        own_parse = c.methods.get("parse")
        if own_parse is not None:
            fns.append(own_parse)
        if c.name in ("BooleanExpression",):
            fns += [repo.func("liquid.builtin.expressions.logical.parse_boolean_primitive"), repo.func("liquid.builtin.expressions.logical.parse_infix_expression"), repo.func("liquid.builtin.expressions.logical.parse_grouped_expression"), repo.own_method("liquid.builtin.expressions.logical.LogicalNotExpression", "parse")]
        if c.name in ("TrueLiteral", "FalseLiteral", "Continue", "Nil", "Empty", "Blank"):
            fns += [repo.func("liquid.builtin.expressions.primitive.parse_primitive"), repo.own_method("liquid.builtin.expressions.loop.LoopExpression", "parse")]
        for f in fns:
            for n in ast.walk(f.node):
                if isinstance(n, ast.Name) and (n.id.startswith(("TOKEN_", "TAG_")) or n.id.isupper()):
                    s = fold_str(repo, f.module, n, 0)
                    if s is not None:
                        words.add(s)
                    else:
                        ss = fold_str_set(repo, f.module, n)
                        if ss:
                            words |= set(ss)
                elif isinstance(n, ast.Constant) and isinstance(n.value, str) and re.fullmatch(r"[a-z_]+", n.value):
                    words.add(n.value)
                elif isinstance(n, ast.Attribute) and is_name(n.value, "self") and f.cls is not None:
                    av = repo.find_attr(f.cls, n.attr)
                    if av:
                        s = fold_str(repo, av[0].module, av[1], 0)
                        if s:
                            words.add(s)
                        else:
                            ss = fold_str_set(repo, av[0].module, av[1])
                            if ss:
                                words |= set(ss)
        return words

    n_skel = 0
    for q, (c, tag) in sorted(node_classes.items()):
        m = c.methods.get("__str__") or str_method(c)
        if m is None or m.cls.qual != c.qual and tag is None:
            continue
        skels = Skel(repo, c, m).run()
        if not skels:
            raise AnchorMissing(f"{q}.__str__: could not derive a skeleton")
        n_skel += 1
        words_ok = parser_words(c, tag)
        for s in sorted(skels):
            res.ob(f"skel:{q}")
            if q in ("liquid.ast.BlockNode", "liquid.builtin.content.ContentNode") or s in (HOLE, ""):
                continue  # concatenation of children / raw text
            rest = MARKUP.sub("", s).replace(HOLE, "")
            if rest.strip():
                res.add("C04-SKEL", q, f"stray-text:{rest.strip()[:30]}", f"{c.name}.__str__ writes literal text `{rest.strip()[:40]}` outside any markup (skeleton: {s[:90]!r}): it re-parses as template text", m.file, m.line)
            if tag is not None and tag.name not in ("content", "output", "#", "comment", "doc", "illegal"):
                if not re.match(r"^\{% " + re.escape(tag.name) + r"(\b|" + HOLE + r"| )", s):
                    res.add("C04-SKEL", q, f"open:{s[:30]}", f"{c.name}.__str__ does not open with `{{% {tag.name} ...`: {s[:60]!r}", m.file, m.line)
                if tag.block and tag.end and not re.search(r"\{% " + re.escape(tag.end) + r"( " + HOLE + r")? %\}$", s):
                    res.add("C04-SKEL", q, f"close:{s[-30:]}", f"{c.name}.__str__ does not close with `{{% {tag.end} %}}`: ...{s[-50:]!r}", m.file, m.line)
            for mk in MARKUP.findall(s):
                for w in re.findall(r"[a-z_]+", mk.replace(HOLE, " ")):
                    res.ob(f"word:{q}:{w}")
                    if w not in words_ok:
                        res.add("C04-WORDS", q, f"word:{w}", f"{c.name}.__str__ writes the keyword `{w}` (in {mk[:50]!r}) but the parser that builds {c.name} never looks for it", m.file, m.line)
        res.sample({"rule": "C04-SKEL", "class": q, "skeletons": sorted(skels)[:3]}, cap=40)
    for c in expr_classes:
        m = c.methods.get("__str__")
        if m is None:
            continue
        skels = Skel(repo, c, m).run()
        n_skel += 1
        words_ok = parser_words(c, None)
        if c.name in ("LogicalAndExpression", "LogicalOrExpression", "LogicalNotExpression", "EqExpression", "NeExpression", "LeExpression", "GeExpression", "LtExpression", "GtExpression", "ContainsExpression"):
            words_ok |= parser_words(repo.cls("liquid.builtin.expressions.logical.BooleanExpression"), None)
        if skels == {""}:
            res.ob(f"empty:{c.qual}")
            res.add("C04-WORDS", c.qual, "empty-serialisation", f"{c.name}.__str__ returns the empty string: `{{{{ x == {c.name.lower()} }}}}`-style expressions serialise to text that does not parse", m.file, m.line)
        for s in sorted(skels):
            for w in re.findall(r"[a-z_]+", s.replace(HOLE, " ")):
                res.ob(f"word:{c.qual}:{w}")
                if w not in words_ok:
                    res.add("C04-WORDS", c.qual, f"word:{w}", f"{c.name}.__str__ writes the keyword `{w}` (skeleton {s[:50]!r}) but its parser never looks for it", m.file, m.line)
        res.sample({"rule": "C04-SKEL", "class": c.qual, "skeletons": sorted(skels)[:3]}, cap=40)
    if n_skel < 60:
        raise AnchorMissing(f"only {n_skel} serialisers analysed")

    # ---- C04-QUOTE ------------------------------------------------------------------
    def has_repr(fn) -> bool:
        for n in ast.walk(fn.node):
            if isinstance(n, ast.Call) and is_name(n.func, "repr"):
                return True
            if isinstance(n, ast.FormattedValue) and n.conversion == ord("r"):
                return True
        return False

    from ..normalize import nfunc

    sl = repo.cls("liquid.builtin.expressions.primitive.StringLiteral")
    res.ob("quote:StringLiteral")
    m = sl.methods.get("__str__")
    if m is not None:
        m = nfunc(repo, m, small_public=6, aliases=False)  # a shared quoting helper is inlined
    if m is None or has_repr(m):
        res.add("C04-QUOTE", sl.qual, "repr", "StringLiteral must be serialised verbatim between quotes (no repr: Liquid strings have no escape sequences)", sl.file, sl.node.lineno)
    elif "in self.value" not in text(m.node):
        res.add("C04-QUOTE", sl.qual, "quote-choice", "StringLiteral.__str__ must choose the quote character the value does not contain", m.file, m.line)
    fl = repo.cls("liquid.builtin.expressions.primitive.FloatLiteral")
    res.ob("quote:FloatLiteral")
    m = fl.methods.get("__str__")
    if m is None or not any(isinstance(n, ast.Call) and is_name(n.func, "format") and len(n.args) == 2 and isinstance(n.args[1], ast.Constant) and n.args[1].value == "f" for n in ast.walk(m.node)):
        res.add("C04-QUOTE", fl.qual, "exponent", "FloatLiteral must be serialised positionally (format(..., 'f')): the float token has no exponent form", fl.file, fl.node.lineno)
    pth = nfunc(repo, repo.own_method("liquid.builtin.expressions.path.Path", "__str__"), small_public=6, aliases=False)
    res.ob("quote:Path", 2)
    if has_repr(pth):
        res.add("C04-QUOTE", pth.qual, "repr", "Path.__str__ must not use repr for quoted segments", pth.file, pth.line)
    # no segment may bypass the branches: str(next(it)) / str(self.path[0]) outside an isinstance chain
    for n in ast.walk(pth.node):
        if isinstance(n, ast.Call) and is_name(n.func, "str") and n.args and (
            (isinstance(n.args[0], ast.Call) and is_name(n.args[0].func, "next")) or (isinstance(n.args[0], ast.Subscript) and attr_chain(n.args[0].value) == ["self", "path"])
        ):
            res.add("C04-QUOTE", pth.qual, "root-unbranched", "Path.__str__ prints the first segment with bare str(): a quoted or nested root segment loses its brackets", pth.file, n.lineno)
    loops = [n for n in walk_no_nested(pth.node) if isinstance(n, ast.For)]
    if not loops or "self.path" not in text(loops[0].iter):
        res.add("C04-QUOTE", pth.qual, "loop", "Path.__str__ must run every segment of self.path through the same branches", pth.file, pth.line)
    _check_path_shorthand(repo, res, pth)
    cy = repo.own_method("liquid.builtin.tags.cycle_tag.CycleNode", "__str__")
    res.ob("quote:CycleNode")
    if "token.value" in text(cy.node):
        res.add("C04-QUOTE", cy.qual, "group-token", "CycleNode.__str__ must print the group through its expression (quotes kept), not the raw token value", cy.file, cy.line)
    for c in list(x[0] for x in node_classes.values()) + expr_classes:
        m = c.methods.get("__str__")
        if m is None or c.qual in (sl.qual, fl.qual) or c.name == "Literal":
            continue
        res.ob(f"quote:{c.qual}")
        if has_repr(nfunc(repo, m, small_public=6, aliases=False)):
            res.add("C04-QUOTE", c.qual, "repr", f"{c.name}.__str__ uses repr()/!r: Python escapes are not Liquid syntax", m.file, m.line)

    # ---- C04-PREC ---------------------------------------------------------------------
    be = repo.own_method("liquid.builtin.expressions.logical.BooleanExpression", "__str__")
    res.ob("prec", 5)
    inner = next((n for n in be.node.body if isinstance(n, ast.FunctionDef)), None)
    if inner is None:
        # the same recursive helper as a private module-level function called from __str__
        import copy as _copy0

        for c0 in ast.walk(be.node):
            if isinstance(c0, ast.Call) and isinstance(c0.func, ast.Name) and c0.func.id in be.module.functions:
                hf = be.module.functions[c0.func.id]
                if any(isinstance(x, ast.Call) and is_name(x.func, hf.name) for x in ast.walk(hf.node)):
                    inner = _copy0.deepcopy(hf.node)
                    for x in ast.walk(inner):
                        if isinstance(x, ast.Name) and x.id == hf.name:
                            x.id = "_str"
                    inner.name = "_str"
                    break
    if inner is None:
        res.add("C04-PREC", be.qual, "shape", "BooleanExpression.__str__: recursive helper not found", be.file, be.line)
    else:
        # local names are spelling: the locals handed on as precedence / binding in the recursive
        # call on `.left` are renamed to the names the rule speaks of
        p0 = inner.args.args[0].arg if inner.args.args else "expression"
        ren = {}
        for c0 in ast.walk(inner):
            if isinstance(c0, ast.Call) and is_name(c0.func, inner.name) and c0.args and text(c0.args[0]) == f"{p0}.left" and len(c0.args) >= 3:
                if isinstance(c0.args[1], ast.Name):
                    ren[c0.args[1].id] = "precedence"
                if isinstance(c0.args[2], ast.Name):
                    ren[c0.args[2].id] = "binding"
        if ren and set(ren.values()) == {"precedence", "binding"} and ren != {"precedence": "precedence", "binding": "binding"}:
            import copy as _copy

            inner = _copy.deepcopy(inner)
            for n in ast.walk(inner):
                if isinstance(n, ast.Name) and n.id in ren:
                    n.id = ren[n.id]
        mod = be.module
        prec = mod.assigns.get("PRECEDENCES")
        pmap = {text(k): text(v) for k, v in zip(prec.keys, prec.values)} if isinstance(prec, ast.Dict) else {}
        branches = {}
        for n in ast.walk(inner):
            if isinstance(n, ast.If) and isinstance(n.test, ast.Call) and is_name(n.test.func, "isinstance"):
                cls_name = text(n.test.args[1])
                for st in n.body:
                    if isinstance(st, ast.Assign):
                        tg = st.targets[0]
                        if isinstance(tg, ast.Tuple) and isinstance(st.value, ast.Name) and isinstance(mod.assigns.get(st.value.id), ast.Tuple):
                            # a module-level constant naming the triple
                            branches[cls_name] = dict(zip([t.id for t in tg.elts if isinstance(t, ast.Name)], [text(v) for v in mod.assigns[st.value.id].elts]))
                        elif isinstance(tg, ast.Tuple) and isinstance(st.value, ast.Tuple):
                            branches[cls_name] = dict(zip([t.id for t in tg.elts if isinstance(t, ast.Name)], [text(v) for v in st.value.elts]))
                        elif isinstance(tg, ast.Name):
                            branches.setdefault(cls_name, {})[tg.id] = text(st.value)
                            for extra_t in st.targets[1:]:
                                if isinstance(extra_t, ast.Name):
                                    branches[cls_name][extra_t.id] = text(st.value)
        a, o = branches.get("LogicalAndExpression", {}), branches.get("LogicalOrExpression", {})
        if a.get("binding") != pmap.get("TOKEN_AND") or o.get("binding") != pmap.get("TOKEN_OR"):
            res.add("C04-PREC", be.qual, f"binding:and={a.get('binding')}:or={o.get('binding')}", f"the serialiser's binding power for and/or must be the parser's ({pmap.get('TOKEN_AND')}/{pmap.get('TOKEN_OR')}): otherwise equal-precedence chains are bracketed for a grammar the parser does not implement", be.file, be.line)
        src = text(inner)
        need = {
            "left-operand": "left and binding <= parent_binding",
            "right-operand": "operand and (not left) and (binding < parent_binding)",
            "left-call": "_str(expression.left, precedence, binding, left=True, operand=True)",
            "right-call": "_str(expression.right, precedence, binding, operand=True)",
        }
        # the bracket test is read disjunct by disjunct in canonical form (operand order and the
        # direction a comparison is written in do not matter)
        from ..guards import canon as _canon
        from ..guards import conjuncts as _conjuncts

        def cset(txt):
            return frozenset(_canon(c) for c in _conjuncts(ast.parse(txt, mode="eval").body))

        disj: set = set()
        for n in ast.walk(inner):
            if isinstance(n, ast.If) and any(isinstance(r, ast.Return) and isinstance(r.value, ast.JoinedStr) and text(r.value).startswith("f'(") for r in n.body):
                vals = n.test.values if isinstance(n.test, ast.BoolOp) and isinstance(n.test.op, ast.Or) else [n.test]
                for v_ in vals:
                    disj.add(frozenset(_canon(c) for c in _conjuncts(v_)))
        canon_need = {"left-operand": cset("left and binding <= parent_binding"), "right-operand": cset("operand and not left and binding < parent_binding")}
        for k, frag in need.items():
            if k in canon_need:
                if canon_need[k] not in disj:
                    res.add("C04-PREC", be.qual, k, f"BooleanExpression.__str__ no longer brackets under `{frag}` — the bracket rule that keeps the parser's right grouping", be.file, be.line)
                continue
            if frag not in src:
                res.add("C04-PREC", be.qual, k, f"BooleanExpression.__str__ no longer contains `{frag}` — the bracket rule that keeps the parser's right grouping", be.file, be.line)
        # not: bracketed whenever it is an operand
        not_if = next((n for n in ast.walk(inner) if isinstance(n, ast.If) and "LogicalNotExpression" in text(n.test)), None)
        not_ok = False
        if not_if is not None:
            for n in ast.walk(not_if):
                if isinstance(n, ast.If) and n is not not_if and any(isinstance(r, ast.Return) and isinstance(r.value, ast.JoinedStr) and text(r.value).startswith("f'(") for r in n.body):
                    vals = n.test.values if isinstance(n.test, ast.BoolOp) and isinstance(n.test.op, ast.Or) else [n.test]
                    ds = {frozenset(_canon(c) for c in _conjuncts(v_)) for v_ in vals}
                    if cset("operand") in ds:
                        not_ok = True
        if not not_ok:
            res.add("C04-PREC", be.qual, "not-operand", "`not` must be bracketed whenever it is an operand (it swallows everything to its right)", be.file, be.line)
        # comparisons handled by the same rule
        if "_COMPARISONS" not in src or "ContainsExpression" not in src:
            res.add("C04-PREC", be.qual, "comparisons", "comparison and membership operators must be serialised by the same bracket rule (logical operands of == need brackets)", be.file, be.line)
        sym = mod.assigns.get("_COMPARISON_SYMBOLS")
        want = {"EqExpression": "==", "NeExpression": "!=", "LeExpression": "<=", "GeExpression": ">=", "LtExpression": "<", "GtExpression": ">"}
        got = {text(k): v.value for k, v in zip(sym.keys, sym.values)} if isinstance(sym, ast.Dict) else {}
        if got != want:
            res.add("C04-PREC", f"{mod.name}._COMPARISON_SYMBOLS", "symbols", f"comparison symbols table is {got}; expected {want}", mod.relpath, be.line)
    # the symbols the standalone comparison classes print must be what the tokenizer maps to their token
    ops = repo.const("liquid.token.operators")
    opmap = {k.value: text(v) for k, v in zip(ops.keys, ops.values)} if isinstance(ops, ast.Dict) else {}
    for cname, tok in (("EqExpression", "TOKEN_EQ"), ("NeExpression", "TOKEN_NE"), ("LeExpression", "TOKEN_LE"), ("GeExpression", "TOKEN_GE"), ("LtExpression", "TOKEN_LT"), ("GtExpression", "TOKEN_GT")):
        c = repo.cls(f"liquid.builtin.expressions.logical.{cname}")
        res.ob(f"symbol:{cname}")
        sk = Skel(repo, c, c.methods["__str__"]).run()
        symbols = {s.replace(HOLE, "").strip() for s in sk}
        good = {k for k, v in opmap.items() if v == tok}
        if not symbols <= good:
            res.add("C04-WORDS", c.qual, f"symbol:{sorted(symbols)}", f"{cname}.__str__ writes {sorted(symbols)} but the tokenizer maps {sorted(good)} to {tok}", c.file, c.methods["__str__"].line)
    # ---- C04-RAW: literal text that contains markup delimiters ---------------------------------
    # The lexer turns `{% raw %}text{% endraw %}` into a plain content token; the text may contain
    # `{{` / `{%`.  Written back bare it would be read as markup, so the content node's serialiser
    # must re-wrap such text in a raw block (reader/writer agreement for the RAW rule).
    from ..normalize import NFunc as _NFn
    from ..normalize import lexer_canonical as _lexer_canonical

    tk0 = repo.func("liquid.lex._tokenize_template")
    tk = _NFn(tk0, _lexer_canonical(tk0.node))  # locals named after their definitions (kind = match.lastgroup ...)
    raw_if = None
    for n in ast.walk(tk.node):
        if isinstance(n, ast.If) and isinstance(n.test, ast.Compare) and is_name(n.test.left, "kind") and len(n.test.comparators) == 1 and isinstance(n.test.comparators[0], ast.Constant) and n.test.comparators[0].value == "RAW":
            raw_if = n
    if raw_if is None:
        raise AnchorMissing("liquid.lex._tokenize_template: the `kind == 'RAW'` branch was not found; re-derive C04-RAW")
    raw_kind = next((text(st.value) for st in raw_if.body if isinstance(st, ast.Assign) and is_name(st.targets[0], "kind")), None)
    res.ob("raw:reader")
    if raw_kind == "TOKEN_CONTENT":
        cn = repo.cls("liquid.builtin.content.ContentNode")
        m = cn.methods.get("__str__")
        res.ob("raw:writer", 2)
        if m is None:
            res.add("C04-RAW", cn.qual, "no-str", "ContentNode has no __str__", cn.file, cn.line)
        else:
            wrapped = None
            for n in walk_no_nested(m.node):
                if isinstance(n, ast.If) and any(isinstance(st, ast.Return) and st.value is not None and re.fullmatch(r"\{% raw %\}" + HOLE + r"\{% endraw %\}", next(iter(Skel(repo, cn, m)._expr(st.value, {})), "")) for st in n.body):
                    wrapped = n
            if wrapped is None:
                res.add("C04-RAW", cn.qual, "raw-not-rewrapped", "ContentNode.__str__ never writes `{% raw %}<text>{% endraw %}`: the lexer hands it the text of raw blocks (kind RAW -> TOKEN_CONTENT), which may contain `{{` / `{%` and would re-parse as markup", m.file, m.line)
            else:
                t = wrapped.test
                disj = t.values if isinstance(t, ast.BoolOp) and isinstance(t.op, ast.Or) else [t]
                seen_d = {d.left.value for d in disj if isinstance(d, ast.Compare) and len(d.ops) == 1 and isinstance(d.ops[0], ast.In) and isinstance(d.left, ast.Constant) and text(d.comparators[0]) == "self.text"}
                missing = {"{{", "{%"} - seen_d
                if missing or len(seen_d) != len(disj):
                    res.add("C04-RAW", cn.qual, f"raw-guard:{sorted(missing)}", f"ContentNode.__str__ re-wraps text in a raw block only when `{text(t)[:80]}`; it must do so whenever the text contains `{{{{` or `{{%` (missing: {sorted(missing)})", m.file, wrapped.lineno)
    elif raw_kind is None:
        raise AnchorMissing("liquid.lex._tokenize_template: the RAW branch no longer assigns `kind`; re-derive C04-RAW")

    # ---- C04-TOKEN: what an expression evaluates to does not depend on how it was spelled ------------
    # Serialising cannot preserve the *kind* of the token a sub-expression was read from (a bare
    # `continue` and the quoted 'continue' both become a StringLiteral, and str() writes the quoted
    # form).  So no evaluate / render code of a node or expression class may branch on, or read,
    # `self.<field>.token.kind` / `.token.value` of a sub-expression: the re-parsed template would
    # take the other branch.  (A node's *own* token — its tag name — is written back by __str__ and
    # may be read.)
    n_tok = 0
    for c in list({q: c for q, (c, _t) in node_classes.items()}.values()) + list(expr_classes):
        for mname, m in c.methods.items():
            if not (mname.startswith(("evaluate", "render", "_slice", "_to_iter", "_make_range", "_evaluate")) or mname in ("children", "children_async")):
                continue
            n_tok += 1
            for n in ast.walk(m.node):
                if isinstance(n, ast.Attribute) and n.attr in ("kind", "value"):
                    ch = attr_chain(n)
                    if ch and len(ch) == 4 and ch[0] == "self" and ch[2] == "token":
                        res.add("C04-TOKEN", c.qual, f"{mname}:{'.'.join(ch)}", f"{c.name}.{mname} reads `{'.'.join(ch)}`: what the expression evaluates to depends on the kind/text of the token self.{ch[1]} was parsed from, which str() does not write back (a bare keyword and its quoted form are the same node) — the serialised template renders differently", m.file, n.lineno)
    res.ob("token-independent-evaluation", max(1, n_tok))
    if n_tok < 40:
        raise AnchorMissing(f"C04-TOKEN: only {n_tok} evaluate/render methods examined")

    # ---- C04-VERBATIM: source text kept by a node is written back unchanged --------------------------
    # The content node renders ``self.text`` as is, and the liquid tag's node keeps the *source* of
    # its statements (the value of its expression token) and writes that back instead of
    # serialising its block.  Either text must arrive in the serialised template unchanged.
    n_verb = 0
    for q, (c, _tag) in sorted(node_classes.items()):
        m = c.methods.get("__str__")
        if m is None:
            continue
        rend = c.methods.get("render_to_output")
        written = set()
        if rend is not None:
            for call in calls(rend.node, nested=False):
                if callee_name(call) == "write" and call.args:
                    ch = attr_chain(call.args[0])
                    if ch and ch[0] == "self" and len(ch) == 2:
                        written.add(ch[1])

        def is_raw(e, written=written):
            ch = attr_chain(e) if isinstance(e, ast.Attribute) else None
            if not ch or ch[0] != "self":
                return False
            if len(ch) == 2 and ch[1] in written:
                return True  # the field render writes out as is
            return len(ch) == 3 and ch[2] == "value" and ch[1].endswith("token")  # source text of a kept token

        if not any(is_raw(x) for x in ast.walk(m.node)):
            continue
        bad, n_raw = verbatim_flow(m.node, is_raw)
        n_verb += 1
        res.ob(f"verbatim:{q}", 1 + n_raw)
        for st, frag in bad:
            res.add("C04-VERBATIM", q, "transformed", f"{c.name}.__str__ writes back source text it kept (the text render writes out, or the value of a kept token) after transforming it (`{frag}`): a string literal in that text may contain line ends and blanks, so the serialised template no longer parses to the same template", m.file, st.lineno)
    if n_verb < 2:
        raise AnchorMissing(f"C04-VERBATIM: only {n_verb} serialisers that write back kept source text found (content node and liquid tag node expected)")

    # ---- C04-ORDER: sequences are written in the order they are rendered ---------------------------
    # A list field that render/evaluate walks in order (case/when blocks, elsif alternatives, filters,
    # arguments, path segments, child nodes) must be serialised by ONE order-preserving traversal:
    # no sorted()/reversed()/[::-1] on it and no partition of its elements into several lists.
    n_order = 0
    for c in list({q: c for q, (c, _t) in node_classes.items()}.values()) + list(expr_classes):
        m = c.methods.get("__str__")
        if m is None:
            continue
        for n in walk_no_nested(m.node):
            its = []
            if isinstance(n, ast.For):
                its = [(n.iter, n)]
            elif isinstance(n, (ast.ListComp, ast.GeneratorExp)):
                its = [(g.iter, n) for g in n.generators]
            for it, holder in its:
                src_ = it
                wrappers = []
                while isinstance(src_, ast.Call) and src_.args and isinstance(src_.func, ast.Name):
                    wrappers.append(src_.func.id)
                    src_ = src_.args[0]
                rev_slice = isinstance(src_, ast.Subscript) and isinstance(src_.slice, ast.Slice) and src_.slice.step is not None
                base = src_.value if isinstance(src_, ast.Subscript) else src_
                ch = attr_chain(base)
                if not (ch and ch[0] == "self" and len(ch) == 2):
                    continue
                n_order += 1
                res.ob(f"order:{c.qual}.{ch[1]}")
                bad = [w for w in wrappers if w in ("sorted", "reversed", "set", "frozenset")]
                if bad or rev_slice:
                    res.add("C04-ORDER", c.qual, f"reordered:{ch[1]}", f"{c.name}.__str__ walks self.{ch[1]} through `{text(it)[:50]}`: the elements are written in a different order than they are rendered", m.file, holder.lineno)
                if isinstance(holder, ast.For):
                    sinks = {call_recv(x).id for x in ast.walk(holder) if isinstance(x, ast.Call) and isinstance(x.func, ast.Attribute) and x.func.attr in ("append", "extend", "insert") and isinstance(call_recv(x), ast.Name)}
                    ins = [x for x in ast.walk(holder) if isinstance(x, ast.Call) and isinstance(x.func, ast.Attribute) and x.func.attr == "insert"]
                    if len(sinks) > 1 or ins:
                        res.add("C04-ORDER", c.qual, f"partitioned:{ch[1]}", f"{c.name}.__str__ distributes the elements of self.{ch[1]} over {sorted(sinks)} ({'insert' if ins else 'several lists'}): elements that are rendered interleaved are written regrouped, so the text re-parses to a different order", m.file, holder.lineno)
    if n_order < 8:
        raise AnchorMissing(f"C04-ORDER: only {n_order} sequence traversals found in serialisers")
    res.stats.update(serialisers=n_skel, node_classes=len(node_classes), expression_classes=len(expr_classes), ordered_traversals=n_order)
    return res


def selftest(repo: Repo):
    from ..selftest import Variant, text_edit

    def v(name, rel, old, new, expect, count=1):
        return lambda: Variant(name, text_edit(repo, rel, old, new, count), expect)

    T = "liquid/builtin/tags/"
    E = "liquid/builtin/expressions/"
    return [
        v("tablerow-pseudo-syntax", T + "tablerow_tag.py", 'return f"{{% tablerow {self.expression} %}}{self.block}{{% endtablerow %}}"', 'return f"tablerow({self.expression}) {{ {self.block} }}"', "C04-SKEL"),
        v("ifchanged-braces", T + "ifchanged_tag.py", 'return f"{{% ifchanged %}}{self.block}{{% endifchanged %}}"', 'return f"{{% ifchanged %}}{{ {self.block} }}{{% endifchanged %}}"', "C04-SKEL"),
        v("path-shorthand-prefix-test", E + "path.py", "RE_PROPERTY.fullmatch(segment) and segment not in KEYWORDS", "RE_PROPERTY.match(segment) and segment not in KEYWORDS", "C04-QUOTE"),
        v("path-shorthand-keywords", E + "path.py", "RE_PROPERTY.fullmatch(segment) and segment not in KEYWORDS", "RE_PROPERTY.fullmatch(segment)", "C04-QUOTE"),
        v("path-shorthand-wide-class", E + "path.py", 'RE_PROPERTY = re.compile(r"[^\\W\\d][\\w-]*")', 'RE_PROPERTY = re.compile(r"[^\\W\\d][\\w.-]*")', "C04-QUOTE"),
        v("path-shorthand-digit-first", E + "path.py", 'RE_PROPERTY = re.compile(r"[^\\W\\d][\\w-]*")', 'RE_PROPERTY = re.compile(r"\\w[\\w-]*")', "C04-QUOTE"),
        v("cycle-raw-group", T + "cycle_tag.py", 'name = f"{self.group}: " if self.group else ""', 'name = f"{self.group.token.value}: " if self.group else ""', "C04-QUOTE"),
        v("for-drops-else", T + "for_tag.py", '        default = ""\n\n        if self.default:\n            default = f"{{% else %}}{self.default}"\n\n        return f"{{% for {self.expression} %}}{self.block}{default}{{% endfor %}}"', '        return f"{{% for {self.expression} %}}{self.block}{{% endfor %}}"', "C04-COVER"),
        v("elsif-misspelt", "liquid/ast.py", 'return f"{{% elsif {self.expression} %}}{self.block}"', 'return f"{{% elif {self.expression} %}}{self.block}"', "C04-WORDS"),
        v("loop-drops-reversed", E + "loop.py", '        if self.reversed:\n            buf.append("reversed")\n\n        return " ".join(buf)', '        return " ".join(buf)', "C04-COVER"),
        v("loop-limit-keyword", E + "loop.py", 'buf.append(f"limit:{self.limit}")', 'buf.append(f"max:{self.limit}")', "C04-WORDS"),
        v("capture-wrong-end", T + "capture_tag.py", 'return f"{{% capture {self.name} %}}{self.block}{{% endcapture %}}"', 'return f"{{% capture {self.name} %}}{self.block}{{% endcap %}}"', "C04-"),
        v("string-repr", E + "primitive.py", '        quote = \'"\' if "\'" in self.value else "\'"\n        return f"{quote}{self.value}{quote}"\n\n    def __hash__', "        return repr(self.value)\n\n    def __hash__", "C04-QUOTE"),
        v("float-repr", E + "primitive.py", '        text = format(Decimal(repr(self.value)), "f")\n        return text if "." in text else f"{text}.0"', "        return repr(self.value)", "C04-QUOTE"),
        v("path-root-bare", E + "path.py", "        buf: list[str] = []\n        for i, segment in enumerate(self.path):", "        buf: list[str] = [str(self.path[0])]\n        for i, segment in enumerate(self.path[1:], 1):", "C04-QUOTE"),
        v("and-or-unequal-binding", E + "logical.py", "                precedence, binding, op = (\n                    PRECEDENCE_LOGICAL_AND,\n                    PRECEDENCE_LOGICAL_RIGHT,\n                    \"and\",\n                )", "                precedence, binding, op = (\n                    PRECEDENCE_LOGICAL_AND,\n                    PRECEDENCE_LOGICAL_AND,\n                    \"and\",\n                )", "C04-PREC"),
        v("left-operand-unbracketed", E + "logical.py", "                or (left and binding <= parent_binding)\n", "                or (left and binding < parent_binding)\n", "C04-PREC"),
        v("not-operand-unbracketed", E + "logical.py", "                if operand or parent_precedence > PRECEDENCE_PREFIX:", "                if parent_precedence > PRECEDENCE_PREFIX:", "C04-PREC"),
        v("gt-prints-lt", E + "logical.py", '        return f"{self.left} > {self.right}"', '        return f"{self.left} < {self.right}"', "C04-WORDS"),
        v("include-drops-alias", T + "include_tag.py", '        if self.alias:\n            var += f" as {self.alias}"\n        if self.args:\n            var += ","\n        args = " " + ", ".join(str(arg) for arg in self.args) if self.args else ""\n        return f"{{% include {self.name}{var}{args} %}}"', '        if self.args:\n            var += ","\n        args = " " + ", ".join(str(arg) for arg in self.args) if self.args else ""\n        return f"{{% include {self.name}{var}{args} %}}"', "C04-COVER"),
        v("ternary-drops-tail-filters", E + "filtered.py", '        if self.tail_filters:\n            buf.append(" || " + " | ".join(str(f) for f in self.tail_filters))\n\n        return "".join(buf)', '        return "".join(buf)', "C04-COVER"),
        v("render-for-printed-as-with", T + "render_tag.py", '            var = f" for {self.var}" if self.loop else f" with {self.var}"', '            var = f" with {self.var}"', "C04-COVER"),
    ]
