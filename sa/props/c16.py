"""C16 — strict undefined types only refine the default behaviour (clause).

  C16-STRICT   every implicit-protocol method that ``Undefined`` defines (``__contains__
               __eq__ __getitem__ __len__ __iter__ __str__ __int__ __hash__ __reversed__``)
               plus ``__bool__`` is overridden in ``StrictUndefined`` by a body that only raises
               ``UndefinedError`` — so outputting, iterating, comparing, indexing, measuring or
               filtering a missing variable cannot silently succeed; ``__getattribute__``
               raises ``UndefinedError`` for every name outside ``allowed_properties`` and that
               set contains no protocol method.
  C16-DEFAULT  ``Undefined`` itself contains no ``raise`` (the default type never fails for a
               missing variable) and its protocol methods return the empty/false value.
  C16-FALSY    ``FalsyStrictUndefined`` relaxes exactly ``__bool__`` and ``__eq__`` (no raise in
               them) and allows only those dunders (plus ``__liquid__``/``__class__``) through
               ``__getattribute__``; ``StrictDefaultUndefined`` adds only
               ``force_liquid_default``.
  C16-ENV      ``RenderContext.get*``/``_resolve``/``parentloop`` construct missing values with
               ``self.env.undefined(...)`` (the configured type), never ``Undefined(...)``.
  C16-RAWEQ    (first sentence) the only relaxed method whose answer differs between the default
               type and ``FalsyStrictUndefined`` is ``__eq__`` (``Undefined() == None`` is true,
               ``FalsyStrictUndefined() == None`` is false, and the other way round for
               ``False``).  So no raw ``==`` / ``!=`` / ``in`` / ``.index`` / ``.count`` in code
               reachable from ``render`` may see a possibly-undefined data value next to a
               possibly nil / boolean / undefined one: either ``is_undefined`` excludes it on
               that path or both operands were first unwrapped through ``__liquid__()`` (which
               both types answer with ``None``).  Decided with the context-sensitive kind
               inference of the exception-escape engine.
  C16-MISSING  the item getters leave only through KeyError / TypeError / IndexError (the classes
               ``RenderContext.get*`` turn into the undefined value): explicit raises are of those
               classes, and the "first pair of a mapping" ``next(...)`` runs only for a non-empty
               object (side condition shared with the C02 reviewed row).
Not decided: the rest of the first sentence (a strict render that succeeds equals the default
render) — value level.
"""

from __future__ import annotations

import ast

from ..astutil import call_recv, callee_name, calls, is_name, text
from ..core import Result
from ..model import AnchorMissing, Repo, fold_str_set, walk_no_nested

PID = "C16"
MIN_OBLIGATIONS = 30
U = "liquid.undefined"
PROTOCOL = ["__contains__", "__eq__", "__getitem__", "__len__", "__iter__", "__str__", "__int__", "__hash__", "__reversed__"]


def _only_raises_undefined(fn) -> bool:
    body = [s for s in fn.body if not (isinstance(s, ast.Expr) and isinstance(s.value, ast.Constant))]
    return len(body) == 1 and isinstance(body[0], ast.Raise) and isinstance(body[0].exc, ast.Call) and callee_name(body[0].exc) == "UndefinedError"


def run(repo: Repo) -> Result:
    res = Result(PID)
    res.rules = ["C16-STRICT", "C16-DEFAULT", "C16-FALSY", "C16-ENV", "C16-SWALLOW", "C16-RAWEQ", "C16-MISSING"]
    res.explanation = "table agreement between Undefined's implicit-protocol methods and the strict subclasses' overrides"
    res.assumptions = ["the first sentence of the property (equal output on success) is value-level and not decided"]
    und = repo.cls(f"{U}.Undefined")
    strict = repo.cls(f"{U}.StrictUndefined")
    falsy = repo.cls(f"{U}.FalsyStrictUndefined")
    sdu = repo.cls(f"{U}.StrictDefaultUndefined")

    base_protocol = [m for m in und.methods if m.startswith("__") and m.endswith("__") and m not in ("__init__", "__repr__", "__liquid__")]
    for p in PROTOCOL:
        res.ob(f"Undefined.{p}")
        if p not in und.methods:
            res.add("C16-DEFAULT", und.qual, f"missing:{p}", f"Undefined no longer defines {p}; the protocol table must be re-derived", und.file, und.node.lineno)
    for p in sorted(set(base_protocol) | set(PROTOCOL) | {"__bool__"}):
        res.ob(f"StrictUndefined.{p}")
        f = strict.methods.get(p)
        if f is None:
            res.add("C16-STRICT", strict.qual, f"not-overridden:{p}", f"StrictUndefined does not override {p}: that use of a missing variable silently succeeds with the default behaviour", strict.file, strict.node.lineno)
        elif not _only_raises_undefined(f.node):
            res.add("C16-STRICT", f.qual, f"does-not-raise:{p}", f"StrictUndefined.{p} must only raise UndefinedError", f.file, f.line)
    # __getattribute__
    ga = strict.methods.get("__getattribute__")
    res.ob("StrictUndefined.__getattribute__", 2)
    if ga is None:
        res.add("C16-STRICT", strict.qual, "no-__getattribute__", "StrictUndefined must guard attribute access with __getattribute__", strict.file, strict.node.lineno)
    else:
        # read through path conditions (sa/guards.py): every `return` happens only under
        # `name in <allowed_properties>`, every other way out raises UndefinedError
        from ..guards import exits as _exits

        ex = _exits(ga.node)

        def allowed_cond(c) -> bool:
            return isinstance(c, ast.Compare) and len(c.ops) == 1 and isinstance(c.ops[0], ast.In) and isinstance(c.left, ast.Name) and "allowed_properties" in text(c.comparators[0])

        ok = bool(ex) and any(e.kind == "return" for e in ex) and any(e.kind == "raise" for e in ex)
        for e in ex:
            if e.kind == "return":
                ok = ok and any(allowed_cond(c) for c in e.conds)
            elif e.kind == "raise":
                ok = ok and e.raised() == "UndefinedError"
            else:
                ok = False
        if not ok:
            res.add("C16-STRICT", ga.qual, "shape", "StrictUndefined.__getattribute__ must return allowed properties and raise UndefinedError for everything else", ga.file, ga.line)
    allowed = fold_str_set(repo, strict.module, strict.attrs.get("allowed_properties")) if "allowed_properties" in strict.attrs else None
    res.ob("StrictUndefined.allowed_properties")
    if allowed is None:
        res.add("C16-STRICT", strict.qual, "allowed_properties", "cannot fold StrictUndefined.allowed_properties", strict.file, strict.node.lineno)
    else:
        bad = sorted(a for a in allowed if a.startswith("__") and a != "__repr__")
        if bad:
            res.add("C16-STRICT", strict.qual, f"allowed:{bad}", f"StrictUndefined lets {bad} through __getattribute__", strict.file, strict.node.lineno)
        extra = sorted(a for a in allowed if a in ("poke", "__liquid__"))
        if extra:
            res.add("C16-STRICT", strict.qual, f"allowed:{extra}", f"StrictUndefined allows {extra}", strict.file, strict.node.lineno)

    # ---- C16-DEFAULT -----------------------------------------------------------
    for m in und.methods.values():
        res.ob(f"default:{m.qual}")
        for n in ast.walk(m.node):
            if isinstance(n, ast.Raise):
                res.add("C16-DEFAULT", m.qual, "raises", f"{m.qual} raises: the default undefined type must never fail for a missing variable", m.file, n.lineno)
    expect_ret = {"__contains__": "False", "__len__": "0", "__str__": "''", "__int__": "0", "__getitem__": "self", "__iter__": "iter([])", "__reversed__": "[]"}
    for p, want in expect_ret.items():
        f = und.methods.get(p)
        if f is None:
            continue
        res.ob(f"default-value:{p}")
        rets = [s for s in walk_no_nested(f.node) if isinstance(s, ast.Return)]
        if len(rets) != 1 or text(rets[0].value) != want:
            res.add("C16-DEFAULT", f.qual, f"returns:{text(rets[0].value) if rets else None}", f"Undefined.{p} must return {want}", f.file, f.line)

    # ---- C16-FALSY ---------------------------------------------------------------
    res.ob("FalsyStrictUndefined", 3)
    relaxed = sorted(m for m in falsy.methods if m.startswith("__"))
    if relaxed != ["__bool__", "__eq__"]:
        res.add("C16-FALSY", falsy.qual, f"overrides:{relaxed}", f"FalsyStrictUndefined must relax exactly __bool__ and __eq__ (found {relaxed})", falsy.file, falsy.node.lineno)
    for p in ("__bool__", "__eq__"):
        f = falsy.methods.get(p)
        if f and any(isinstance(n, ast.Raise) for n in ast.walk(f.node)):
            res.add("C16-FALSY", f.qual, "raises", f"{f.qual} must not raise", f.file, f.line)
    fa = fold_str_set(repo, falsy.module, falsy.attrs.get("allowed_properties")) if "allowed_properties" in falsy.attrs else None
    if fa is None:
        res.add("C16-FALSY", falsy.qual, "allowed_properties", "cannot fold FalsyStrictUndefined.allowed_properties", falsy.file, falsy.node.lineno)
    else:
        dunders = sorted(a for a in fa if a.startswith("__") and a not in ("__repr__", "__bool__", "__eq__", "__liquid__", "__class__"))
        if dunders:
            res.add("C16-FALSY", falsy.qual, f"allowed:{dunders}", f"FalsyStrictUndefined lets {dunders} through: more than truthiness/equality is relaxed", falsy.file, falsy.node.lineno)
    res.ob("StrictDefaultUndefined")
    if sdu.methods or sorted(sdu.attrs) != ["force_liquid_default"]:
        res.add("C16-FALSY", sdu.qual, f"members:{sorted(sdu.methods) + sorted(sdu.attrs)}", "StrictDefaultUndefined may only add force_liquid_default", sdu.file, sdu.node.lineno)
    for c in (strict, falsy, sdu):
        res.ob(f"base:{c.qual}")
        if not repo.is_subclass(c, f"{U}.Undefined"):
            res.add("C16-STRICT", c.qual, "base", f"{c.qual} must derive from Undefined (is_undefined relies on it)", c.file, c.node.lineno)

    # ---- C16-ENV ------------------------------------------------------------------
    n = 0
    for f in repo.all_functions():
        if f.module.name == U:
            continue
        for c in calls(f.node, nested=True):
            if isinstance(c.func, ast.Name) and c.func.id in ("Undefined", "StrictUndefined", "DebugUndefined"):
                res.ob(f"ctor:{f.qual}")
                res.add("C16-ENV", f.qual, f"ctor:{c.func.id}", f"{f.qual} constructs {c.func.id}(...) directly instead of the environment's configured undefined type", f.file, c.lineno)
            if callee_name(c) == "undefined" and isinstance(c.func, ast.Attribute) and text(call_recv(c)).endswith("env"):
                n += 1
    res.ob("env.undefined-sites", max(n, 1))
    if n < 8:
        raise AnchorMissing(f"only {n} env.undefined(...) construction sites found")
    res.stats.update(protocol_methods=sorted(set(base_protocol) | {"__bool__"}), env_undefined_sites=n)
    # ---- C16-SWALLOW ----------------------------------------------------------------------
    # The strict types work by raising UndefinedError from the protocol methods; any `except`
    # between the touch and the render boundary whose classes cover UndefinedError (Exception,
    # LiquidError, bare except ...) and that does not re-raise / route to env.error turns
    # "filtering a missing variable raises" into a silently computed value.
    from ..engines import hnd

    H = hnd.Hier(repo)
    REVIEWED_HANDLERS = {
        "liquid.environment.Environment.from_string|Exception": "parse time (no render data yet); the Liquid family is re-raised by the preceding handler",
    }
    n_h = 0
    for h in hnd.handlers(repo):
        if h.classes and not H.catches(h.classes, "UndefinedError"):
            continue
        n_h += 1
        res.ob(f"handler:{h.func.qual}:{','.join(h.classes) or 'bare'}")
        if h.kinds <= {"reraise", "route"} and h.kinds:
            continue
        key = f"{h.func.qual}|{','.join(h.classes)}"
        if key in REVIEWED_HANDLERS:
            continue
        res.add(
            "C16-SWALLOW",
            h.func.qual,
            f"except {','.join(h.classes) or 'bare'}:{'+'.join(sorted(h.kinds))}",
            f"{h.func.qual}: `except {', '.join(h.classes) or '<bare>'}` also catches UndefinedError and {'swallows it' if 'swallow' in h.kinds else 'replaces it (' + ', '.join(h.raised) + ')'}: with a strict undefined type, touching a missing variable inside this try no longer raises UndefinedError",
            h.func.file,
            h.node.lineno,
        )
    if n_h < 6:
        raise AnchorMissing(f"only {n_h} handlers that can catch UndefinedError found (routers in parser/template expected)")
    _check_raweq(repo, res)
    # ---- C16-MISSING: a path segment that is not there is a *missing path*, not an error ---------
    # ``RenderContext.get*`` turn KeyError / TypeError / IndexError from the item getters into the
    # configured undefined value (C14-UNDEF).  So the item getters may leave only through those
    # classes: every explicit ``raise`` in them is of one of the three (or a bare re-raise inside a
    # handler of the three), and ``next(<iterator over the object>)`` — the "first pair of a
    # mapping" case — runs only where the object is known to be non-empty (no StopIteration).
    from .c02 import mapping_first_unguarded

    CONVERTED = {"KeyError", "TypeError", "IndexError"}
    for f_, ln, why in mapping_first_unguarded(repo):
        res.add("C16-MISSING", f_.qual, "first-of-empty-mapping", f"{f_.qual}: {why}: `.first` of an empty mapping raises StopIteration (RuntimeError under asyncio) out of render instead of resolving to the undefined value", f_.file, ln)
    # what runs *after* a lookup has failed — building the undefined value and its hint in
    # ``RenderContext.get*`` / ``_segments_str`` — must not raise either, whatever the failed segment
    # is (a missing key variable is an Undefined, a nil or a float, not a str): decided by the
    # exception-escape engine of C02 (same run, findings whose site is in that code re-keyed)
    from . import c02 as _c02

    r02 = _c02.run(repo)
    AFTER_FAILURE = (" in liquid.context._segments_str", " in liquid.context.RenderContext.get ", " in liquid.context.RenderContext.get_async ", " in liquid.context.RenderContext._undefined")
    res.ob("missing:after-failure", 2)
    seen_af = set()
    for f02 in r02.findings:
        if f02.rule == "C02-ESCAPE" and any(a in f02.message for a in AFTER_FAILURE) and f02.detail not in seen_af:
            seen_af.add(f02.detail)
            res.add("C16-MISSING", "liquid.context.RenderContext.get", f"after-failure:{f02.detail[:80]}", "building the undefined value for a failed lookup can itself raise: " + f02.message[:400], f02.file, f02.line)
    rc = repo.cls("liquid.context.RenderContext")
    for m in ("get_item", "get_item_async"):
        g_ = repo.own_method("liquid.context.RenderContext", m)
        fns = [g_] + [rc.methods[c.func.attr] for c in ast.walk(g_.node) if isinstance(c, ast.Call) and isinstance(c.func, ast.Attribute) and is_name(c.func.value, "self") and c.func.attr.startswith("_") and c.func.attr in rc.methods]
        n_r = 0
        for f_ in {x.qual: x for x in fns}.values():
            for r in ast.walk(f_.node):
                if isinstance(r, ast.Raise):
                    n_r += 1
                    if r.exc is None:
                        continue
                    cls_ = r.exc.func if isinstance(r.exc, ast.Call) else r.exc
                    nm = text(cls_).split(".")[-1]
                    if nm not in CONVERTED:
                        res.add("C16-MISSING", f_.qual, f"raises:{nm}", f"{f_.qual} raises {nm}, which RenderContext.get does not turn into the undefined value: the default undefined type raises for this missing path", f_.file, r.lineno)
        res.ob(f"missing:{g_.qual}", max(1, n_r))
        if n_r < 1:
            raise AnchorMissing(f"{g_.qual}: no raise statement found in the getter or its private helpers; re-derive C16-MISSING")
    return res


def _is_unwrap_expr(e: ast.AST, nm: str) -> bool:
    """``nm.__liquid__() if hasattr(nm, "__liquid__") else nm``"""
    return (
        isinstance(e, ast.IfExp)
        and isinstance(e.test, ast.Call)
        and callee_name(e.test) == "hasattr"
        and len(e.test.args) == 2
        and text(e.test.args[0]) == nm
        and isinstance(e.test.args[1], ast.Constant)
        and e.test.args[1].value == "__liquid__"
        and text(e.body) == f"{nm}.__liquid__()"
        and text(e.orelse) == nm
    )


def _is_unwrap_helper(fn: ast.AST) -> bool:
    """a one-parameter function that returns ``p.__liquid__()`` when p has it and p otherwise"""
    a = fn.args
    ps = [x.arg for x in a.posonlyargs + a.args]
    if len(ps) != 1:
        return False
    p = ps[0]
    body = [s for s in fn.body if not (isinstance(s, ast.Expr) and isinstance(s.value, ast.Constant))]
    if len(body) == 1 and isinstance(body[0], ast.Return) and body[0].value is not None:
        return _is_unwrap_expr(body[0].value, p)
    if len(body) == 2 and isinstance(body[0], ast.If) and isinstance(body[1], ast.Return) and text(body[1].value) == p and not body[0].orelse:
        t = body[0].test
        return (
            isinstance(t, ast.Call) and callee_name(t) == "hasattr" and len(t.args) == 2 and text(t.args[0]) == p and isinstance(t.args[1], ast.Constant) and t.args[1].value == "__liquid__"
            and len(body[0].body) == 1 and isinstance(body[0].body[0], ast.Return) and text(body[0].body[0].value) == f"{p}.__liquid__()"
        )
    return False


def _unwrapped_names(repo: Repo, f) -> set[str]:
    """names rebound through their own ``__liquid__()`` at the top level of the function, in any
    of the spellings: ``if hasattr(x, "__liquid__"): x = x.__liquid__()``, the conditional
    expression, or ``x = helper(x)`` with a helper that is exactly that unwrapping"""
    fn = f.node
    out = set()
    for st in fn.body:
        if isinstance(st, ast.If) and isinstance(st.test, ast.Call) and callee_name(st.test) == "hasattr" and len(st.test.args) == 2 and isinstance(st.test.args[0], ast.Name) and isinstance(st.test.args[1], ast.Constant) and st.test.args[1].value == "__liquid__" and not st.orelse:
            nm = st.test.args[0].id
            if len(st.body) == 1 and isinstance(st.body[0], ast.Assign) and len(st.body[0].targets) == 1 and isinstance(st.body[0].targets[0], ast.Name) and st.body[0].targets[0].id == nm and text(st.body[0].value) == f"{nm}.__liquid__()":
                out.add(nm)
        if isinstance(st, ast.Assign) and len(st.targets) == 1 and isinstance(st.targets[0], ast.Name):
            nm = st.targets[0].id
            if _is_unwrap_expr(st.value, nm):
                out.add(nm)
            elif isinstance(st.value, ast.Call) and len(st.value.args) == 1 and not st.value.keywords and text(st.value.args[0]) == nm:
                r = repo.resolve_in(f.module, text(st.value.func)) if isinstance(st.value.func, (ast.Name, ast.Attribute)) else None
                if r is not None and hasattr(r, "node") and isinstance(r.node, (ast.FunctionDef,)) and _is_unwrap_helper(r.node):
                    out.add(nm)
    return out


def _check_raweq(repo: Repo, res: Result) -> None:
    from ..engines.exc import Exc
    from ..kinds import ALL

    x = Exc(repo)
    hits: dict[tuple, dict] = {}
    n_seen = [0]
    PARSE_MODS = ("liquid.stream", "liquid.parser", "liquid.lex", "liquid.token")
    NBU = frozenset("NBU")

    def hook(f, node, st, flow, key):
        pairs = []
        if isinstance(node, ast.Compare) and len(node.ops) == 1 and isinstance(node.ops[0], (ast.Eq, ast.NotEq, ast.In, ast.NotIn)):
            pairs = [(node.left, node.comparators[0])]
        elif isinstance(node, ast.Call) and isinstance(node.func, ast.Attribute) and node.func.attr in ("index", "count") and len(node.args) >= 1:
            pairs = [(node.args[0], None)]
        if not pairs or f.module.name.startswith(PARSE_MODS):
            return
        n_seen[0] += 1
        a, b = pairs[0]
        ka = flow.kinds_of(a, st)
        kb = flow.kinds_of(b, st) if b is not None else NBU
        bad = None
        if "U" in ka and ka != ALL and kb & NBU:
            bad = (a, ka, kb)
        elif b is not None and "U" in kb and kb != ALL and ka & NBU and not isinstance(node.ops[0], (ast.In, ast.NotIn)):
            bad = (b, kb, ka)
        if bad is None:
            return
        unwrapped = _unwrapped_names(repo, f)
        ops = [a] + ([b] if b is not None else [])
        if all((isinstance(o, ast.Name) and o.id in unwrapped) or "U" not in flow.kinds_of(o, st) or flow.kinds_of(o, st) == ALL for o in ops):
            return
        hits.setdefault((f.qual, type(node.ops[0]).__name__ if isinstance(node, ast.Compare) else node.func.attr), {"node": node, "f": f, "kinds": ("".join(sorted(ka)), "".join(sorted(kb)))})

    x.expr_hooks.append(hook)
    x.run([(repo.own_method("liquid.template.BoundTemplate", "render"), {}), (repo.own_method("liquid.template.BoundTemplate", "render_async"), {})])
    res.ob("raweq:comparisons-seen", max(n_seen[0], 1))
    if n_seen[0] < 150 or len(x.summaries) < 400:
        raise AnchorMissing(f"C16-RAWEQ saw only {n_seen[0]} comparisons in {len(x.summaries)} (function, context) summaries: the call graph from render is broken")
    eqf = repo.func("liquid.builtin.expressions.logical._eq")
    res.ob("raweq:_eq-unwraps")
    if _unwrapped_names(repo, eqf) != {p for p in eqf.params()}:
        res.add("C16-RAWEQ", eqf.qual, "unwrap", "_eq must rebind both operands through __liquid__() before comparing them (the undefined types answer None there): a raw == between an undefined and nil/false differs between Undefined and FalsyStrictUndefined", eqf.file, eqf.line)
    for (fq, op), h in sorted(hits.items()):
        f, node = h["f"], h["node"]
        res.add(
            "C16-RAWEQ",
            fq,
            f"raw-{op}",
            f"{fq}: `{text(node)[:70]}` compares a possibly undefined value (kinds {h['kinds'][0]} vs {h['kinds'][1]}) with Python's raw equality: Undefined() == None is true but FalsyStrictUndefined() == None is false (and == False the other way round), so the render succeeds under both types with different output; test is_undefined() first or compare through __liquid__()",
            f.file,
            getattr(node, "lineno", f.line),
        )
    res.stats["raweq_comparisons_seen"] = n_seen[0]


def selftest(repo: Repo):
    from ..selftest import Variant, text_edit

    def v(name, rel, old, new, expect, count=1):
        return lambda: Variant(name, text_edit(repo, rel, old, new, count), expect)

    P = "liquid/undefined.py"
    out = []
    strict_block_start = "class StrictUndefined(Undefined):"
    for dunder, sig in (
        ("__contains__", "    def __contains__(self, item: object) -> bool:\n        raise UndefinedError(self.msg, token=self.token)\n"),
        ("__len__", "    def __len__(self) -> int:\n        raise UndefinedError(self.msg, token=self.token)\n"),
        ("__iter__", "    def __iter__(self) -> Iterator[Any]:\n        raise UndefinedError(self.msg, token=self.token)\n"),
        ("__str__", "    def __str__(self) -> str:\n        raise UndefinedError(self.msg, token=self.token)\n"),
        ("__int__", "    def __int__(self) -> int:\n        raise UndefinedError(self.msg, token=self.token)\n"),
        ("__hash__", "    def __hash__(self) -> int:\n        raise UndefinedError(self.msg, token=self.token)\n"),
        ("__reversed__", "    def __reversed__(self) -> Iterable[Any]:\n        raise UndefinedError(self.msg, token=self.token)\n"),
        ("__getitem__", "    def __getitem__(self, key: str) -> object:\n        raise UndefinedError(self.msg, token=self.token)\n"),
    ):
        out.append(v(f"strict-drops-{dunder}", P, sig, "", f"not-overridden:{dunder}"))
    out += [
        v("has-drops-undefined-guard", "liquid/builtin/filters/array.py", "    if value is not None and not is_undefined(value):\n        return any((itm for itm in sequence if _getitem(itm, attr) == value))", "    if value is not None:\n        return any((itm for itm in sequence if _getitem(itm, attr) == value))", "C16-RAWEQ"),
        v("extra-index-raw-equality", "liquid/extra/filters/array.py", "    if isinstance(obj, Undefined):\n        # Look for nil, whatever the undefined type. `Undefined` and\n        # `FalsyStrictUndefined` disagree about being equal to `None` and `False`.\n        obj = obj.__liquid__()\n\n", "", "C16-RAWEQ"),
        v("eq-helper-no-unwrap", "liquid/builtin/expressions/logical.py", "def _eq(left: object, right: object) -> bool:\n    if hasattr(left, \"__liquid__\"):\n        left = left.__liquid__()\n\n", "def _eq(left: object, right: object) -> bool:\n", "C16-RAWEQ"),
        v("strict-bool-false", P, "    def __bool__(self) -> bool:\n        raise UndefinedError(self.msg, token=self.token)", "    def __bool__(self) -> bool:\n        return False", "does-not-raise:__bool__"),
        v("allow-len", P, '            "__repr__",\n            # "__class__",', '            "__repr__",\n            "__len__",', "C16-STRICT"),
        v("default-raises", P, "    def __len__(self) -> int:\n        return 0", "    def __len__(self) -> int:\n        raise TypeError('undefined')", "C16-DEFAULT"),
        v("default-str-nonempty", P, '    def __str__(self) -> str:\n        return ""\n\n    def __repr__(self) -> str:  # pragma: no cover\n        return f"Undefined({self.name})"\n\n    def __int__', '    def __str__(self) -> str:\n        return self.name\n\n    def __repr__(self) -> str:  # pragma: no cover\n        return f"Undefined({self.name})"\n\n    def __int__', "C16-DEFAULT"),
        v("falsy-relaxes-str", P, "    def __bool__(self) -> bool:\n        return False\n\n    def __eq__(self, other: object) -> bool:\n        return other is False", "    def __bool__(self) -> bool:\n        return False\n\n    def __str__(self) -> str:\n        return ''\n\n    def __eq__(self, other: object) -> bool:\n        return other is False", "C16-FALSY"),
        v("context-builds-plain-undefined", "liquid/context.py", "            return self.env.undefined(\"parentloop\", token=None)", "            return Undefined(\"parentloop\", token=None)", "C16-ENV"),
        v("getattribute-returns-none", P, "        raise UndefinedError(object.__getattribute__(self, \"msg\"), token=self.token)", "        return None", "C16-STRICT"),
    ]
    return out
