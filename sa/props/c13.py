"""C13 — loops visit exactly the documented items (clauses).

  C13-INTERRUPT ``BreakLoop`` / ``ContinueLoop`` are raised only by ``BreakNode`` / ``ContinueNode``;
               they are caught by class only in the loop constructs — ``ForNode`` turns them into
               ``break`` / ``continue`` around the body's render, ``TablerowNode`` honours them
               through its ``interrupts`` flag — and as ``LiquidInterrupt`` only at template
               roots (``render_with_context*``), where they become a syntax error or propagate
               to the including loop.
  C13-BOUNDS   both bounds handed to ``islice`` in ``LoopExpression._slice`` are clamped into
               ``[0, length]`` (``min(max(x, 0), length)``) — ``islice`` can never see a negative
               value — and only a *missing* limit (``stop is None``) means "to the end".
  C13-NONE     in ``_slice`` / ``evaluate*`` the variables ``limit``, ``offset``, ``start``, ``stop``
               are tested only with ``is None`` or comparisons: never by truthiness and never
               with an ``or``-default other than ``or 0`` (``limit: 0`` is a limit).
  C13-SHAPE    the reported length is ``max(stop_ - start_, 0)``; ``offset: continue`` starts at
               the stored stop index of the same ``identifier-iterable`` key and every loop
               stores its stop index; ``reversed`` reverses the *sliced* items; ``ForNode`` renders
               its ``else`` block exactly when the sliced length is 0.
  C13-BIND     the helper objects are built from the values they describe: at every
               ``ForLoop(...)`` / ``TableRow(...)`` construction in the loop nodes (both twins)
               the ``it`` parameter receives the sliced iterator and ``length`` the sliced length
               — the pair returned by ``self.expression.evaluate*`` — ``ncols`` receives the
               ``cols`` value (derived from ``self.expression.cols``, or the length when there
               is none) and never the other way round; each constructor stores every one of
               these parameters on the attribute of the same name (the helper formulas read
               ``self.length`` / ``self.ncols`` / ``self.it``).
  C13-HELPERS  the ``forloop`` / ``tablerowloop`` helper properties are the documented formulas of
               the running index (index = i+1, rindex = length-i, first = i==0,
               last = i==length-1, col/row stepping by ``ncols``).
  C13-ITER     every exit of ``LoopExpression._to_iter`` returns an iterator together with exactly its
               number of items, and a scalar is treated as one item only where it is known to be
               non-empty (an empty string is an empty collection: the else block is rendered).
  C13-BLANK    the loop nodes derive ``blank`` from every block they render (body and else), so
               blank-block suppression never discards the else output (engine shared with C10/C18).
Not decided: which items a particular collection/limit/offset yields (value level).
"""

from __future__ import annotations

import ast

from ..astutil import call_recv, attr_chain, callee_name, calls, handler_types, is_name, text, unwrap_await
from ..core import Result
from ..model import AnchorMissing, Repo, walk_no_nested

PID = "C13"
MIN_OBLIGATIONS = 40
LE = "liquid.builtin.expressions.loop.LoopExpression"
FOR = "liquid.builtin.tags.for_tag"
TR = "liquid.builtin.tags.tablerow_tag"

FORLOOP_FORMULAS = {
    "index": "self._index + 1",
    "index0": "self._index",
    "rindex": "self.length - self._index",
    "rindex0": "self.length - self._index - 1",
    "first": "self._index == 0",
    "last": "self._index == self.length - 1",
}
TABLEROW_FORMULAS = {
    **FORLOOP_FORMULAS,
    "col": "self._col",
    "col0": "self._col - 1",
    "col_first": "self._col == 1",
    "col_last": "self._col == self.ncols",
    "row": "self._row",
}


def run(repo: Repo) -> Result:
    res = Result(PID)
    res.rules = ["C13-INTERRUPT", "C13-BOUNDS", "C13-NONE", "C13-SHAPE", "C13-BIND", "C13-HELPERS", "C13-BLANK", "C13-ITER"]
    res.explanation = "who raises/catches the loop interrupts; sign facts of the islice bounds; None-tests of limit/offset; helper formula tables"
    res.assumptions = ["visited items for particular data are value-level"]

    # ---- C13-INTERRUPT -----------------------------------------------------------
    n_raise = 0
    for f in repo.all_functions():
        for n in ast.walk(f.node):
            if isinstance(n, ast.Raise) and n.exc is not None:
                nm = callee_name(n.exc) if isinstance(n.exc, ast.Call) else text(n.exc)
                if nm in ("BreakLoop", "ContinueLoop", "LiquidInterrupt"):
                    n_raise += 1
                    res.ob(f"raise:{f.qual}:{nm}")
                    want = {"BreakLoop": f"{FOR}.BreakNode.render_to_output", "ContinueLoop": f"{FOR}.ContinueNode.render_to_output"}.get(nm)
                    if f.qual != want:
                        res.add("C13-INTERRUPT", f.qual, f"raises:{nm}", f"{f.qual} raises {nm}; only the break/continue nodes may", f.file, n.lineno)
    if n_raise != 2:
        res.add("C13-INTERRUPT", FOR, f"raise-sites:{n_raise}", "expected exactly the two raise sites in BreakNode / ContinueNode", "liquid/builtin/tags/for_tag.py", 0)
    ALLOWED_CATCH = {
        f"{FOR}.ForNode.render_to_output",
        f"{FOR}.ForNode.render_to_output_async",
        f"{TR}.TablerowNode.render_to_output",
        f"{TR}.TablerowNode.render_to_output_async",
    }
    ROOTS = {"liquid.template.BoundTemplate.render_with_context", "liquid.template.BoundTemplate.render_with_context_async"}
    for f in repo.all_functions():
        for h in ast.walk(f.node):
            if isinstance(h, ast.ExceptHandler) and h.type is not None:
                tys = set(handler_types(h))
                if tys & {"BreakLoop", "ContinueLoop"}:
                    res.ob(f"catch:{f.qual}:{sorted(tys)}")
                    if f.qual not in ALLOWED_CATCH:
                        res.add("C13-INTERRUPT", f.qual, f"catches:{sorted(tys)}", f"{f.qual} catches {sorted(tys)}: a break/continue inside it no longer reaches its loop", f.file, h.lineno)
                if "LiquidInterrupt" in tys:
                    res.ob(f"catch:{f.qual}:LiquidInterrupt")
                    if f.qual not in ROOTS:
                        res.add("C13-INTERRUPT", f.qual, "catches:LiquidInterrupt", f"{f.qual} catches LiquidInterrupt", f.file, h.lineno)
    for q in (f"{FOR}.ForNode.render_to_output", f"{FOR}.ForNode.render_to_output_async"):
        f = repo.func(q)
        res.ob(f"for-handlers:{q}", 2)
        hs = {tuple(handler_types(h)): h for h in ast.walk(f.node) if isinstance(h, ast.ExceptHandler)}
        c, b = hs.get(("ContinueLoop",)), hs.get(("BreakLoop",))
        if c is None or not (len(c.body) == 1 and isinstance(c.body[0], ast.Continue)):
            res.add("C13-INTERRUPT", q, "continue", "ForNode must turn ContinueLoop into `continue`", f.file, f.line)
        if b is None or not (len(b.body) == 1 and isinstance(b.body[0], ast.Break)):
            res.add("C13-INTERRUPT", q, "break", "ForNode must turn BreakLoop into `break`", f.file, f.line)
        # the try wraps the body render inside the item loop (the loop over the local bound to
        # the ForLoop(...) helper, whatever it is called)
        helper_vars = {st0.targets[0].id for st0 in ast.walk(f.node) if isinstance(st0, ast.Assign) and len(st0.targets) == 1 and isinstance(st0.targets[0], ast.Name) and isinstance(st0.value, ast.Call) and callee_name(st0.value) == "ForLoop"}
        # ... or the object handed to `context.loop(namespace, <helper>)`
        for w0 in ast.walk(f.node):
            if isinstance(w0, (ast.With, ast.AsyncWith)):
                for i0 in w0.items:
                    c0 = i0.context_expr
                    if isinstance(c0, ast.Call) and callee_name(c0) == "loop" and len(c0.args) >= 2 and isinstance(c0.args[1], ast.Name):
                        helper_vars.add(c0.args[1].id)
        ok = False
        for loop in ast.walk(f.node):
            if isinstance(loop, ast.For) and isinstance(loop.iter, ast.Name) and loop.iter.id in helper_vars:
                for st in loop.body:
                    if isinstance(st, ast.Try) and any(callee_name(x) in ("render", "render_async") for s in st.body for x in calls(s)) and len(st.handlers) == 2:
                        ok = True
        if not ok:
            res.add("C13-INTERRUPT", q, "try-around-body", "the interrupt handlers must wrap the render of the loop body, once per item", f.file, f.line)
    for q in (f"{TR}.TablerowNode.render_to_output", f"{TR}.TablerowNode.render_to_output_async"):
        f = repo.func(q)
        res.ob(f"tablerow-handlers:{q}", 2)
        t = text(f.node)
        # path conditions inside the handlers: the interrupt is re-raised exactly when
        # `self.interrupts` is false, and (BreakLoop) the leave-flag is set only when it is true
        from ..guards import conditions as _conds0
        from ..guards import canon as _canon0

        honour = True
        for h0 in ast.walk(f.node):
            if isinstance(h0, ast.ExceptHandler) and set(handler_types(h0)) & {"BreakLoop", "ContinueLoop"}:
                mod0 = ast.Module(body=h0.body, type_ignores=[])
                raises0 = [(st0, {_canon0(c) for c in cs}) for st0, cs in _conds0(mod0) if isinstance(st0, ast.Raise)]
                if len(raises0) != 1 or raises0[0][1] != {"not self.interrupts"}:
                    honour = False
                if "BreakLoop" in handler_types(h0):
                    sets0 = [{_canon0(c) for c in cs} for st0, cs in _conds0(mod0) if isinstance(st0, ast.Assign) and isinstance(st0.value, ast.Constant) and st0.value.value is True]
                    if not sets0 or any("self.interrupts" not in cs for cs in sets0):
                        honour = False
        if not honour:
            res.add("C13-INTERRUPT", q, "break", "TablerowNode must honour BreakLoop through its interrupts flag", f.file, f.line)
        # the flag set in the BreakLoop handler is tested after the cell is closed: `if <flag>: break`
        flags = set()
        for h0 in ast.walk(f.node):
            if isinstance(h0, ast.ExceptHandler) and "BreakLoop" in handler_types(h0):
                flags |= {a0.targets[0].id for a0 in ast.walk(h0) if isinstance(a0, ast.Assign) and len(a0.targets) == 1 and isinstance(a0.targets[0], ast.Name) and isinstance(a0.value, ast.Constant) and a0.value.value is True}
        leaves = any(isinstance(n0, ast.If) and isinstance(n0.test, ast.Name) and n0.test.id in flags and any(isinstance(x0, ast.Break) for x0 in n0.body) for n0 in ast.walk(f.node))
        if not flags or not leaves:
            res.add("C13-INTERRUPT", q, "break-flag", "TablerowNode must leave the row loop after a break (closing the cell first)", f.file, f.line)
    import copy as _copy

    from ..guards import canon, exits
    from ..normalize import propagate_aliases

    for q in ROOTS:
        f = repo.func(q)
        res.ob(f"root:{q}")
        from ..normalize import nfunc as _nfunc

        # private helpers inlined (a predicate for "may propagate", a factory for the syntax
        # error), hoisted flags / `error = self.env.error` aliases propagated
        fnode = _nfunc(repo, f, small_public=3).node
        h = next((x for x in ast.walk(fnode) if isinstance(x, ast.ExceptHandler) and handler_types(x) == ["LiquidInterrupt"]), None)
        ok = False
        if h is not None:
            ex = exits(ast.Module(body=h.body, type_ignores=[]), resolve_locals=False)
            reraises = [e for e in ex if e.kind == "raise" and (e.node.exc is None or (h.name and is_name(e.node.exc, h.name)))]
            others = [e for e in ex if e not in reraises]
            # re-raised exactly when the template is a partial that is not a block scope
            cond_ok = len(reraises) == 1 and set(reraises[0].canon) == {"partial", "not block_scope"}
            # every other way out of the handler reports a LiquidSyntaxError to env.error
            routed = [c for c in calls(ast.Module(body=h.body, type_ignores=[])) if callee_name(c) == "error" and c.args and isinstance(c.args[0], ast.Call) and callee_name(c.args[0]) == "LiquidSyntaxError"]
            ok = cond_ok and len(routed) >= 1 and all(e.kind == "end" for e in others)
        if not ok:
            res.add("C13-INTERRUPT", q, "root-handler", f"{q}: an interrupt at a template root must become a syntax error unless the template is an include inside a loop (then re-raise)", f.file, f.line)

    # ---- C13-BOUNDS / C13-NONE / C13-SHAPE -------------------------------------------
    sl = repo.own_method(LE, "_slice")
    res.ob(sl.qual, 4)
    binds: dict[str, list[ast.AST]] = {}
    for st in walk_no_nested(sl.node):
        if isinstance(st, ast.Assign) and isinstance(st.targets[0], ast.Name):
            binds.setdefault(st.targets[0].id, []).append(st.value)

    from .. import symb as _symb

    def clamped(e) -> bool:
        """normal form of  min(max(x, 0), length)  |  length if <c> else min(max(x, 0), length)
        where <c> is an `is None` test (a *missing* limit) — argument order irrelevant"""
        if isinstance(e, ast.IfExp):
            tst = e.test
            is_none = isinstance(tst, ast.Compare) and len(tst.ops) == 1 and isinstance(tst.ops[0], ast.Is) and isinstance(tst.comparators[0], ast.Constant) and tst.comparators[0].value is None
            return is_name(e.body, "length") and is_none and clamped(e.orelse)
        if isinstance(e, ast.Call) and is_name(e.func, "min") and len(e.args) == 2 and any(is_name(a, "length") for a in e.args):
            inner = next(a for a in e.args if not is_name(a, "length")) if not all(is_name(a, "length") for a in e.args) else None
            return isinstance(inner, ast.Call) and is_name(inner.func, "max") and len(inner.args) == 2 and any(isinstance(a, ast.Constant) and a.value == 0 and not isinstance(a.value, bool) for a in inner.args)
        return False

    try:
        _summ = _symb.summarise(sl.node)
    except _symb.Unsupported as e:
        raise AnchorMissing(f"LoopExpression._slice is no longer straight-line code ({e}); re-derive C13-BOUNDS")
    isl = []
    for _c, e in _summ.returns:
        e2 = ast.parse(_symb.norm(e), mode="eval").body
        isl.extend(c for c in ast.walk(e2) if isinstance(c, ast.Call) and callee_name(c) == "islice")
    if not isl or any(len(c.args) != 3 for c in isl) or len({text(c) for c in isl}) != 1:
        res.add("C13-BOUNDS", sl.qual, "islice", "_slice must slice with one islice(it, start, stop)", sl.file, sl.line)
    else:
        for arg, which in ((isl[0].args[1], "start"), (isl[0].args[2], "stop")):
            res.ob(f"islice-{which}")
            if not clamped(arg):
                res.add("C13-BOUNDS", sl.qual, f"{which}-not-clamped", f"the islice {which} bound is not provably within [0, length] (normal form `{text(arg)[:160]}`): a negative value raises ValueError, 0 must mean 'no items', and only a missing limit (`is None`) may mean 'to the end'", sl.file, sl.line)
    # None tests
    watched = {"limit", "offset", "start", "stop", "start_", "stop_"}
    for f in (sl, repo.own_method(LE, "evaluate"), repo.own_method(LE, "evaluate_async")):
        res.ob(f"none-tests:{f.qual}")
        for n in ast.walk(f.node):
            tests = []
            if isinstance(n, (ast.If, ast.IfExp, ast.While)):
                tests = [n.test]
            for tst in tests:
                parts = tst.values if isinstance(tst, ast.BoolOp) else [tst]
                for p in parts:
                    q = p.operand if isinstance(p, ast.UnaryOp) and isinstance(p.op, ast.Not) else p
                    if isinstance(q, ast.Name) and q.id in watched:
                        res.add("C13-NONE", f.qual, f"truthiness:{q.id}", f"{f.qual} tests `{q.id}` for truthiness: 0 is a valid limit/offset", f.file, n.lineno)
            if isinstance(n, ast.BoolOp) and isinstance(n.op, ast.Or) and isinstance(n.values[0], ast.Name) and n.values[0].id in watched:
                fb = n.values[1]
                if not (isinstance(fb, ast.Constant) and fb.value == 0):
                    res.add("C13-NONE", f.qual, f"or-default:{text(n)[:30]}", f"{f.qual}: `{text(n)[:40]}` replaces a zero {n.values[0].id} by `{text(fb)[:20]}`", f.file, n.lineno)
    # The window arithmetic as a symbolic normal form (sa/symb.py): every local is substituted
    # by its definition, `+`/min/max operands are sorted and None-selections folded, so local
    # renames, inlined temporaries and reordered independent statements do not matter — but
    # computing the end from the *clamped* start, or the length from unclamped bounds, does.
    from .. import symb

    res.ob("shape:_slice", 5)
    try:
        summ = symb.summarise(sl.node)
    except symb.Unsupported as e:
        raise AnchorMissing(f"LoopExpression._slice is no longer straight-line code ({e}); re-derive C13-SHAPE")
    KEY = "f'{self.identifier}-{self.iterable}'"
    START = f"(context.stopindex({KEY}) if offset == 'continue' else int(offset or 0))"
    START_ = f"min(max({START}, 0), length)"
    STOP_ = f"(length if limit is None else min(max(limit + {START}, 0), length))"
    LEN = f"max({STOP_} - {START_}, 0)"
    IT = f"islice(it, {START_}, {STOP_})"

    def nf(src: str) -> str:
        return symb.norm(ast.parse(src, mode="eval").body)

    want_returns = {("self.reversed",): nf(f"(reversed(list({IT})), {LEN})"), ("not self.reversed",): nf(f"({IT}, {LEN})")}
    got_returns = {tuple(c): symb.norm(e) for c, e in summ.returns}
    for cond, want in want_returns.items():
        got = got_returns.get(cond)
        if got != want:
            res.add(
                "C13-SHAPE",
                sl.qual,
                f"window:{' and '.join(cond)}",
                "_slice must return islice(it, clamp(start), clamp(start + limit) or length) and length max(stop_ - start_, 0), "
                "with start = the stored stop index for `offset: continue` else int(offset or 0) — the end of the window is computed from the offset "
                f"*as given*; normal form found: {got[:300] if got else sorted(got_returns)}",
                sl.file,
                sl.line,
            )
    if set(got_returns) - set(want_returns):
        res.add("C13-SHAPE", sl.qual, "window:extra-path", f"_slice has an unexpected return path {sorted(set(got_returns) - set(want_returns))}", sl.file, sl.line)
    want_eff = nf(f"context.stopindex(index={STOP_}, key={KEY})")  # keyword arguments are in alphabetical order after loading
    effs = [(c, symb.norm(e)) for c, e in summ.effects if callee_name(e) == "stopindex"]
    if [(c, e) for c, e in effs] != [([], want_eff)]:
        res.add("C13-SHAPE", sl.qual, "store-stop", f"every loop must store its (clamped) stop index under `identifier-iterable` unconditionally; found {[(c, e[:120]) for c, e in effs]}", sl.file, sl.line)
    order = [callee_name(c) for c in calls(sl.node) if callee_name(c) in ("islice", "reversed")]
    if order[:2] != ["islice", "reversed"]:
        res.add("C13-SHAPE", sl.qual, "reverse-after-slice", "`reversed` must be applied to the sliced items", sl.file, sl.line)
    for q in (f"{FOR}.ForNode.render_to_output", f"{FOR}.ForNode.render_to_output_async"):
        f = repo.func(q)
        res.ob(f"else:{q}")
        body = [s for s in f.node.body if not (isinstance(s, ast.Expr) and isinstance(s.value, ast.Constant))]
        # path conditions: the loop runs only where the sliced length is non-zero, the else block
        # is rendered only where it is zero (names taken from `<it>, <length> = ...evaluate*(...)`)
        from ..guards import canon as _canon
        from ..guards import conditions as _conditions

        pr = None
        for st0 in ast.walk(f.node):
            if isinstance(st0, ast.Assign) and isinstance(st0.targets[0], ast.Tuple) and len(st0.targets[0].elts) == 2 and all(isinstance(e, ast.Name) for e in st0.targets[0].elts) and isinstance(unwrap_await(st0.value), ast.Call) and callee_name(unwrap_await(st0.value)) in ("evaluate", "evaluate_async"):
                pr = (st0.targets[0].elts[0].id, st0.targets[0].elts[1].id)
        ok = pr is not None
        if ok:
            L_ = pr[1]
            nonzero = {_canon(ast.parse(x, mode="eval").body) for x in (L_, f"{L_} > 0", f"{L_} != 0", f"{L_} >= 1")}
            zero = {_canon(ast.parse(x, mode="eval").body) for x in (f"not {L_}", f"{L_} == 0", f"{L_} <= 0", f"{L_} < 1")}
            saw_loop = saw_else = False
            for st0, cs in _conditions(f.node):
                cc = {_canon(c) for c in cs}
                if isinstance(st0, (ast.With, ast.AsyncWith)) and any(isinstance(i.context_expr, ast.Call) and callee_name(i.context_expr) == "loop" for i in st0.items):
                    saw_loop = True
                    ok = ok and bool(cc & nonzero)
                if isinstance(st0, ast.Return) and st0.value is not None and "self.default" in text(st0.value):
                    saw_else = True
                    v0 = st0.value
                    # `<render default> if self.default else 0`
                    v0 = unwrap_await(v0)
                    has_else = {"self.default", "self.default is not None"}
                    if isinstance(v0, ast.IfExp):
                        shape = text(v0.test) in has_else and isinstance(v0.orelse, ast.Constant) and v0.orelse.value == 0
                        body0 = v0.body
                    else:
                        # the same conditional as a statement: rendered under `self.default` — and
                        # under nothing else besides the empty-sequence test (an extra conjunct
                        # would leave some empty sequences without their else block)
                        shape = bool(cc & has_else) and not (cc - has_else - zero)
                        body0 = v0
                    ok = ok and shape and bool(cc & zero) and any(isinstance(c0, ast.Call) and callee_name(c0) in ("render", "render_async") and text(call_recv(c0)) == "self.default" for c0 in ast.walk(body0))
            ok = ok and saw_loop and saw_else
        if not ok:
            res.add("C13-SHAPE", q, "else-iff-empty", "ForNode must render the loop when the sliced length is non-zero and its else block otherwise", f.file, f.line)
        # the ForLoop helper (possibly built in an extracted private method: helpers are inlined)
        # receives the sliced iterator and its length — the pair returned by expression.evaluate*
        from ..normalize import normalize

        nnode = normalize(repo, f, aliases=False)
        fl = [c for c in ast.walk(nnode) if isinstance(c, ast.Call) and callee_name(c) == "ForLoop"]
        pair = list(pr) if pr is not None else []
        okf = False
        if len(fl) == 1 and len(pair) == 2:
            kw = {k.arg: text(k.value) for k in fl[0].keywords}
            okf = kw.get("it") == pair[0] and kw.get("length") == pair[1] and kw.get("parentloop") == "context.parentloop()" and "self.expression.iterable" in kw.get("name", "")
        if not okf:
            res.add("C13-SHAPE", q, "forloop", "the forloop helper must be built from the sliced iterator and its length", f.file, f.line)

    # ---- C13-BIND -------------------------------------------------------------------------
    _check_bind(repo, res)

    # ---- C13-HELPERS ----------------------------------------------------------------------
    for cq, table in ((f"{FOR}.ForLoop", FORLOOP_FORMULAS), (f"{TR}.TableRow", TABLEROW_FORMULAS)):
        c = repo.cls(cq)
        for name, want in table.items():
            m = c.methods.get(name)
            res.ob(f"helper:{cq}.{name}")
            rets = [s for s in walk_no_nested(m.node) if isinstance(s, ast.Return)] if m else []
            if m is None or len(rets) != 1 or text(rets[0].value) != want or "property" not in m.decorators():
                res.add("C13-HELPERS", cq, f"{name}:{text(rets[0].value) if rets else None}", f"{c.name}.{name} must be the property `{want}`", c.file, m.line if m else c.node.lineno)
        nx = c.methods.get("__next__")
        res.ob(f"helper:{cq}.__next__")
        if nx is None or [text(s) for s in nx.node.body if not (isinstance(s, ast.Expr) and isinstance(s.value, ast.Constant))] != ["self.step()", "return next(self.it)"]:
            res.add("C13-HELPERS", cq, "__next__", f"{c.name}.__next__ must step and then take the next item", c.file, c.node.lineno)
        keys = c.attrs.get("_keys")
        res.ob(f"helper:{cq}._keys")
        kt = text(keys) if keys is not None else ""
        for name in table:
            if f"'{name}'" not in kt:
                res.add("C13-HELPERS", cq, f"key:{name}", f"{c.name}._keys must expose '{name}'", c.file, c.node.lineno)
    fl = repo.cls(f"{FOR}.ForLoop")
    res.ob("helper:ForLoop.step")
    if text(fl.methods["step"].node.body[-1]) != "self._index += 1" or "self._index = -1" not in text(fl.methods["__init__"].node):
        res.add("C13-HELPERS", fl.qual, "step", "ForLoop must start at index -1 and step by one", fl.file, fl.node.lineno)
    tr = repo.cls(f"{TR}.TableRow")
    res.ob("helper:TableRow.step")
    st = text(tr.methods["step"].node)
    if "self._index += 1" not in st or "if self._col == self.ncols:" not in st or "self._col = 1" not in st or "self._row += 1" not in st or "self._col += 1" not in st:
        res.add("C13-HELPERS", tr.qual, "step", "TableRow.step must advance the index and wrap the column at ncols, incrementing the row", tr.file, tr.node.lineno)
    ti = text(tr.methods["__init__"].node)
    if "self._row = 1" not in ti or "self._col = 0" not in ti or "self._index = -1" not in ti:
        res.add("C13-HELPERS", tr.qual, "init", "TableRow must start at row 1, column 0, index -1", tr.file, tr.node.lineno)
    si = repo.own_method("liquid.context.RenderContext", "stopindex")
    res.ob("shape:stopindex")
    # path conditions (the table may be read into a local first: aliases are propagated when the
    # module is loaded): the index is stored under `index is not None` — 0 is an index — and the
    # stored value, default 0, is returned otherwise
    from ..guards import canon as _canon1
    from ..guards import conditions as _conds1

    p_key, p_idx = (si.params() + ["key", "index"])[1:3]
    stores_ok = reads_ok = False
    for st1, cs1 in _conds1(si.node):
        cc1 = {_canon1(c) for c in cs1}
        if isinstance(st1, ast.Assign) and len(st1.targets) == 1 and isinstance(st1.targets[0], ast.Subscript) and text(st1.targets[0].slice) == p_key and "stopindex" in text(st1.targets[0].value) and is_name(st1.value, p_idx):
            stores_ok = cc1 == {f"{p_idx} is not None"}
        for c1 in ast.walk(st1) if not isinstance(st1, (ast.If, ast.For, ast.While, ast.With, ast.Try)) else []:
            if isinstance(c1, ast.Call) and callee_name(c1) == "get" and "stopindex" in text(call_recv(c1)) and [text(a) for a in c1.args] == [p_key, "0"]:
                reads_ok = cc1 == {f"{p_idx} is None"}
    if not (stores_ok and reads_ok):
        res.add("C13-SHAPE", si.qual, "stopindex", "RenderContext.stopindex must store an index when given one (including 0) and default to 0", si.file, si.line)
    # ---- C13-ITER: what `_to_iter` hands out -----------------------------------------------------------
    # Every exit returns an (iterator, length) pair that agree — `iter(X)` with `len(X)`,
    # `iter(X.items())` with `len(X)`, a list literal with its number of elements — so the
    # loop helpers (length, rindex, last) describe the items actually visited; and an exit whose
    # length is a non-zero constant (a scalar treated as one item) is reached only where the
    # value is known to be non-empty: an empty value has no items, its else block is rendered.
    from ..guards import canon as _canon_it
    from ..guards import conditions as _conds_it

    ti = repo.own_method("liquid.builtin.expressions.loop.LoopExpression", "_to_iter")
    obj_p = [p for p in ti.params() if p != "self"][0]
    n_ret = 0
    for st_it, cs_it in _conds_it(ti.node):
        if not isinstance(st_it, ast.Return) or st_it.value is None:
            continue
        n_ret += 1
        v_it = st_it.value
        pair_ok = False
        const_len = None
        if isinstance(v_it, ast.Tuple) and len(v_it.elts) == 2:
            it_e, ln_e = v_it.elts
            if isinstance(it_e, ast.Call) and is_name(it_e.func, "iter") and len(it_e.args) == 1:
                src = it_e.args[0]
                if isinstance(src, (ast.List, ast.Tuple)) and isinstance(ln_e, ast.Constant) and ln_e.value == len(src.elts):
                    pair_ok = True
                    const_len = len(src.elts)
                elif isinstance(ln_e, ast.Call) and is_name(ln_e.func, "len") and len(ln_e.args) == 1:
                    base = src.func.value if isinstance(src, ast.Call) and isinstance(src.func, ast.Attribute) and src.func.attr in ("items", "keys", "values") and not src.args else src
                    pair_ok = text(base) == text(ln_e.args[0])
        res.ob(f"iter:{ti.qual}:{st_it.lineno}")
        if not pair_ok:
            res.add("C13-ITER", ti.qual, f"pair:{text(v_it)[:40]}", f"{ti.qual} returns `{text(v_it)[:70]}`: the length is not the number of items of the iterator it is returned with (forloop.length / rindex / last and the else decision would describe other items than the ones visited)", ti.file, st_it.lineno)
        elif const_len:
            have = {_canon_it(c) for c in cs_it}
            if not ({obj_p, f"len({obj_p}) > 0", f"len({obj_p}) != 0", f"{obj_p} != ''"} & have):
                res.add("C13-ITER", ti.qual, "scalar-item-of-empty-value", f"{ti.qual} returns {const_len} item(s) (`{text(v_it)[:50]}`) on a path where `{obj_p}` is not known to be non-empty (path conditions: {sorted(have)}): a loop over an empty string visits one phantom item and never renders its else block", ti.file, st_it.lineno)
    if n_ret < 4:
        raise AnchorMissing(f"{ti.qual}: only {n_ret} returns found; re-derive C13-ITER")
    # ---- C13-BLANK: the loop body and the else block are both accounted for in `blank` -------------
    # "the else block is rendered iff the sequence is empty" also inside a container that is
    # otherwise blank: the loop nodes' blank flag must be derived from every block they render
    # (sa/engines/blank.py) — a flag that ignores the else block has blank-block suppression
    # discard the else output of a loop whose body is whitespace.
    from ..engines.blank import check_blank

    nb = check_blank(repo, res, "C13-BLANK", only=lambda c: c.module.name in ("liquid.builtin.tags.for_tag", "liquid.builtin.tags.tablerow_tag"), min_classes=2)
    res.stats["blank_claims_checked"] = nb
    return res


def _check_bind(repo: Repo, res: Result) -> None:
    from ..astutil import bind_args
    from ..normalize import normalize

    n_sites = 0
    for helper_q, node_q in ((f"{FOR}.ForLoop", f"{FOR}.ForNode"), (f"{TR}.TableRow", f"{TR}.TablerowNode")):
        hc = repo.cls(helper_q)
        hinit = hc.methods.get("__init__")
        if hinit is None:
            raise AnchorMissing(f"{helper_q}.__init__ not found")
        params = [p for p in hinit.params() if p != "self"]
        # constructor stores
        for p in ("it", "length") + (("ncols",) if "ncols" in params else ()):
            res.ob(f"bind:store:{helper_q}.{p}")
            if p not in params:
                res.add("C13-BIND", helper_q, f"param:{p}", f"{hc.name}.__init__ has no parameter `{p}`", hc.file, hinit.line)
                continue
            stores = [st for st in walk_no_nested(hinit.node) if isinstance(st, (ast.Assign, ast.AnnAssign)) and attr_chain(st.targets[0] if isinstance(st, ast.Assign) else st.target) == ["self", p]]
            vals = [text(st.value) for st in stores]
            if vals not in ([p], [f"iter({p})"]):
                res.add("C13-BIND", helper_q, f"store:{p}<-{vals}", f"{hc.name}.__init__ must store the parameter `{p}` on self.{p} (found {vals}): the helper formulas read self.{p}", hc.file, hinit.line)
        nc = repo.cls(node_q)
        for mname in ("render_to_output", "render_to_output_async"):
            m = nc.methods.get(mname)
            if m is None:
                raise AnchorMissing(f"{node_q}.{mname} not found")
            nnode = normalize(repo, m, aliases=False)
            # the pair returned by the loop expression
            pair = None
            for st in ast.walk(nnode):
                if isinstance(st, ast.Assign) and isinstance(st.targets[0], ast.Tuple) and len(st.targets[0].elts) == 2 and all(isinstance(e, ast.Name) for e in st.targets[0].elts):
                    v = unwrap_await(st.value)
                    if isinstance(v, ast.Call) and callee_name(v) in ("evaluate", "evaluate_async") and attr_chain(v.func.value) == ["self", "expression"]:
                        pair = (st.targets[0].elts[0].id, st.targets[0].elts[1].id)
            if pair is None:
                raise AnchorMissing(f"{m.qual}: `it, length = self.expression.evaluate*(context)` not found")
            assigns: dict[str, list] = {}
            for st in ast.walk(nnode):
                if isinstance(st, ast.Assign) and len(st.targets) == 1 and isinstance(st.targets[0], ast.Name):
                    assigns.setdefault(st.targets[0].id, []).append(unwrap_await(st.value))
            # the pair's names must not be rebound
            for nm in pair:
                if nm in assigns:
                    res.add("C13-BIND", m.qual, f"rebound:{nm}", f"{m.qual} rebinds `{nm}`, one half of the (iterator, length) pair returned by the loop expression, before building the helper", m.file, m.line)
            def _is_helper_ctor(c) -> bool:
                if callee_name(c) == hc.name:
                    return True
                # `self.<attr>(...)` where the class attribute <attr> defaults to the helper class (a
                # hook for subclasses): the default construction is the helper's
                if isinstance(c.func, ast.Attribute) and is_name(c.func.value, "self"):
                    av = repo.find_attr(nc, c.func.attr)
                    return av is not None and isinstance(av[1], ast.Name) and av[1].id == hc.name
                return False

            ctor = [c for c in ast.walk(nnode) if isinstance(c, ast.Call) and _is_helper_ctor(c)]
            if len(ctor) != 1:
                raise AnchorMissing(f"{m.qual}: expected exactly one {hc.name}(...) construction, found {len(ctor)}")
            n_sites += 1
            b = bind_args(ctor[0], hinit.node)
            res.ob(f"bind:{m.qual}", 3)
            if b is None:
                res.add("C13-BIND", m.qual, "unbindable", f"{m.qual}: the arguments of {hc.name}(...) cannot be bound statically", m.file, ctor[0].lineno)
                continue
            if not is_name(b.get("it"), pair[0]):
                res.add("C13-BIND", m.qual, f"it<-{text(b.get('it')) if b.get('it') is not None else None}", f"{m.qual}: {hc.name}'s `it` must be the sliced iterator `{pair[0]}` returned by the loop expression", m.file, ctor[0].lineno)
            if not is_name(b.get("length"), pair[1]):
                res.add("C13-BIND", m.qual, f"length<-{text(b.get('length')) if b.get('length') is not None else None}", f"{m.qual}: {hc.name}'s `length` must be the sliced length `{pair[1]}` returned by the loop expression (rindex, last and length are computed from it)", m.file, ctor[0].lineno)
            if "ncols" in params:
                v = b.get("ncols")
                srcs = assigns.get(v.id, []) if isinstance(v, ast.Name) else ([v] if v is not None else [])
                ok = bool(srcs) and not is_name(v, pair[1]) or (isinstance(v, ast.IfExp))
                if isinstance(v, ast.IfExp):
                    srcs = [v.body, v.orelse]
                    ok = True
                for sv in srcs:
                    if is_name(sv, pair[1]):
                        continue  # no cols argument: one row as long as the loop
                    if "self.expression.cols" in text(sv):
                        continue
                    ok = False
                if not ok or not any("self.expression.cols" in text(sv) for sv in srcs):
                    res.add("C13-BIND", m.qual, f"ncols<-{text(v) if v is not None else None}", f"{m.qual}: {hc.name}'s `ncols` must be the value of the cols argument (self.expression.cols), or the length when there is none — found `{text(v) if v is not None else None}` <- {[text(x)[:40] for x in srcs]}", m.file, ctor[0].lineno)
    if n_sites < 4:
        raise AnchorMissing(f"only {n_sites} helper constructions found (4 confirmed by hand)")


def selftest(repo: Repo):
    from ..selftest import Variant, text_edit

    def v(name, rel, old, new, expect, count=1):
        return lambda: Variant(name, text_edit(repo, rel, old, new, count), expect)

    L = "liquid/builtin/expressions/loop.py"
    F = "liquid/builtin/tags/for_tag.py"
    T = "liquid/builtin/tags/tablerow_tag.py"
    return [
        lambda: Variant("tablerow-args-swapped-async-only", {T: "        tablerow = TableRow(name, loop_iter, cols, length)".join(next(m for m in repo.modules.values() if m.relpath == T).source.rsplit("        tablerow = TableRow(name, loop_iter, length, cols)", 1))}, "C13-BIND"),
        v("tablerow-ncols-is-length", T, "        tablerow = TableRow(name, loop_iter, length, cols)", "        tablerow = TableRow(name, loop_iter, length, length)", "C13-BIND", count=2),
        v("tablerow-helper-stores-swapped", T, "        self.length = length\n        self.ncols = ncols", "        self.length = ncols\n        self.ncols = length", "C13-BIND"),
        v("forloop-length-from-unsliced", F, "                length=length,\n", "                length=len(list(it)),\n", "C13-", count=2),
        lambda: Variant("tablerow-keyword-construction-is-silent", text_edit(repo, T, "        tablerow = TableRow(name, loop_iter, length, cols)", "        tablerow = TableRow(name=name, it=loop_iter, ncols=cols, length=length)", 2), "C13-", silent=True),
        v("stop-from-clamped-start", L, "        stop = None if limit is None else limit + start\n\n        start_ = min(max(start, 0), length)\n", "        start_ = min(max(start, 0), length)\n        stop = None if limit is None else limit + start_\n", "C13-SHAPE"),
        v("length-from-raw-bounds", L, "        length_ = max(stop_ - start_, 0)", "        length_ = max(stop_ - start, 0)", "C13-SHAPE"),
        lambda: Variant("equivalent-rewrite-is-silent", text_edit(repo, L, "        stop = None if limit is None else limit + start\n\n        start_ = min(max(start, 0), length)\n        stop_ = length if stop is None else min(max(stop, 0), length)\n        length_ = max(stop_ - start_, 0)\n\n        context.stopindex(key=offset_key, index=stop_)\n        it = islice(it, start_, stop_)\n", "        lo = min(length, max(0, start))\n        hi = length if limit is None else min(max(start + limit, 0), length)\n        length_ = max(hi - lo, 0)\n\n        context.stopindex(key=offset_key, index=hi)\n        it = islice(it, lo, hi)\n", 1), "C13-", silent=True),
        v("stop-or-length", L, "        stop_ = length if stop is None else min(max(stop, 0), length)", "        stop_ = min(stop or length, length)", "C13-"),
        v("start-unclamped", L, "        start_ = min(max(start, 0), length)", "        start_ = min(start, length)", "C13-BOUNDS"),
        v("limit-truthiness", L, "        stop = None if limit is None else limit + start", "        stop = limit + start if limit else None", "C13-"),
        v("length-not-clamped", L, "        length_ = max(stop_ - start_, 0)", "        length_ = stop_ - start_", "C13-SHAPE"),
        v("reverse-before-slice", L, "        it = islice(it, start_, stop_)\n\n        if self.reversed:\n            return reversed(list(it)), length_", "        if self.reversed:\n            it = reversed(list(it))\n        it = islice(it, start_, stop_)\n\n        if self.reversed:\n            return it, length_", "C13-SHAPE"),
        v("for-break-continues", F, "                    except BreakLoop:\n                        break", "                    except BreakLoop:\n                        continue", "C13-INTERRUPT", count=2),
        v("if-swallows-break", "liquid/builtin/tags/if_tag.py", "        if self.condition.evaluate(context):\n            return self.consequence.render(context, buffer)", "        if self.condition.evaluate(context):\n            try:\n                return self.consequence.render(context, buffer)\n            except BreakLoop:\n                return 0", "C13-INTERRUPT"),
        v("capture-raises-break", "liquid/builtin/tags/capture_tag.py", "        self._assign(context, buf)\n        return False\n\n    async def", "        self._assign(context, buf)\n        if not buf.getvalue():\n            raise BreakLoop('break')\n        return False\n\n    async def", "C13-INTERRUPT"),
        v("rindex-off-by-one", F, "        return self.length - self._index\n", "        return self.length - self._index - 1\n", "C13-HELPERS"),
        v("last-wrong", T, "        return self._index == self.length - 1", "        return self._index == self.length", "C13-HELPERS"),
        v("col-wrap", T, "        if self._col == self.ncols:", "        if self._col > self.ncols:", "C13-HELPERS"),
        v("else-on-truthy", F, "        return self.default.render(context, buffer) if self.default else 0", "        return self.default.render(context, buffer) if self.default and not it else 0", "C13-SHAPE"),
        v("continue-key-drops-iterable", L, '        offset_key = f"{self.identifier}-{self.iterable}"', '        offset_key = f"{self.identifier}"', "C13-SHAPE"),
        v("stopindex-ignores-zero", "liquid/context.py", "        if index is not None:\n            self.tag_namespace[\"stopindex\"][key] = index", "        if index:\n            self.tag_namespace[\"stopindex\"][key] = index", "C13-SHAPE"),
    ]
