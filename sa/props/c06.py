"""C06 — the loop iteration limit bounds nested iteration.

Full structural decision of the property's second sentence ("every construct that repeats a
block contributes its length to the product"):
  C06-REPEAT  in every node's ``render_to_output*`` each *data-driven repetition* — a ``for``
              statement (or comprehension) over a value that is not a field of the parsed
              template, whose body renders a child block / partial template — is lexically
              inside ``with <ctx>.loop(ns, forloop)`` or ``with <ctx>.iterations(N)``: both check
              the limit first and export the length to every nested check.  Repetitions over
              ``self.<field>`` (the template's own nodes) are source-bounded and exempt;
              ``MultiExpressionBlockNode`` (once per matching ``when`` alternative) is a
              reviewed source-bounded row.
  C06-LENGTH  the length handed to ``loop`` / ``iterations`` is the length of the very value
              being iterated (same variable, or the ``(iterator, length)`` pair returned by one
              ``LoopExpression.evaluate*`` call).
  C06-RECEIVER the context manager is entered on the very context object the body renders with
              (the same name, the ``as`` target, or a ``copy(carry_loop_iterations=True)`` of it made
              inside the block) — exporting the length on the parent of an already-copied context
              leaves nested checks without the factor.
  C06-CM      ``RenderContext.loop`` calls ``raise_for_loop_limit(forloop.length)`` before pushing
              the loop and pops it in ``finally``; ``RenderContext.iterations`` calls
              ``raise_for_loop_limit(length)`` before multiplying ``loop_iteration_carry`` by
              ``length`` and restores it in ``finally``.
  C06-LIMIT   ``raise_for_loop_limit`` multiplies the lengths of all loops on the stack, the new
              length and the carry, compares with ``>`` against the limit and raises
              ``LoopIterationLimitError``.
  C06-COPY    ``RenderContext.copy(carry_loop_iterations=True)`` computes the child's carry as the
              product of the loop-stack lengths and the parent's carry and passes it to every
              context it constructs; ``render``, ``call`` and ``block`` request it.
"""

from __future__ import annotations

import ast

from ..astutil import call_recv, attr_chain, bind_args, callee_name, calls, is_name, is_self_attr, names_in, text, unwrap_await
from ..core import Result
from ..model import AnchorMissing, Repo, walk_no_nested

PID = "C06"
MIN_OBLIGATIONS = 30
CTX = "liquid.context.RenderContext"
RENDER_CALLS = {"render", "render_async", "render_with_context", "render_with_context_async"}
REVIEWED_SOURCE_BOUNDED = {
    "liquid.builtin.tags.case_tag.MultiExpressionBlockNode": "repeats its block once per matching `when` alternative — bounded by the number of alternatives written in the template, not by data",
}


def _parents(fn):
    pm = {}
    for n in ast.walk(fn):
        for c in ast.iter_child_nodes(n):
            pm[id(c)] = n
    return pm


def _carry_values(fn: ast.AST):
    """(value when carry_loop_iterations is true, value otherwise) of the expression passed as
    ``loop_iteration_carry=`` to the context constructor in ``copy``."""
    ctor = next((c for c in ast.walk(fn) if isinstance(c, ast.Call) and text(c.func) in ("self.__class__", "RenderContext", "type(self)")), None)
    if ctor is None:
        raise ValueError("no constructor call")
    arg = next((k.value for k in ctor.keywords if k.arg == "loop_iteration_carry"), None)
    if arg is None:
        raise ValueError("constructor not given loop_iteration_carry")
    if isinstance(arg, ast.IfExp) and is_name(arg.test, "carry_loop_iterations"):
        return arg.body, arg.orelse
    if not isinstance(arg, ast.Name):
        raise ValueError(f"loop_iteration_carry={text(arg)[:40]}")
    on = off = None
    for st in fn.body:
        if isinstance(st, ast.If) and is_name(st.test, "carry_loop_iterations"):
            for part, which in ((st.body, "on"), (st.orelse, "off")):
                for s_ in part:
                    if isinstance(s_, ast.Assign) and is_name(s_.targets[0], arg.id):
                        if which == "on":
                            on = s_.value
                        else:
                            off = s_.value
        elif isinstance(st, (ast.Assign, ast.AnnAssign)):
            tgt = st.targets[0] if isinstance(st, ast.Assign) else st.target
            if is_name(tgt, arg.id) and st.value is not None:
                v = st.value
                if isinstance(v, ast.IfExp) and is_name(v.test, "carry_loop_iterations"):
                    on, off = v.body, v.orelse
                else:
                    # a default assigned before `if carry_loop_iterations:` overrides it
                    off = v
    return on, off


def bind_ctx_arg(call: ast.Call):
    """the context argument of a ``render*(context, buffer, ...)`` call (positional or keyword)."""
    for k in call.keywords:
        if k.arg in ("context", "ctx"):
            return k.value
    if call.args:
        return call.args[0]
    return None


def run(repo: Repo) -> Result:
    res = Result(PID)
    res.rules = ["C06-REPEAT", "C06-LENGTH", "C06-RECEIVER", "C06-CM", "C06-LIMIT", "C06-COPY"]
    res.explanation = "every data-driven repetition of a block in any render method is enclosed by a context manager that checks the limit and exports its length; shape of the limit arithmetic and of the carry into copied contexts"
    res.assumptions = ["iteration over fields of the parsed template is bounded by the source, not by data"]

    n_rep = 0
    nodes = repo.subclasses("liquid.ast.Node")
    for c in nodes:
        for m in ("render_to_output", "render_to_output_async"):
            f = c.methods.get(m)
            if f is None:
                continue
            pm = _parents(f.node)
            for loop in ast.walk(f.node):
                iters = []
                if isinstance(loop, (ast.For, ast.AsyncFor)):
                    iters = [(loop.iter, loop)]
                elif isinstance(loop, (ast.ListComp, ast.GeneratorExp, ast.SetComp)):
                    iters = [(g.iter, loop) for g in loop.generators]
                for it, node in iters:
                    body_calls = [x for x in ast.walk(node) if isinstance(x, ast.Call) and callee_name(x) in RENDER_CALLS]
                    if not body_calls:
                        continue
                    it_ = unwrap_await(it)
                    root = attr_chain(it_)
                    source_bounded = bool(root and root[0] == "self")
                    construct = f"{f.qual}:for {text(it_)[:30]}"
                    res.ob(construct)
                    if source_bounded:
                        continue
                    n_rep += 1
                    if c.qual in REVIEWED_SOURCE_BOUNDED:
                        continue
                    # enclosing with-items
                    guards = []
                    cur = node
                    while id(cur) in pm:
                        cur = pm[id(cur)]
                        if isinstance(cur, (ast.With, ast.AsyncWith)):
                            for item in cur.items:
                                ce = item.context_expr
                                if isinstance(ce, ast.Call) and callee_name(ce) in ("loop", "iterations"):
                                    guards.append(ce)
                    if not guards:
                        res.add(
                            "C06-REPEAT",
                            f.qual,
                            f"unguarded:{text(it_)[:30]}",
                            f"{f.qual} renders a block once per item of `{text(it_)[:40]}` outside `with context.loop(...)` / `with context.iterations(n)`: its length does not multiply into the limit of loops nested inside it",
                            f.file,
                            node.lineno,
                        )
                        continue
                    # C06-LENGTH
                    g = guards[0]
                    res.ob(construct + ":length")
                    itnames = set(names_in(it_))
                    # the iterated name may wrap the data value: forloop = ForLoop(it=iter(val), ...)
                    for st in ast.walk(f.node):
                        if isinstance(st, ast.Assign) and isinstance(st.targets[0], ast.Name) and st.targets[0].id in itnames and isinstance(st.value, ast.Call):
                            itnames |= names_in(st.value)
                    itnames -= {"len", "iter", "list", "tuple", "context", "self", "ctx", "key", "name"}
                    ok = False
                    if callee_name(g) == "iterations" and g.args:
                        n_arg = g.args[0]
                        if isinstance(n_arg, ast.Call) and is_name(n_arg.func, "len") and len(n_arg.args) == 1 and names_in(n_arg.args[0]) & itnames:
                            ok = True
                        elif isinstance(n_arg, ast.Name):
                            ok = _same_origin(f.node, n_arg.id, itnames)
                            # ... or a local bound only from len(<the iterated value>): `length = len(val)`
                            lb = [st.value for st in ast.walk(f.node) if isinstance(st, ast.Assign) and len(st.targets) == 1 and is_name(st.targets[0], n_arg.id)]
                            if not ok and lb and all(isinstance(v, ast.Call) and is_name(v.func, "len") and len(v.args) == 1 and names_in(v.args[0]) & itnames for v in lb):
                                ok = True
                    elif callee_name(g) == "loop" and len(g.args) >= 2 and isinstance(g.args[1], ast.Name):
                        # forloop = ForLoop(it=it, length=length, ...) and `for itm in forloop`
                        fl = g.args[1].id
                        if fl in itnames or _forloop_pairs(f.node, fl):
                            ok = True
                    if not ok:
                        res.add("C06-LENGTH", f.qual, f"length:{text(g)[:40]}", f"{f.qual}: `{text(g)[:60]}` does not take the length of the value the loop iterates (`{text(it_)[:30]}`)", f.file, g.lineno)
                    # C06-RECEIVER: the length must be exported on the very context the body renders
                    # with — exporting it on the parent after the child context was copied (or on
                    # any other context) leaves the nested checks without this factor.
                    res.ob(construct + ":receiver")
                    recv = call_recv(g) if isinstance(g.func, ast.Attribute) else None
                    recv_name = recv.id if isinstance(recv, ast.Name) else None
                    with_node = None
                    cur = node
                    while id(cur) in pm:
                        cur = pm[id(cur)]
                        if isinstance(cur, (ast.With, ast.AsyncWith)) and any(item.context_expr is g for item in cur.items):
                            with_node = cur
                            break
                    as_names = set()
                    if with_node is not None:
                        for item in with_node.items:
                            if item.context_expr is g and isinstance(item.optional_vars, ast.Name):
                                as_names.add(item.optional_vars.id)
                    for bc in body_calls:
                        b = bind_ctx_arg(bc)
                        if b is None:
                            res.add("C06-RECEIVER", f.qual, f"receiver:{text(bc)[:40]}", f"{f.qual}: cannot tell which context `{text(bc)[:60]}` renders with", f.file, bc.lineno)
                            continue
                        ok_r = False
                        if isinstance(b, ast.Name):
                            if b.id == recv_name or b.id in as_names:
                                ok_r = True
                            elif with_node is not None:
                                # a context copied from the receiver *inside* the with (after the export)
                                for st in ast.walk(with_node):
                                    if isinstance(st, ast.Assign) and len(st.targets) == 1 and is_name(st.targets[0], b.id) and isinstance(st.value, ast.Call) and callee_name(st.value) == "copy" and isinstance(st.value.func, ast.Attribute) and is_name(call_recv(st.value), recv_name or "") and any(k.arg == "carry_loop_iterations" and isinstance(k.value, ast.Constant) and k.value.value is True for k in st.value.keywords):
                                        ok_r = True
                        if not ok_r:
                            res.add(
                                "C06-RECEIVER",
                                f.qual,
                                f"receiver:{text(g.func)[:30]}!={text(b)[:20]}",
                                f"{f.qual}: the repetition's length is exported with `{text(g)[:50]}` but its body renders with context `{text(b)[:20]}` — a different context object, so loops nested in the body are checked without this factor",
                                f.file,
                                g.lineno,
                            )
                    res.sample({"rule": "C06-REPEAT", "site": f.qual, "iterates": text(it_)[:40], "guard": text(g)[:60]})
    if n_rep < 8:
        raise AnchorMissing(f"only {n_rep} data-driven repetitions found (for, tablerow, include, render expected, sync+async)")

    # any call of raise_for_loop_limit outside the two context managers is suspicious: a tag that
    # only checks (and does not export) is exactly the defect
    for f in repo.all_functions():
        for c in calls(f.node, nested=True):
            if callee_name(c) == "raise_for_loop_limit" and f.qual not in (f"{CTX}.loop", f"{CTX}.iterations"):
                res.ob(f"check-only:{f.qual}")
                res.add("C06-REPEAT", f.qual, "check-without-export", f"{f.qual} calls raise_for_loop_limit directly: the length is checked but not exported to nested checks (use context.loop / context.iterations)", f.file, c.lineno)

    # ---- C06-CM ----------------------------------------------------------------
    # (all shape rules below look at the function after private helpers are inlined and local
    #  aliases of attribute chains are propagated — sa/normalize.py — and read guards through
    #  their path conditions — sa/guards.py — so that an extracted helper, a limit read into a
    #  local, an early return or an extra keyword argument does not change the verdict)
    from ..guards import canon, exits, raises_of
    from ..normalize import nfunc
    from .. import symb

    def body_of(fn):
        return [s for s in fn.body if not (isinstance(s, ast.Expr) and isinstance(s.value, ast.Constant))]

    def is_limit_call(st, arg_text: str) -> bool:
        return isinstance(st, ast.Expr) and isinstance(st.value, ast.Call) and callee_name(st.value) == "raise_for_loop_limit" and is_self_attr(st.value.func) and st.value.args and text(st.value.args[0]) == arg_text

    lp = nfunc(repo, repo.own_method(CTX, "loop"), keep=("raise_for_loop_limit",))
    res.ob(lp.qual, 3)
    body = body_of(lp.node)
    if not body or not is_limit_call(body[0], "forloop.length"):
        res.add("C06-CM", lp.qual, "check-first", "RenderContext.loop must call self.raise_for_loop_limit(forloop.length) before anything else", lp.file, lp.line)
    if len(body) < 2 or text(body[1]) != "self.loops.append(forloop)":
        res.add("C06-CM", lp.qual, "push", "RenderContext.loop must push the loop right after the check", lp.file, lp.line)
    if not any(isinstance(n, ast.Try) and n.finalbody and "self.loops.pop()" in text(n.finalbody[0]) for n in ast.walk(lp.node)):
        res.add("C06-CM", lp.qual, "pop-finally", "RenderContext.loop must pop the loop in a finally block", lp.file, lp.line)
    itr0 = repo.cls(CTX).methods.get("iterations")
    res.ob(f"{CTX}.iterations", 4)
    if itr0 is None:
        res.add("C06-CM", CTX, "iterations-missing", "RenderContext.iterations (limit check + carry for tags that repeat a block without a ForLoop) not found", "liquid/context.py", 0)
    else:
        itr = nfunc(repo, itr0, keep=("raise_for_loop_limit",), aliases=False)
        body = body_of(itr.node)
        if "contextmanager" not in itr.decorators():
            res.add("C06-CM", itr.qual, "contextmanager", "iterations must be a @contextmanager", itr.file, itr.line)
        if not body or not is_limit_call(body[0], "length"):
            res.add("C06-CM", itr.qual, "check-first", "iterations must call self.raise_for_loop_limit(length) first", itr.file, itr.line)
        saved = [s for s in body if isinstance(s, ast.Assign) and text(s.value) == "self.loop_iteration_carry" and isinstance(s.targets[0], ast.Name)]
        mult = [s for s in body if isinstance(s, ast.Assign) and attr_chain(s.targets[0]) == ["self", "loop_iteration_carry"]]
        if not saved or not mult or text(mult[0].value) not in (f"{saved[0].targets[0].id} * length", f"length * {saved[0].targets[0].id}", "self.loop_iteration_carry * length", "length * self.loop_iteration_carry"):
            res.add("C06-CM", itr.qual, "multiply", "iterations must multiply loop_iteration_carry by length for the duration of the block", itr.file, itr.line)
        fin = [n for n in ast.walk(itr.node) if isinstance(n, ast.Try) and n.finalbody]
        if not fin or not saved or text(fin[0].finalbody[0]) != f"self.loop_iteration_carry = {saved[0].targets[0].id}":
            res.add("C06-CM", itr.qual, "restore-finally", "iterations must restore the previous carry in a finally block", itr.file, itr.line)

    # ---- C06-LIMIT ----------------------------------------------------------------
    # the only raise is LoopIterationLimitError, reached under exactly
    #   {limit is not None,  product(loop lengths on the stack, length, carry) > limit}
    rl = nfunc(repo, repo.own_method(CTX, "raise_for_loop_limit"))
    res.ob(rl.qual, 3)
    LIMIT = "self.env.loop_iteration_limit"
    want_product = {
        symb.norm(ast.parse("reduce(mul, (loop.length for loop in self.loops), length * self.loop_iteration_carry)", mode="eval").body),
    }
    rs = [e for e in exits(rl.node) if e.kind == "raise"]
    ok = len(rs) == 1 and rs[0].raised() == "LoopIterationLimitError"
    detail = ""
    if ok:
        cs = rs[0].canon
        cmp_ = [c for c in rs[0].conds if isinstance(c, ast.Compare) and len(c.ops) == 1 and isinstance(c.ops[0], (ast.Gt, ast.Lt))]
        others = [canon(c) for c in rs[0].conds if c not in cmp_]
        if len(cmp_) != 1:
            ok, detail = False, f"conditions {cs}"
        else:
            c = cmp_[0]
            big, small = (c.left, c.comparators[0]) if isinstance(c.ops[0], ast.Gt) else (c.comparators[0], c.left)
            if text(small) != LIMIT or symb.norm(big) not in want_product:
                ok, detail = False, f"compares `{text(big)[:80]}` > `{text(small)}`"
            extra = [o for o in others if o != f"{LIMIT} is not None"]
            if extra:
                ok, detail = False, f"extra condition(s) {extra} weaken the guard"
    if not ok:
        res.add("C06-LIMIT", rl.qual, "product", f"raise_for_loop_limit must raise LoopIterationLimitError iff reduce(mul, (loop.length for loop in self.loops), length * self.loop_iteration_carry) > limit ({detail or 'no single LoopIterationLimitError raise found'})", rl.file, rl.line)

    # ---- C06-COPY ------------------------------------------------------------------
    cp = nfunc(repo, repo.own_method(CTX, "copy"), aliases=False)
    res.ob(cp.qual, 3)
    want_carry = symb.norm(ast.parse("reduce(mul, (loop.length for loop in self.loops), self.loop_iteration_carry)", mode="eval").body)
    try:
        # the value of the local handed to the constructor, as a function of carry_loop_iterations
        vals = _carry_values(cp.node)
    except Exception as err:  # noqa: BLE001
        vals = None
        res.add("C06-COPY", cp.qual, "carry", f"copy: cannot determine the carried product ({err})", cp.file, cp.line)
    if vals is not None:
        on, off = vals
        if on is None or symb.norm(on) != want_carry or off is None or text(off) != "1":
            res.add("C06-COPY", cp.qual, "carry", f"copy(carry_loop_iterations=True) must compute reduce(mul, (loop.length for loop in self.loops), self.loop_iteration_carry) and 1 otherwise (found `{text(on)[:80] if on is not None else None}` / `{text(off) if off is not None else None}`)", cp.file, cp.line)
    ctors = [c for c in calls(cp.node) if text(c.func) in ("self.__class__", "RenderContext")]
    # (the value analysed above is the one the first constructor call receives: every other
    #  constructor call must be handed that same local / expression)
    first_kw = next((text(k.value) for c in ctors for k in c.keywords if k.arg == "loop_iteration_carry"), None)
    for c in ctors:
        res.ob(f"{cp.qual}:ctor")
        kw = {k.arg: text(k.value) for k in c.keywords}
        if kw.get("loop_iteration_carry") is None or kw.get("loop_iteration_carry") != first_kw:
            res.add("C06-COPY", cp.qual, "ctor-carry", "every context built by copy must receive loop_iteration_carry=loop_iteration_carry", cp.file, c.lineno)
    init = repo.own_method(CTX, "__init__")
    res.ob(init.qual)
    if "self.loop_iteration_carry = loop_iteration_carry" not in text(init.node):
        res.add("C06-COPY", init.qual, "store", "RenderContext.__init__ must store loop_iteration_carry", init.file, init.line)
    for fq in (
        "liquid.builtin.tags.render_tag.RenderNode.render_to_output",
        "liquid.builtin.tags.render_tag.RenderNode.render_to_output_async",
        "liquid.extra.tags.macro_tag.CallNode.render_to_output",
        "liquid.extra.tags.macro_tag.CallNode.render_to_output_async",
        "liquid.extra.tags.extends_tag.BlockNode.render_to_output",
        "liquid.extra.tags.extends_tag.BlockNode.render_to_output_async",
    ):
        f = repo.func(fq)
        for c in calls(f.node):
            if callee_name(c) == "copy" and is_name(call_recv(c), "context"):
                res.ob(f"{fq}:copy")
                b = bind_args(c, cp.node)
                v = b.get("carry_loop_iterations") if b else None
                if not (isinstance(v, ast.Constant) and v.value is True):
                    res.add("C06-COPY", fq, "carry_loop_iterations", f"{fq}: the copied context must carry the caller's loop iterations (carry_loop_iterations=True)", f.file, c.lineno)
    res.stats.update(data_driven_repetitions=n_rep)
    return res


def _same_origin(fn, length_name: str, iter_names: set[str]) -> bool:
    """`a, length = X.evaluate(...)` binds the iterator and its length together; the iterator may
    then be wrapped (TableRow(name, a, length, cols))."""
    for st in ast.walk(fn):
        if isinstance(st, ast.Assign) and isinstance(st.targets[0], ast.Tuple):
            names = [t.id for t in st.targets[0].elts if isinstance(t, ast.Name)]
            if length_name in names:
                others = set(names) - {length_name}
                if others & iter_names:
                    return True
                # wrapped: x = Wrapper(..., other, length, ...)
                for st2 in ast.walk(fn):
                    if isinstance(st2, ast.Assign) and isinstance(st2.targets[0], ast.Name) and st2.targets[0].id in iter_names and isinstance(st2.value, ast.Call):
                        argn = names_in(st2.value)
                        if others & argn and length_name in argn:
                            return True
    return False


def _forloop_pairs(fn, forloop_name: str) -> bool:
    """forloop = ForLoop(it=<it>, length=<length>) where (it, length) come from one evaluate()."""
    for st in ast.walk(fn):
        if isinstance(st, ast.Assign) and is_name(st.targets[0], forloop_name) and isinstance(st.value, ast.Call) and callee_name(st.value) == "ForLoop":
            kw = {k.arg: k.value for k in st.value.keywords}
            it, ln = kw.get("it"), kw.get("length")
            if isinstance(it, ast.Name) and isinstance(ln, ast.Name):
                return _same_origin(fn, ln.id, {it.id})
            if it is not None and ln is not None and isinstance(ln, ast.Call) and is_name(ln.func, "len") and names_in(ln) & names_in(it):
                return True
    return False


def selftest(repo: Repo):
    from ..selftest import Variant, text_edit

    def v(name, rel, old, new, expect, count=1):
        return lambda: Variant(name, text_edit(repo, rel, old, new, count), expect)

    C = "liquid/context.py"
    T = "liquid/builtin/tags/"
    return [
        v("tablerow-check-only", T + "tablerow_tag.py", "        with context.iterations(length), context.extend(namespace):", "        context.raise_for_loop_limit(length)\n        with context.extend(namespace):", "C06-REPEAT", count=2),
        v("include-unguarded", T + "include_tag.py", "                    with context.iterations(len(val)):\n                        for itm in val:\n                            namespace[key] = itm\n                            template.render_with_context(\n                                context, buffer, partial=True\n                            )", "                    if True:\n                        for itm in val:\n                            namespace[key] = itm\n                            template.render_with_context(\n                                context, buffer, partial=True\n                            )", "C06-REPEAT"),
        v("render-wrong-length", T + "render_tag.py", "                with ctx.iterations(len(val)):\n                    for itm in forloop:\n                        args[key] = itm\n                        template.render_with_context(", "                with ctx.iterations(len(args)):\n                    for itm in forloop:\n                        args[key] = itm\n                        template.render_with_context(", "C06-LENGTH"),
        v("for-uses-extend", T + "for_tag.py", "            with context.loop(namespace, forloop):", "            with context.extend(namespace):", "C06-REPEAT", count=2),
        v("loop-no-check", C, "        self.raise_for_loop_limit(forloop.length)\n        self.loops.append(forloop)", "        self.loops.append(forloop)", "C06-CM"),
        v("iterations-no-carry", C, "        self.loop_iteration_carry = carry * length\n", "        self.loop_iteration_carry = carry\n", "C06-CM"),
        v("limit-ignores-carry", C, "                length * self.loop_iteration_carry,", "                length,", "C06-LIMIT"),
        v("limit-ge", C, "            > self.env.loop_iteration_limit\n", "            >= self.env.loop_iteration_limit\n", "C06-LIMIT"),
        v("copy-drops-loops", C, "            loop_iteration_carry = reduce(\n                mul,\n                (loop.length for loop in self.loops),\n                self.loop_iteration_carry,\n            )", "            loop_iteration_carry = self.loop_iteration_carry", "C06-COPY"),
        v("render-no-carry", T + "render_tag.py", "            carry_loop_iterations=True,\n            template=template,", "            carry_loop_iterations=False,\n            template=template,", "C06-COPY", count=2),
        v("call-no-carry", "liquid/extra/tags/macro_tag.py", "            carry_loop_iterations=True,\n        )\n\n        return macro.block.render(macro_context, buffer)", "        )\n\n        return macro.block.render(macro_context, buffer)", "C06-COPY"),
        v("new-repeating-tag", T + "capture_tag.py", "        buf = context.get_buffer(buffer)\n        self.block.render(context, buf)\n", "        buf = context.get_buffer(buffer)\n        for _ in context.resolve('times', default=[1]):\n            self.block.render(context, buf)\n", "C06-REPEAT"),
    ]
