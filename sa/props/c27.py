"""C27 — macro calls and with blocks bind arguments as documented (clauses).

  C27-WITH   ``WithNode.render_to_output*`` evaluates every keyword argument on the *outer*
             context (before the namespace is pushed), builds the namespace from exactly
             ``{a.name: a.value.evaluate*(context) for a in self.args}``, and renders its block
             only inside ``with context.extend(<that namespace>)`` — names are visible only in
             the block and shadow outer names (extend prepends and pops in ``finally``: C14).
  C27-CALL   ``CallNode.render_to_output*``: the macro namespace has ``args`` = the evaluated
             surplus positional arguments (in order) and ``kwargs`` = the evaluated surplus
             keyword arguments; every declared parameter is bound to its evaluated argument
             or, when nothing was supplied and there is no default, to ``env.undefined(name)``.
  C27-BIND   ``CallNode.macro_args``: parameters start from their defaults
             (``param.value``); positional arguments are paired with ``macro.args`` in
             declaration order (``zip_longest(macro.args, self.args)``), surplus positionals go
             to ``excess_args``; keyword arguments are applied afterwards — by name when the
             macro declares that name, else into ``excess_kwargs``.
Not decided: the resulting values for particular calls (value level).
"""

from __future__ import annotations

import ast

from ..astutil import is_self_attr, call_recv, attr_chain, callee_name, calls, is_name, text, unwrap_await
from ..core import Result
from ..model import AnchorMissing, Repo, walk_no_nested

PID = "C27"
MIN_OBLIGATIONS = 10
WITH = "liquid.extra.tags._with.WithNode"
CALL = "liquid.extra.tags.macro_tag.CallNode"


def _is_args_comp(e, ev) -> bool:
    """{a.name: a.value.<ev>(context) for a in self.args}"""
    if not isinstance(e, ast.DictComp) or len(e.generators) != 1:
        return False
    g = e.generators[0]
    if g.ifs or attr_chain(g.iter) != ["self", "args"] or not isinstance(g.target, ast.Name):
        return False
    a = g.target.id
    v = unwrap_await(e.value)
    return (
        attr_chain(e.key) == [a, "name"]
        and isinstance(v, ast.Call)
        and attr_chain(v.func) == [a, "value", ev]
        and len(v.args) == 1
        and is_name(v.args[0], "context")
    )


def _pair_evaluate_ok(repo: Repo, ev: str) -> bool:
    """KeywordArgument.<ev> returns the pair (self.name, self.value.<ev>(context))"""
    try:
        f = repo.own_method("liquid.builtin.expressions.arguments.KeywordArgument", ev)
    except Exception:  # noqa: BLE001
        return False
    rets = [r.value for r in ast.walk(f.node) if isinstance(r, ast.Return) and r.value is not None]
    if len(rets) != 1 or not (isinstance(rets[0], ast.Tuple) and len(rets[0].elts) == 2):
        return False
    k, v = rets[0].elts
    v = unwrap_await(v)
    return attr_chain(k) == ["self", "name"] and isinstance(v, ast.Call) and attr_chain(v.func) == ["self", "value", ev] and len(v.args) == 1


def _is_args_pairs(repo: Repo, e, ev) -> bool:
    """dict(<a.<ev>(context) for a in self.args>) — the same mapping through the argument's own
    (name, value) pair (side condition on KeywordArgument.<ev> checked)"""
    if not (isinstance(e, ast.Call) and is_name(e.func, "dict") and len(e.args) == 1 and not e.keywords and isinstance(e.args[0], (ast.GeneratorExp, ast.ListComp)) and len(e.args[0].generators) == 1):
        return False
    g = e.args[0].generators[0]
    if g.ifs or attr_chain(g.iter) != ["self", "args"] or not isinstance(g.target, ast.Name):
        return False
    v = unwrap_await(e.args[0].elt)
    return isinstance(v, ast.Call) and attr_chain(v.func) == [g.target.id, ev] and len(v.args) == 1 and is_name(v.args[0], "context") and _pair_evaluate_ok(repo, ev)


def run(repo: Repo) -> Result:
    res = Result(PID)
    res.rules = ["C27-WITH", "C27-CALL", "C27-BIND"]
    res.explanation = "shape rules on WithNode / CallNode: where arguments are evaluated and what the body's namespace is built from"
    res.assumptions = ["extend's push/pop pairing is decided under C14"]
    for m, ev, rd in (("render_to_output", "evaluate", "render"), ("render_to_output_async", "evaluate_async", "render_async")):
        f = repo.own_method(WITH, m)
        res.ob(f.qual, 3)
        withs = [n for n in walk_no_nested(f.node) if isinstance(n, (ast.With, ast.AsyncWith))]
        if len(withs) != 1 or len(withs[0].items) != 1:
            res.add("C27-WITH", f.qual, "one-with", f"{f.qual} must contain exactly one `with context.extend(...)`", f.file, f.line)
            continue
        w = withs[0]
        ce = w.items[0].context_expr
        if not (isinstance(ce, ast.Call) and callee_name(ce) == "extend" and is_name(call_recv(ce), "context") and len(ce.args) + len(ce.keywords) == 1):
            res.add("C27-WITH", f.qual, "extend", f"{f.qual}: the block must run inside context.extend(namespace)", f.file, w.lineno)
            continue
        ns = ce.args[0] if ce.args else ce.keywords[0].value
        if isinstance(ns, ast.Name):
            binds = [st for st in f.node.body if isinstance(st, ast.Assign) and is_name(st.targets[0], ns.id)]
            if len(binds) != 1 or binds[0].lineno > w.lineno:
                res.add("C27-WITH", f.qual, "namespace-binding", f"{f.qual}: the namespace must be bound once, before the with statement", f.file, w.lineno)
                continue
            ns = binds[0].value
        if not _is_args_comp(ns, ev) and not _is_args_pairs(repo, ns, ev):
            res.add("C27-WITH", f.qual, f"namespace:{text(ns)[:50]}", f"{f.qual}: namespace must be {{a.name: a.value.{ev}(context) for a in self.args}}, found `{text(ns)[:80]}`", f.file, w.lineno)
        # the block is rendered inside the with and nowhere else
        inside = [c for c in calls(w) if callee_name(c) == rd and attr_chain(call_recv(c)) == ["self", "block"]]
        everywhere = [c for c in calls(f.node) if callee_name(c) in ("render", "render_async")]
        if len(inside) != 1 or len(everywhere) != 1:
            res.add("C27-WITH", f.qual, "block-inside-with", f"{f.qual}: self.block must be rendered exactly once, inside the with block", f.file, f.line)
        elif not (inside[0].args and is_name(inside[0].args[0], "context")):
            res.add("C27-WITH", f.qual, "block-context", f"{f.qual}: the block must be rendered on the extended `context`", f.file, inside[0].lineno)
        # no assign of the arguments (would leak past the block)
        if any(callee_name(c) == "assign" for c in calls(f.node)):
            res.add("C27-WITH", f.qual, "assign", f"{f.qual}: with-arguments must not be assigned to the template scope", f.file, f.line)
        res.sample({"rule": "C27-WITH", "function": f.qual, "with": text(ce)[:100]})

    # ---- C27-CALL ----------------------------------------------------------------
    from ..normalize import nfunc

    for m, ev in (("render_to_output", "evaluate"), ("render_to_output_async", "evaluate_async")):
        # helpers inlined (`_get_macro`, `_macro_context`), aliases such as
        # `undefined = context.env.undefined` propagated — `macro_args` itself stays a call
        f = nfunc(repo, repo.own_method(CALL, m), keep=("macro_args",))
        # locals named after their roles: the result of self.macro_args(...) is `args`, the
        # dict handed to context.copy(namespace=...) is `namespace`
        from ..normalize import rename_locals as _rename_locals

        roles = {}
        for st0 in ast.walk(f.node):
            if isinstance(st0, (ast.Assign, ast.AnnAssign)):
                tg0 = st0.targets[0] if isinstance(st0, ast.Assign) else st0.target
                if isinstance(tg0, ast.Name) and isinstance(st0.value, ast.Call) and callee_name(st0.value) == "macro_args" and is_self_attr(st0.value.func):
                    roles[tg0.id] = "args"
            if isinstance(st0, ast.Call) and callee_name(st0) == "copy":
                for k0 in st0.keywords:
                    if k0.arg == "namespace" and isinstance(k0.value, ast.Name):
                        roles[k0.value.id] = "namespace"
        f.node = _rename_locals(f.node, roles)
        res.ob(f.qual, 4)
        src = text(f.node)
        nsd = None
        for st in walk_no_nested(f.node):
            tgt = st.targets[0] if isinstance(st, ast.Assign) else (st.target if isinstance(st, ast.AnnAssign) else None)
            if tgt is not None and is_name(tgt, "namespace") and isinstance(st.value, ast.Dict):
                nsd = st.value
        if nsd is None:
            res.add("C27-CALL", f.qual, "namespace", f"{f.qual}: macro namespace dict not found", f.file, f.line)
            continue
        items = {k.value: v for k, v in zip(nsd.keys, nsd.values) if isinstance(k, ast.Constant)}
        a = items.get("args")
        ok_a = (
            isinstance(a, ast.ListComp)
            and len(a.generators) == 1
            and attr_chain(a.generators[0].iter) == ["args", "excess_args"]
            and isinstance(unwrap_await(a.elt), ast.Call)
            and callee_name(unwrap_await(a.elt)) == ev
            and is_name(unwrap_await(a.elt).func.value, a.generators[0].target.id)
        )
        if not ok_a:
            res.add("C27-CALL", f.qual, "args", f"{f.qual}: namespace['args'] must be the evaluated surplus positional arguments in order", f.file, nsd.lineno)
        k = items.get("kwargs")
        ok_k = (
            isinstance(k, ast.DictComp)
            and len(k.generators) == 1
            and text(k.generators[0].iter) == "args.excess_kwargs.items()"
            and isinstance(unwrap_await(k.value), ast.Call)
            and callee_name(unwrap_await(k.value)) == ev
        )
        if not ok_k:
            res.add("C27-CALL", f.qual, "kwargs", f"{f.qual}: namespace['kwargs'] must map surplus keyword names to their evaluated values", f.file, nsd.lineno)
        # parameter loop
        loop_ok = False
        for st in walk_no_nested(f.node):
            if isinstance(st, ast.For) and text(st.iter) == "args.args.items()" and isinstance(st.target, ast.Tuple) and len(st.body) == 1 and isinstance(st.body[0], ast.If):
                n_, e_ = st.target.elts[0].id, st.target.elts[1].id
                iff = st.body[0]
                t = text(iff.test)
                then, els = iff.body, iff.orelse
                if t == f"{e_} is None" and len(then) == 1 and len(els) == 1:
                    tv, ev_ = then[0], els[0]
                    if (
                        isinstance(tv, ast.Assign)
                        and text(tv.targets[0]) == f"namespace[{n_}]"
                        and isinstance(tv.value, ast.Call)
                        and text(tv.value.func) == "context.env.undefined"
                        and is_name(tv.value.args[0], n_)
                        and isinstance(ev_, ast.Assign)
                        and text(ev_.targets[0]) == f"namespace[{n_}]"
                        and isinstance(unwrap_await(ev_.value), ast.Call)
                        and text(unwrap_await(ev_.value).func) == f"{e_}.{ev}"
                    ):
                        loop_ok = True
        if not loop_ok:
            res.add("C27-CALL", f.qual, "param-loop", f"{f.qual}: every declared parameter must be bound to its evaluated argument, or to env.undefined(name) when none", f.file, f.line)
        # bound with the very macro that is rendered afterwards: self.macro_args(<m>) ... <m>.block.render*(...)
        ma = [c0 for c0 in calls(f.node) if callee_name(c0) == "macro_args" and is_self_attr(c0.func) and len(c0.args) == 1 and isinstance(c0.args[0], ast.Name)]
        rendered = {attr_chain(call_recv(c0))[0] for c0 in calls(f.node) if callee_name(c0) in ("render", "render_async") and attr_chain(call_recv(c0)) and attr_chain(call_recv(c0))[-1] == "block"}
        if len(ma) != 1 or ma[0].args[0].id not in rendered:
            res.add("C27-CALL", f.qual, "macro_args", f"{f.qual} must bind arguments with self.macro_args(macro)", f.file, f.line)

    # ---- C27-BIND ----------------------------------------------------------------
    from ..normalize import NFunc as _NFn
    from ..normalize import rename_locals as _rename_locals2

    f0 = repo.own_method(CALL, "macro_args")
    # locals named after the BoundArgs field they are returned as
    roles2 = {}
    for r0 in ast.walk(f0.node):
        if isinstance(r0, ast.Return) and isinstance(r0.value, ast.Call) and callee_name(r0.value) == "BoundArgs":
            for k0 in r0.value.keywords:
                if isinstance(k0.value, ast.Name) and k0.arg:
                    roles2[k0.value.id] = k0.arg
    f = _NFn(f0, _rename_locals2(f0.node, roles2))
    res.ob(f.qual, 5)
    body = [s for s in f.node.body if not (isinstance(s, ast.Expr) and isinstance(s.value, ast.Constant))]
    src = text(f.node)
    # defaults
    d_ok = any(
        isinstance(s, (ast.Assign, ast.AnnAssign))
        and is_name(s.targets[0] if isinstance(s, ast.Assign) else s.target, "args")
        and isinstance(s.value, ast.DictComp)
        and text(s.value.generators[0].iter) == "macro.args.items()"
        and text(s.value.value).endswith(".value")
        for s in body
    )
    if not d_ok:
        res.add("C27-BIND", f.qual, "defaults", "macro_args must start from {name: param.value for name, param in macro.args.items()}", f.file, f.line)
    fors = [s for s in body if isinstance(s, ast.For)]
    # positional pairing, in either spelling:
    #   for name, expr in zip_longest(macro.args, self.args, ...):   (surplus: the `name is None` leg)
    #   for name, expr in zip(macro.args, self.args):                (surplus: self.args[len(macro.args):])
    pos = next((s for s in fors if isinstance(s.iter, ast.Call) and callee_name(s.iter) in ("zip_longest", "zip") and [text(a) for a in s.iter.args[:2]] == ["macro.args", "self.args"]), None)
    kw = next((s for s in fors if attr_chain(s.iter) == ["self", "kwargs"]), None)
    if pos is None or not (isinstance(pos.target, ast.Tuple) and len(pos.target.elts) == 2 and all(isinstance(x, ast.Name) for x in pos.target.elts)):
        res.add("C27-BIND", f.qual, "positional", "positional arguments must be paired in order: zip_longest(macro.args, self.args, fillvalue=None) (or zip + the slice self.args[len(macro.args):])", f.file, f.line)
    else:
        n_, e_ = [x.id for x in pos.target.elts]
        binds = any(isinstance(x, ast.Assign) and text(x.targets[0]) == f"args[{n_}]" and text(x.value) == f"{e_}.value" for x in ast.walk(pos))
        if callee_name(pos.iter) == "zip_longest":
            ptxt = text(pos)
            surplus = f"excess_args.append({e_}.value)" in ptxt and f"if {n_} is None" in ptxt
        else:
            # zip stops at the shorter list: the surplus is the tail of self.args after the declared parameters
            surplus = False
            for x in ast.walk(f.node):
                it = None
                if isinstance(x, (ast.ListComp, ast.GeneratorExp)) and len(x.generators) == 1 and isinstance(x.elt, ast.Attribute) and x.elt.attr == "value" and is_name(x.elt.value, x.generators[0].target.id if isinstance(x.generators[0].target, ast.Name) else ""):
                    it = x.generators[0].iter
                if it is not None and text(it) in ("self.args[len(macro.args):]",):
                    # ... and it is what excess_args is bound to / extended with
                    surplus = True
        if not (binds and surplus):
            res.add("C27-BIND", f.qual, "positional-body", "surplus positionals must go to excess_args and the others to args[name] = expr.value", f.file, pos.lineno)
    if kw is None:
        res.add("C27-BIND", f.qual, "keyword", "keyword arguments must be applied in a loop over self.kwargs", f.file, f.line)
    else:
        a_ = kw.target.id
        # a local that only abbreviates an attribute of the loop variable (`name = arg.name`) is
        # written out before the shape is read
        import copy as _copy27

        kw = _copy27.deepcopy(kw)
        abbrev = {}
        rest = []
        for st in kw.body:
            if isinstance(st, ast.Assign) and len(st.targets) == 1 and isinstance(st.targets[0], ast.Name) and attr_chain(st.value) and attr_chain(st.value)[0] == a_ and not rest:
                abbrev[st.targets[0].id] = st.value
            else:
                rest.append(st)
        if abbrev:
            class _Sub(ast.NodeTransformer):
                def visit_Name(self, n):
                    return _copy27.deepcopy(abbrev[n.id]) if isinstance(n.ctx, ast.Load) and n.id in abbrev else n

            kw.body = [_Sub().visit(st) for st in rest]
        ok = (
            len(kw.body) == 1
            and isinstance(kw.body[0], ast.If)
            and text(kw.body[0].test) == f"{a_}.name in macro.args"
            and text(kw.body[0].body[0]) == f"args[{a_}.name] = {a_}.value"
            and kw.body[0].orelse
            and text(kw.body[0].orelse[0]) == f"excess_kwargs[{a_}.name] = {a_}.value"
        )
        if not ok:
            res.add("C27-BIND", f.qual, "keyword-body", "a keyword argument binds by name when the macro declares it, else goes to excess_kwargs", f.file, kw.lineno)
    if pos is not None and kw is not None and not pos.lineno < kw.lineno:
        res.add("C27-BIND", f.qual, "order", "positional arguments must be bound before keyword arguments", f.file, f.line)
    rets = [s for s in walk_no_nested(f.node) if isinstance(s, ast.Return)]
    if not (len(rets) == 1 and text(rets[0].value) == "BoundArgs(args=args, excess_args=excess_args, excess_kwargs=excess_kwargs)"):
        res.add("C27-BIND", f.qual, "return", "macro_args must return BoundArgs(args=args, excess_args=excess_args, excess_kwargs=excess_kwargs)", f.file, f.line)
    return res


def selftest(repo: Repo):
    from ..selftest import Variant, text_edit

    def v(name, rel, old, new, expect, count=1):
        return lambda: Variant(name, text_edit(repo, rel, old, new, count), expect)

    W = "liquid/extra/tags/_with.py"
    M = "liquid/extra/tags/macro_tag.py"
    return [
        v("with-evaluates-inside", W, "        with context.extend({a.name: a.value.evaluate(context) for a in self.args}):\n            return self.block.render(context, buffer)", "        ns = {}\n        with context.extend(ns):\n            ns.update({a.name: a.value.evaluate(context) for a in self.args})\n            return self.block.render(context, buffer)", "C27-WITH"),
        v("with-assigns", W, "        with context.extend(namespace):\n            return await self.block.render_async(context, buffer)", "        for k, v_ in namespace.items():\n            context.assign(k, v_)\n        with context.extend(namespace):\n            return await self.block.render_async(context, buffer)", "C27-WITH"),
        v("with-renders-outside", W, "        with context.extend({a.name: a.value.evaluate(context) for a in self.args}):\n            return self.block.render(context, buffer)", "        with context.extend({a.name: a.value.evaluate(context) for a in self.args}):\n            pass\n        return self.block.render(context, buffer)", "C27-WITH"),
        v("kwargs-before-positional", M, "            if arg.name in macro.args:\n                # This has the potential to override a positional argument.\n                args[arg.name] = arg.value", "            if arg.name in macro.args and args[arg.name] is None:\n                args[arg.name] = arg.value", "C27-BIND"),
        v("excess-args-dropped", M, '            "args": [expr.evaluate(context) for expr in args.excess_args],', '            "args": [],', "C27-CALL"),
        v("missing-param-none", M, "                namespace[name] = context.env.undefined(name, token=self.token)\n            else:\n                namespace[name] = expr.evaluate(context)", "                namespace[name] = None\n            else:\n                namespace[name] = expr.evaluate(context)", "C27-CALL"),
        v("positional-reversed", M, "itertools.zip_longest(macro.args, self.args, fillvalue=None)", "itertools.zip_longest(macro.args, reversed(self.args), fillvalue=None)", "C27-BIND"),
        v("defaults-ignored", M, "            name: param.value for name, param in macro.args.items()", "            name: None for name, param in macro.args.items()", "C27-BIND"),
    ]
