"""C17 — rendering is pure and independent of history (enumerated state channels).

Full structural decision for the channels through which one render can influence a
later one, or modify its inputs:
  C17-MEMO    ``lru_cache`` / ``cache`` may memoise only configuration factories whose
              arguments are configuration (get_lexer, get_parser,
              get_implicit_environment); never anything reachable as a filter, tag,
              expression or context method (a memo keyed on render data serves an *equal
              but different* value — e.g. equal datetimes in different zones — from history).
  C17-INPUT   no registered filter, ``evaluate*``, ``render_to_output*`` or RenderContext
              method mutates a value aliased to a parameter or to the result of an
              expression evaluation: no in-place method (sort, reverse, append, extend,
              insert, pop, remove, clear, update, setdefault, popitem), no item/attribute
              store or ``del`` on it, no augmented assignment on a sequence parameter.
              Containers built locally are owned.
  C17-AST     outside ``__init__`` no method of a Node / Expression / BoundTemplate / Tag
              subclass stores to ``self.<attr>`` (or an item of it) or calls an in-place
              method on it; render-time functions store attributes only on exception
              objects they caught and per-render objects (context, forloop helpers).
  C17-MODULE  module- and class-level mutable containers of ``liquid/`` are never mutated
              from inside a function (only the reviewed memo tables / registries are).
  C17-HITMISS every ``<env>.loader.load*`` call passes ``globals=<env>.make_globals(...)``: a cache hit
              (installs the request's globals) and a miss (from_string merges the environment
              globals) then bind the same mapping.
  C17-SHARED  no function stores an attribute on an object it took out of a container that outlives
              the call (a cached template is shared with everyone who obtained it earlier).
  C17-FRESH   ``BoundTemplate.render*`` builds a new context from a *copy* of the render
              arguments (``dict(*args, **kwargs)``) on every call.
"""

from __future__ import annotations

import ast

from ..astutil import call_recv, attr_chain, callee_name, calls, handler_types, is_name, is_self_attr, names_in, text, unwrap_await
from ..core import Result
from ..model import AnchorMissing, Repo, walk_no_nested
from ..registry import Registry

PID = "C17"
MIN_OBLIGATIONS = 150
MEMO_NAMES = {"lru_cache", "cache", "cached_property"}
MEMO_ALLOWED = {
    "liquid.lex.get_lexer": "keyed on the six delimiter strings (configuration)",
    "liquid.parser.get_parser": "keyed on the Environment instance (identity hash: C11)",
    "liquid.environment.get_implicit_environment": "keyed on the full configuration of the implicit Environment",
}
MUTATORS = {"sort", "reverse", "append", "extend", "insert", "pop", "remove", "clear", "update", "setdefault", "popitem", "add", "discard", "appendleft", "popleft", "__setitem__", "__delitem__"}
OWNED_CALLS = {"list", "dict", "set", "tuple", "sorted", "reversed", "flatten", "chain", "ReadOnlyChainMap", "defaultdict", "deque", "OrderedDict"}
PER_RENDER_BASES = {"context", "ctx", "static_context", "macro_context", "forloop", "tablerow", "namespace", "buffer", "buf"}
REVIEWED_MODULE_MUTATION: dict[str, str] = {}
REVIEWED_SELF_STORE = {
    # class qual : reason  (objects that are per-render helpers, not part of the parsed template)
}


def _params(fn, star: bool = False) -> list[str]:
    """Named parameters.  ``*args`` / ``**kwargs`` are fresh containers built by the call
    itself (mutating them does not touch the caller's data), so they are only
    included when ``star`` is true."""
    a = fn.args
    out = [x.arg for x in a.posonlyargs + a.args + a.kwonlyargs]
    if star:
        if a.vararg:
            out.append(a.vararg.arg)
        if a.kwarg:
            out.append(a.kwarg.arg)
    return out


LIST_MUTATORS = {"sort", "reverse", "append", "extend", "insert", "pop", "remove", "clear"}


def _is_owned_expr(e: ast.AST, owned_calls=None) -> bool:
    owned_calls = OWNED_CALLS if owned_calls is None else owned_calls
    e = unwrap_await(e)
    if isinstance(e, (ast.List, ast.Dict, ast.Set, ast.Tuple, ast.ListComp, ast.DictComp, ast.SetComp, ast.GeneratorExp, ast.JoinedStr, ast.Constant)):
        return True
    if isinstance(e, ast.Call) and callee_name(e) in owned_calls:
        return True
    if isinstance(e, ast.BinOp):
        return True  # a new object
    return False


def _covers_list(test: ast.AST, name: str) -> bool:
    """``isinstance(name, list)`` / ``isinstance(name, (list, ...))``"""
    if isinstance(test, ast.Call) and callee_name(test) == "isinstance" and len(test.args) == 2 and is_name(test.args[0], name):
        t = test.args[1]
        names = [text(x) for x in (t.elts if isinstance(t, ast.Tuple) else [t])]
        return "list" in names
    return False


def _ownership_flow(names: set[str], owned_calls, visit):
    """Must-dataflow of the fact ("safe", n): *if n is a list here, it is a list built by this
    call chain* — n was bound to a freshly built container on every path, or is known not to be
    a list (the false edge of ``isinstance(n, list)``)."""
    from ..flow import MustFlow

    def targets(st):
        if isinstance(st, ast.Assign):
            out = []
            for t in st.targets:
                out += [x.id for x in ast.walk(t) if isinstance(x, ast.Name) and isinstance(x.ctx, ast.Store)]
            return out
        if isinstance(st, (ast.AugAssign, ast.AnnAssign)) and isinstance(st.target, ast.Name):
            return [st.target.id]
        return []

    def gen(st):
        if isinstance(st, ast.Assign) and len(st.targets) == 1 and isinstance(st.targets[0], ast.Name) and _is_owned_expr(st.value, owned_calls):
            return {("safe", st.targets[0].id)}
        if isinstance(st, ast.AnnAssign) and isinstance(st.target, ast.Name) and st.value is not None and _is_owned_expr(st.value, owned_calls):
            return {("safe", st.target.id)}
        return set()

    def kill(st, facts):
        dead = set()
        tg = targets(st)
        if tg and not gen(st):
            dead |= {f for f in facts if f[0] == "safe" and f[1] in tg}
        return dead

    def gen_cond(test, truth):
        out = set()
        t, want = test, truth
        while isinstance(t, ast.UnaryOp) and isinstance(t.op, ast.Not):
            t, want = t.operand, not want
        if not want:
            # false edge of isinstance(n, list...): n is not a list
            if isinstance(t, ast.Call) and callee_name(t) == "isinstance" and len(t.args) == 2 and isinstance(t.args[0], ast.Name) and _covers_list(t, t.args[0].id):
                out.add(("safe", t.args[0].id))
            if isinstance(t, ast.BoolOp) and isinstance(t.op, ast.Or):
                for v in t.values:
                    out |= gen_cond(v, False)
        else:
            if isinstance(t, ast.BoolOp) and isinstance(t.op, ast.And):
                for v in t.values:
                    out |= gen_cond(v, True)
        return out

    class _Own(MustFlow):
        def _apply(self, st_node, st):
            out = super()._apply(st_node, st)
            # an alias of a safe name is safe
            if isinstance(st_node, ast.Assign) and len(st_node.targets) == 1 and isinstance(st_node.targets[0], ast.Name) and isinstance(st_node.value, ast.Name) and ("safe", st_node.value.id) in st:
                out = frozenset(out | {("safe", st_node.targets[0].id)})
            return out

    return _Own(gen=gen, gen_cond=gen_cond, kill=kill, visit=visit)


def returns_fresh(fn_node, owned_calls) -> bool:
    """every ``return`` of the function hands back a container built inside it"""
    ok = [True]
    seen = [0]

    def visit(node, st):
        if isinstance(node, ast.Return):
            seen[0] += 1
            v = node.value
            if v is None:
                ok[0] = False
            elif _is_owned_expr(v, owned_calls):
                pass
            elif isinstance(v, ast.Name) and ("safe", v.id) in st and False:
                pass
            else:
                # a name that is freshly built on every path
                if not (isinstance(v, ast.Name) and ("fresh", v.id) in st):
                    ok[0] = False

    flow = _ownership_flow(set(), owned_calls, visit)
    # "fresh" = bound to an owned expression on every path (stronger than "safe")
    base_gen, base_kill = flow.gen, flow.kill

    def gen(st):
        out = set(base_gen(st))
        out |= {("fresh", n) for (k, n) in base_gen(st) if k == "safe"}
        return out

    def kill(st, facts):
        dead = set(base_kill(st, facts))
        dead |= {("fresh", n) for (k, n) in dead if k == "safe"}
        return dead

    flow.gen, flow.kill = gen, kill
    flow.run(fn_node)
    return ok[0] and seen[0] > 0


def input_mutations(fn_node, tainted_params: set[str], first_seq_param: str | None, entry_safe: frozenset = frozenset(), owned_calls=None):
    """Yield (node, description) for every in-place change of a tainted value that is not, at
    that point, a container this call chain built itself."""
    owned_calls = OWNED_CALLS if owned_calls is None else owned_calls
    tainted = set(tainted_params)
    bindings: dict[str, list[ast.AST]] = {}
    for n in walk_no_nested(fn_node):
        if isinstance(n, ast.Assign) and len(n.targets) == 1 and isinstance(n.targets[0], ast.Name):
            bindings.setdefault(n.targets[0].id, []).append(n.value)
        elif isinstance(n, ast.AnnAssign) and isinstance(n.target, ast.Name) and n.value is not None:
            bindings.setdefault(n.target.id, []).append(n.value)
        elif isinstance(n, (ast.For, ast.AsyncFor)) and isinstance(n.target, ast.Name):
            bindings.setdefault(n.target.id, []).append(n.iter)  # items of the iterable
    changed = True
    while changed:
        changed = False
        for name, vals in bindings.items():
            if name in tainted:
                continue
            for v in vals:
                v = unwrap_await(v)
                src = None
                if isinstance(v, ast.Name) and v.id in tainted:
                    src = v.id
                elif isinstance(v, ast.Call) and callee_name(v) in ("evaluate", "evaluate_async", "resolve", "get", "get_async"):
                    src = "evaluate()"
                elif isinstance(v, ast.Subscript) and isinstance(v.value, ast.Name) and v.value.id in tainted:
                    src = v.value.id
                elif isinstance(v, ast.Call) and v.args and isinstance(v.args[0], ast.Name) and v.args[0].id in tainted and callee_name(v) in OWNED_CALLS and callee_name(v) not in owned_calls:
                    src = v.args[0].id  # a helper that may hand its argument back
                if src is not None and not _is_owned_expr(v, owned_calls):
                    tainted.add(name)
                    changed = True
                    break
    found: list = []
    seen_keys = set()

    def report(node, what):
        if (id(node), what) not in seen_keys:
            seen_keys.add((id(node), what))
            found.append((node, what))

    def check(n, st):
        if isinstance(n, ast.Call) and isinstance(n.func, ast.Attribute) and n.func.attr in MUTATORS:
            base = call_recv(n)
            if isinstance(base, ast.Name) and base.id in tainted:
                if not (("safe", base.id) in st and n.func.attr in LIST_MUTATORS):
                    report(n, f"{base.id}.{n.func.attr}()")
        tgts = []
        if isinstance(n, ast.Assign):
            tgts = n.targets
        elif isinstance(n, ast.AugAssign):
            tgts = [n.target]
            if isinstance(n.target, ast.Name) and n.target.id == first_seq_param and n.target.id in tainted_params and ("safe", n.target.id) not in st:
                report(n, f"{n.target.id} {type(n.op).__name__}= ... on the input sequence")
        elif isinstance(n, ast.Delete):
            tgts = n.targets
        for t in tgts:
            for tt in t.elts if isinstance(t, ast.Tuple) else [t]:
                if isinstance(tt, (ast.Subscript, ast.Attribute)):
                    base = tt.value
                    direct = isinstance(base, ast.Name)
                    while isinstance(base, (ast.Subscript, ast.Attribute)):
                        base = base.value
                    if isinstance(base, ast.Name) and base.id in tainted and base.id not in ("self", "cls"):
                        if not (direct and isinstance(tt, ast.Subscript) and ("safe", base.id) in st):
                            report(n, f"store to {text(tt)[:40]}")

    def visit(node, st):
        # statements and branch tests: look at every call / store inside (nested defs excluded)
        nodes = [node] + [x for x in walk_no_nested(node)] if not isinstance(node, (ast.If, ast.For, ast.AsyncFor, ast.While, ast.With, ast.AsyncWith, ast.Try, ast.ExceptHandler)) else ([node.iter] if isinstance(node, (ast.For, ast.AsyncFor)) else [i.context_expr for i in node.items] if isinstance(node, (ast.With, ast.AsyncWith)) else [])
        for n in nodes:
            for x in [n] + list(walk_no_nested(n)) if not isinstance(n, ast.stmt) or n is node else [n]:
                check(x, st)

    flow = _ownership_flow(tainted, owned_calls, visit)
    flow.run(fn_node, frozenset(("safe", n) for n in entry_safe))
    yield from found


def run(repo: Repo) -> Result:
    res = Result(PID)
    res.rules = ["C17-MEMO", "C17-INPUT", "C17-AST", "C17-MODULE", "C17-FRESH", "C17-MEMOKEY", "C17-HITMISS", "C17-SHARED"]
    res.explanation = "who-may rules over the closed list of state channels: memo sites, input mutation, AST mutation, module/class containers, per-render context creation"
    res.assumptions = [
        "aliasing is tracked intra-procedurally; containers built locally are owned",
        "the current time and reloaded templates are excluded by the property itself",
    ]
    reg = Registry(repo)

    # ---- C17-MEMO ---------------------------------------------------------------
    n_memo = 0
    for f in repo.all_functions():
        for d in f.node.decorator_list:
            dn = d.func if isinstance(d, ast.Call) else d
            nm = text(dn).rsplit(".", 1)[-1]
            if nm in MEMO_NAMES:
                n_memo += 1
                res.ob(f"memo:{f.qual}")
                if f.qual not in MEMO_ALLOWED:
                    res.add(
                        "C17-MEMO",
                        f.qual,
                        nm,
                        f"{f.qual} is memoised with {nm}: results for equal-but-different arguments "
                        "(e.g. equal datetimes in different time zones, 1 vs True vs 1.0) are served from earlier renders",
                        f.file,
                        f.line,
                    )
        # lru_cache(...)(fn) applied as a call
        for c in calls(f.node, nested=True):
            if callee_name(c) in MEMO_NAMES and not (isinstance(c.func, ast.Name) and False):
                parent_is_decorator = any(c is (d.func if isinstance(d, ast.Call) else d) or c is d for g in repo.all_functions() for d in g.node.decorator_list)
                if not parent_is_decorator:
                    n_memo += 1
                    res.ob(f"memo-call:{f.qual}")
                    res.add("C17-MEMO", f.qual, f"call:{text(c)[:40]}", f"{f.qual} builds a memo with `{text(c)[:60]}`", f.file, c.lineno)
    for m in repo.modules.values():
        for name, v in m.assigns.items():
            if isinstance(v, ast.Call) and any(callee_name(x) in MEMO_NAMES for x in ast.walk(v) if isinstance(x, ast.Call)):
                n_memo += 1
                res.ob(f"memo-module:{m.name}.{name}")
                res.add("C17-MEMO", f"{m.name}.{name}", "module-level", f"{m.name}.{name} is a memoised callable", m.relpath, v.lineno)
    if n_memo < 3:
        raise AnchorMissing(f"only {n_memo} memo sites found; the three configuration factories are expected")

    # ---- C17-INPUT --------------------------------------------------------------
    n_funcs = 0
    # helpers assumed to build a new container are checked, not trusted: `flatten` counts as
    # "owned" only while every return of it hands back a list built inside it
    owned_calls = set(OWNED_CALLS)
    fl = repo.func("liquid.filter.flatten")
    res.ob(f"fresh:{fl.qual}")
    if not returns_fresh(fl.node, owned_calls - {"flatten"}):
        owned_calls.discard("flatten")
    res.stats["flatten_returns_fresh_list"] = "flatten" in owned_calls
    # what each decorator wrapper hands to the filter as its first argument: "safe" = if it is a
    # list, the wrapper built it (then the filter may sort / extend it in place)
    dec_safe: dict[str, bool] = {}
    for wname in ("string_filter", "array_filter", "sequence_filter", "liquid_filter", "math_filter"):
        w = repo.func(f"liquid.filter.{wname}")
        hole = w.params()[0]
        for sub in ast.walk(w.node):
            if isinstance(sub, ast.FunctionDef) and sub.name == "wrapper":
                verdicts = []

                def wvisit(node, st, hole=hole, verdicts=verdicts):
                    for c in [node] + list(walk_no_nested(node)):
                        if isinstance(c, ast.Call) and is_name(c.func, hole) and c.args:
                            a0 = c.args[0]
                            verdicts.append(_is_owned_expr(a0, owned_calls) or (isinstance(a0, ast.Name) and ("safe", a0.id) in st))

                _ownership_flow(set(), owned_calls, wvisit).run(sub)
                dec_safe[wname] = bool(verdicts) and all(verdicts)
    res.stats["decorators_passing_fresh_lists"] = sorted(k for k, v in dec_safe.items() if v)
    for fi in reg.filter_functions():
        fn = fi.func
        params = [p for p in _params(fn.node) if p not in ("self", "cls", "context", "environment")]
        first = params[0] if params and any(d in ("sequence_filter", "array_filter") for d in fi.decorators) else None
        n_funcs += 1
        res.ob(f"input:{fn.qual}")
        decs = [d.split(".")[-1] for d in fi.decorators]
        safe = frozenset({params[0]}) if params and any(dec_safe.get(d) for d in decs) else frozenset()
        for node, what in input_mutations(fn.node, set(params), first, entry_safe=safe, owned_calls=owned_calls):
            res.add("C17-INPUT", fn.qual, what, f"filter {fi.name} ({fn.qual}) modifies its input in place: {what}", fn.file, node.lineno)
    for f in repo.all_functions():
        if f.cls is None:
            continue
        if f.name in ("evaluate", "evaluate_async", "render_to_output", "render_to_output_async", "evaluate_args", "evaluate_args_async") or (
            f.cls.qual == "liquid.context.RenderContext" and f.name in ("get", "get_async", "get_item", "get_item_async", "resolve", "_resolve")
        ):
            n_funcs += 1
            res.ob(f"input:{f.qual}")
            params = [p for p in _params(f.node) if p not in ("self", "cls", "context", "buffer", "_", "__", "_context", "_buffer", "token")]
            for node, what in input_mutations(f.node, set(params), None, owned_calls=owned_calls):
                res.add("C17-INPUT", f.qual, what, f"{f.qual} modifies render data in place: {what}", f.file, node.lineno)
    # the decorator wrappers themselves
    for wname in ("string_filter", "array_filter", "sequence_filter", "liquid_filter", "math_filter"):
        w = repo.func(f"liquid.filter.{wname}")
        for sub in ast.walk(w.node):
            if isinstance(sub, ast.FunctionDef) and sub.name == "wrapper":
                n_funcs += 1
                res.ob(f"input:{w.qual}.wrapper")
                for node, what in input_mutations(sub, {"val"}, "val", owned_calls=owned_calls):
                    res.add("C17-INPUT", f"{w.qual}.wrapper", what, f"{w.qual} wrapper modifies the filter input in place: {what}", w.file, node.lineno)
    if n_funcs < 120:
        raise AnchorMissing(f"only {n_funcs} filter/evaluate/render functions analysed")

    # ---- C17-AST -----------------------------------------------------------------
    bases = ("liquid.ast.Node", "liquid.expression.Expression", "liquid.template.BoundTemplate", "liquid.tag.Tag")
    ast_classes = {}
    for b in bases:
        for c in repo.subclasses(b):
            ast_classes[c.qual] = c
    # argument helper classes that live in the tree
    for q in ("liquid.builtin.expressions.arguments.KeywordArgument", "liquid.builtin.expressions.arguments.PositionalArgument", "liquid.builtin.expressions.arguments.Parameter", "liquid.builtin.expressions.filtered.Filter"):
        try:
            ast_classes[q] = repo.cls(q)
        except AnchorMissing:
            pass
    if len(ast_classes) < 90:
        raise AnchorMissing(f"only {len(ast_classes)} parse-tree classes found")
    for c in ast_classes.values():
        for m in c.methods.values():
            if m.name in ("__init__", "__new__"):
                continue
            res.ob(f"ast:{m.qual}")
            for n in ast.walk(m.node):
                tgts = []
                if isinstance(n, ast.Assign):
                    tgts = n.targets
                elif isinstance(n, (ast.AugAssign, ast.AnnAssign)):
                    tgts = [n.target]
                elif isinstance(n, ast.Delete):
                    tgts = n.targets
                for t in tgts:
                    for tt in t.elts if isinstance(t, ast.Tuple) else [t]:
                        if isinstance(tt, (ast.Attribute, ast.Subscript)):
                            ch = attr_chain(tt.value if isinstance(tt, ast.Subscript) else tt)
                            base = tt
                            while isinstance(base, (ast.Attribute, ast.Subscript)):
                                base = base.value
                            if isinstance(base, ast.Name) and base.id == "self":
                                res.add("C17-AST", m.qual, f"store:{text(tt)[:40]}", f"{m.qual} stores to `{text(tt)[:50]}` on a parsed-template object outside __init__", m.file, n.lineno)
                if isinstance(n, ast.Call) and isinstance(n.func, ast.Attribute) and n.func.attr in MUTATORS:
                    base = call_recv(n)
                    while isinstance(base, (ast.Attribute, ast.Subscript)):
                        base = base.value
                    if isinstance(base, ast.Name) and base.id == "self" and call_recv(n) is not base:
                        res.add("C17-AST", m.qual, f"mutate:{text(n.func)[:40]}", f"{m.qual} mutates `{text(call_recv(n))[:40]}` of a parsed-template object in place", m.file, n.lineno)
    # attribute stores on other objects in render-time functions
    for f in repo.all_functions():
        if f.name not in ("render_to_output", "render_to_output_async", "evaluate", "evaluate_async", "render", "render_async", "render_with_context", "render_with_context_async"):
            continue
        handler_names = {h.name for h in ast.walk(f.node) if isinstance(h, ast.ExceptHandler) and h.name}
        res.ob(f"ast-foreign:{f.qual}")
        for n in ast.walk(f.node):
            tgts = n.targets if isinstance(n, ast.Assign) else ([n.target] if isinstance(n, (ast.AugAssign, ast.AnnAssign)) else [])
            for t in tgts:
                if isinstance(t, ast.Attribute):
                    base = t.value
                    while isinstance(base, (ast.Attribute, ast.Subscript)):
                        base = base.value
                    if isinstance(base, ast.Name) and base.id not in handler_names | PER_RENDER_BASES | {"self"}:
                        res.add("C17-AST", f.qual, f"foreign-store:{text(t)[:40]}", f"{f.qual} stores to `{text(t)[:50]}` at render time (only caught exceptions and per-render objects may be written)", f.file, n.lineno)

    # ---- C17-MODULE --------------------------------------------------------------
    mutable_globals: dict[str, set[str]] = {}
    from ..model import ClassInfo

    def _repo_container_ctor(mod, call) -> bool:
        """A call of a repo class that is itself a mutable container (defines __setitem__ /
        append / add somewhere in its MRO): LRUCache, ThreadSafeLRUCache, ..."""
        fn_ = call.func
        while isinstance(fn_, ast.Subscript):  # Cache[str, str](...)
            fn_ = fn_.value
        chain_ = attr_chain(fn_)
        if not chain_:
            return False
        r = repo.resolve_in(mod, ".".join(chain_))
        if not isinstance(r, ClassInfo):
            return False
        return any(repo.find_method(r, meth) is not None for meth in ("__setitem__", "append", "add", "push"))

    for m in repo.modules.values():
        names = set()
        for name, v in m.assigns.items():
            if isinstance(v, (ast.Dict, ast.List, ast.Set, ast.DictComp, ast.ListComp, ast.SetComp)) or (
                isinstance(v, ast.Call) and (callee_name(v) in ("dict", "list", "set", "defaultdict", "deque", "OrderedDict", "Counter", "WeakValueDictionary", "WeakKeyDictionary", "ChainMap", "bytearray") or _repo_container_ctor(m, v))
            ):
                names.add(name)
        mutable_globals[m.name] = names
    class_mutables: dict[str, set[str]] = {}
    for c in repo.all_classes():
        names = {a for a, v in c.attrs.items() if isinstance(v, (ast.Dict, ast.List, ast.Set)) or (isinstance(v, ast.Call) and callee_name(v) in ("dict", "list", "set", "defaultdict"))}
        if names:
            class_mutables[c.qual] = names
    n_glob = sum(len(v) for v in mutable_globals.values()) + sum(len(v) for v in class_mutables.values())
    for f in repo.all_functions():
        gl = mutable_globals.get(f.module.name, set())
        local_names = set(_params(f.node, star=True)) | {n.id for n in ast.walk(f.node) if isinstance(n, ast.Name) and isinstance(n.ctx, ast.Store)}
        for n in ast.walk(f.node):
            base = None
            what = None
            if isinstance(n, ast.Call) and isinstance(n.func, ast.Attribute) and n.func.attr in MUTATORS:
                base, what = call_recv(n), f".{n.func.attr}()"
            elif isinstance(n, (ast.Assign, ast.AugAssign, ast.Delete)):
                tgts = n.targets if isinstance(n, (ast.Assign, ast.Delete)) else [n.target]
                for t in tgts:
                    if isinstance(t, ast.Subscript):
                        base, what = t.value, "[...] ="
            if base is None:
                continue
            if isinstance(base, ast.Name) and base.id in gl and base.id not in local_names:
                key = f"{f.qual}:{base.id}"
                res.ob(f"module-mut:{key}")
                if key not in REVIEWED_MODULE_MUTATION:
                    res.add("C17-MODULE", f.qual, f"{base.id}{what}", f"{f.qual} mutates the module-level container {base.id} ({what}): state shared by all renders in the process", f.file, n.lineno)
            elif isinstance(base, ast.Attribute) and isinstance(base.value, ast.Name) and base.value.id in ("self", "cls") and f.cls is not None:
                for k in repo.mro_classes(f.cls):
                    if base.attr in class_mutables.get(k.qual, set()):
                        # instance attribute of the same name assigned in __init__ shadows the class one
                        init = repo.find_method(f.cls, "__init__")
                        shadowed = init is not None and any(isinstance(x, ast.Attribute) and x.attr == base.attr and isinstance(x.ctx, ast.Store) and is_name(x.value, "self") for x in ast.walk(init.node))
                        res.ob(f"class-mut:{f.qual}:{base.attr}")
                        if not shadowed:
                            res.add("C17-MODULE", f.qual, f"{k.name}.{base.attr}{what}", f"{f.qual} mutates the class-level container {k.qual}.{base.attr}: shared by every instance and render", f.file, n.lineno)
    # mutable default arguments and function attributes are the same channel in disguise
    n_def = 0
    for f in repo.all_functions():
        a = f.node.args
        pos = a.posonlyargs + a.args
        pairs = list(zip(pos[len(pos) - len(a.defaults):], a.defaults)) + [(k, d) for k, d in zip(a.kwonlyargs, a.kw_defaults) if d is not None]
        for arg, d in pairs:
            if isinstance(d, (ast.Dict, ast.List, ast.Set)) or (isinstance(d, ast.Call) and callee_name(d) in ("dict", "list", "set", "defaultdict", "deque", "OrderedDict")):
                n_def += 1
                for n in ast.walk(f.node):
                    hit = None
                    if isinstance(n, ast.Call) and isinstance(n.func, ast.Attribute) and n.func.attr in MUTATORS and is_name(call_recv(n), arg.arg):
                        hit = f".{n.func.attr}()"
                    elif isinstance(n, ast.Subscript) and isinstance(n.ctx, (ast.Store, ast.Del)) and is_name(n.value, arg.arg):
                        hit = "[...] ="
                    if hit:
                        res.add("C17-MODULE", f.qual, f"default:{arg.arg}{hit}", f"{f.qual} mutates its mutable default argument `{arg.arg}` ({hit}): the default object is shared by every call in the process", f.file, n.lineno)
        for n in ast.walk(f.node):
            if isinstance(n, ast.Attribute) and isinstance(n.ctx, ast.Store) and isinstance(n.value, ast.Name) and n.value.id in f.module.functions and n.value.id not in {x.id for x in ast.walk(f.node) if isinstance(x, ast.Name) and isinstance(x.ctx, ast.Store)}:
                res.add("C17-MODULE", f.qual, f"funcattr:{n.value.id}.{n.attr}", f"{f.qual} stores state on the function object {n.value.id}.{n.attr}", f.file, n.lineno)
    res.ob("mutable-defaults", max(n_def, 1))
    res.ob("module-containers", max(n_glob, 1))

    # ---- C17-FRESH ---------------------------------------------------------------
    from ..normalize import nfunc as _nfunc17

    for m in ("render", "render_async"):
        f = _nfunc17(repo, repo.own_method("liquid.template.BoundTemplate", m), keep=("make_globals", "_get_buffer", "render_with_context", "render_with_context_async"))  # private helpers inlined
        res.ob(f"fresh:{f.qual}")
        ctor = [c for c in calls(f.node) if text(c.func) == "self.context_class"]
        if len(ctor) != 1 or "dict(*args, **kwargs)" not in text(ctor[0]):
            res.add("C17-FRESH", f.qual, "context", f"{f.qual} must build a new context from dict(*args, **kwargs) on every call", f.file, f.line)
    res.stats.update(memo_sites=n_memo, functions_checked_for_input_mutation=n_funcs, parse_tree_classes=len(ast_classes), module_level_containers=n_glob)
    # ---- C17-MEMOKEY ------------------------------------------------------------------------
    # The caching loaders memoise `load(name, namespace)`.  A key that loses a component for some
    # inputs (a falsy namespace value, a missing name) makes two different requests share a slot:
    # what a `render`/`include` of that partial outputs then depends on which request came first.
    from .c23 import check_namespace_key

    check_namespace_key(repo, res, "C17-MEMOKEY")
    # ---- C17-HITMISS: a cache hit and a cache miss bind the same globals ------------------------------
    # A miss builds the template with ``from_string(source, globals=G)``, which binds
    # ``env.make_globals(G)`` (environment globals under the request's); a hit skips from_string and
    # installs ``G`` as is.  The two agree — the output does not depend on whether the template
    # was requested before — only if every request reaches the loader with globals that are
    # already merged: each ``<env>.loader.load*(...)`` call passes ``globals=<env>.make_globals(...)``
    # (make_globals is idempotent).
    n_load = 0
    for f in repo.all_functions():
        for c in calls(f.node, nested=True):
            if isinstance(c.func, ast.Attribute) and c.func.attr in ("load", "load_async") and text(c.func.value).endswith(".loader"):
                n_load += 1
                res.ob(f"hitmiss:{f.qual}")
                g = next((k.value for k in c.keywords if k.arg == "globals"), None)
                g = unwrap_await(g) if g is not None else None
                if not (isinstance(g, ast.Call) and callee_name(g) == "make_globals"):
                    res.add("C17-HITMISS", f.qual, "unmerged-globals", f"{f.qual} hands `globals={text(g) if g is not None else '<none>'}` to the loader without merging the environment globals first (make_globals): a caching loader installs exactly these on a cache hit, while a miss goes through from_string, which merges — the second request for a template renders without the environment globals the first one saw", f.file, c.lineno)
    if n_load < 2:
        raise AnchorMissing(f"only {n_load} `<env>.loader.load*(...)` call sites found (get_template and get_template_async expected)")
    # ---- C17-SHARED: objects taken from persistent storage are not modified ------------------------------
    # A parsed template kept in a loader's cache is shared by every holder of it (an earlier
    # ``get_template`` caller, other threads, later requests).  A function that takes an object out
    # of a container that outlives the call (``self.<attr>[key]`` / ``.get(key)``) and then stores
    # an attribute on it changes what those holders render later.
    n_shared = 0
    for f in repo.all_functions():
        origin: dict[str, ast.AST] = {}
        for st in walk_no_nested(f.node):
            if isinstance(st, ast.Assign) and len(st.targets) == 1 and isinstance(st.targets[0], ast.Name):
                v = unwrap_await(st.value)
                src = None
                if isinstance(v, ast.Subscript):
                    src = v.value
                elif isinstance(v, ast.Call) and isinstance(v.func, ast.Attribute) and v.func.attr in ("get", "setdefault") and v.args:
                    src = v.func.value
                if src is not None and isinstance(src, ast.Attribute) and is_name(src.value, "self"):
                    origin[st.targets[0].id] = src
        if not origin:
            continue
        for st in walk_no_nested(f.node):
            tgts = st.targets if isinstance(st, ast.Assign) else ([st.target] if isinstance(st, (ast.AugAssign, ast.AnnAssign)) else [])
            for t in tgts:
                if isinstance(t, ast.Attribute) and isinstance(t.value, ast.Name) and t.value.id in origin:
                    n_shared += 1
                    res.ob(f"shared:{f.qual}:{t.attr}")
                    res.add("C17-SHARED", f.qual, f"store:{t.attr}", f"{f.qual} takes `{t.value.id}` out of `{text(origin[t.value.id])}` (storage that outlives the call) and stores `{t.value.id}.{t.attr}`: every holder of that object — e.g. a template obtained earlier with its own globals — renders differently afterwards, depending on which requests happened in between", f.file, st.lineno)
    res.ob("shared-objects", 1)
    return res


def selftest(repo: Repo):
    from ..selftest import Variant, text_edit

    def v(name, rel, old, new, expect, count=1):
        return lambda: Variant(name, text_edit(repo, rel, old, new, count), expect)

    A = "liquid/builtin/filters/array.py"
    return [
        v("module-lru-cache-memo", "liquid/utils/html.py", 'def strip_tags(value: str) -> str:\n    """Return the given value with all HTML tags removed."""\n', 'from .lru_cache import ThreadSafeLRUCache\n\n_STRIPPED: ThreadSafeLRUCache[str, str] = ThreadSafeLRUCache(capacity=512)\n\n\ndef strip_tags(value: str) -> str:\n    """Return the given value with all HTML tags removed."""\n    if value in _STRIPPED:\n        return _STRIPPED[value]\n    _STRIPPED[value] = value\n', "C17-MODULE"),
        v("default-arg-memo", "liquid/utils/html.py", 'def strip_tags(value: str) -> str:\n    """Return the given value with all HTML tags removed."""\n', 'def strip_tags(value: str, _memo: dict = {}) -> str:\n    """Return the given value with all HTML tags removed."""\n    if value in _memo:\n        return _memo[value]\n    _memo[value] = value\n', "C17-MODULE"),
        v("memo-on-filter", "liquid/builtin/filters/math.py", "@math_filter\ndef ceil(", "@functools.lru_cache(maxsize=32)\n@math_filter\ndef ceil(", "C17-MEMO"),
        v("memo-on-date", "liquid/builtin/filters/misc.py", "@with_environment\n@liquid_filter\ndef date(", "@with_environment\n@liquid_filter\n@functools.lru_cache(maxsize=10)\ndef date(", "C17-MEMO"),
        v("concat-extends-second-argument", A, "    return list(chain(sequence, second_array))", "    second_array.extend(sequence)\n    return second_array", "C17-INPUT"),
        v("compact-pops-key-of-items", A, "    return [itm for itm in sequence if itm is not None]", "    for itm in sequence:\n        if isinstance(itm, dict):\n            itm.pop('_tmp', None)\n    return [itm for itm in sequence if itm is not None]", "C17-INPUT"),
        lambda rest=(A, "    try:\n        return sorted(sequence)\n    except TypeError as err:\n        raise FilterError(\"can't sort sequence\", token=None) from err", "    try:\n        second = sequence\n        second.sort()\n        return second\n    except TypeError as err:\n        raise FilterError(\"can't sort sequence\", token=None) from err",): Variant("sort-in-place-through-an-alias-of-the-fresh-list-is-silent", text_edit(repo, rest[0], rest[1], rest[2], 1), "C17-", silent=True),
        lambda: Variant("sort-natural-in-place-on-fresh-list-is-silent", text_edit(repo, A, "    if key:\n        item_getter = partial(_getitem, key=str(key), default=MAX_CH)\n        return sorted(sequence, key=lambda obj: _lower(item_getter(obj)))\n\n    return sorted(sequence, key=_lower)", "    if not isinstance(sequence, list):\n        sequence = list(sequence)\n    if key:\n        item_getter = partial(_getitem, key=str(key), default=MAX_CH)\n        sequence.sort(key=lambda obj: _lower(item_getter(obj)))\n    else:\n        sequence.sort(key=_lower)\n    return sequence", 1), "C17-", silent=True),
        lambda: Variant("flatten-returns-its-input-alone-is-silent", text_edit(repo, "liquid/filter.py", "    return list(_flatten(it, level))", "    if isinstance(it, list) and not any(isinstance(obj, (list, tuple)) for obj in it):\n        return it\n    return list(_flatten(it, level))", 1), "C17-", silent=True),
        lambda: Variant("flatten-aliases-and-sort-natural-in-place", {**text_edit(repo, A, "    if key:\n        item_getter = partial(_getitem, key=str(key), default=MAX_CH)\n        return sorted(sequence, key=lambda obj: _lower(item_getter(obj)))\n\n    return sorted(sequence, key=_lower)", "    if not isinstance(sequence, list):\n        sequence = list(sequence)\n    if key:\n        item_getter = partial(_getitem, key=str(key), default=MAX_CH)\n        sequence.sort(key=lambda obj: _lower(item_getter(obj)))\n    else:\n        sequence.sort(key=_lower)\n    return sequence", 1), **text_edit(repo, "liquid/filter.py", "    return list(_flatten(it, level))", "    if isinstance(it, list) and not any(isinstance(obj, (list, tuple)) for obj in it):\n        return it\n    return list(_flatten(it, level))", 1)}, "C17-INPUT"),
        lambda rest=(A, "    try:\n        return sorted(sequence)\n    except TypeError as err:\n        raise FilterError(\"can't sort sequence\", token=None) from err", "    try:\n        sequence.sort()\n        return sequence\n    except TypeError as err:\n        raise FilterError(\"can't sort sequence\", token=None) from err",): Variant("sort-in-place-on-the-wrapper's-fresh-list-is-silent", text_edit(repo, rest[0], rest[1], rest[2], 1), "C17-", silent=True),
        lambda rest=(A, "    return list(reversed(array))", "    array.reverse()\n    return array",): Variant("reverse-in-place-on-the-wrapper's-fresh-list-is-silent", text_edit(repo, rest[0], rest[1], rest[2], 1), "C17-", silent=True),
        lambda rest=(A, "    return list(chain(sequence, second_array))", "    sequence += list(second_array)\n    return sequence",): Variant("concat-extends-input-on-the-wrapper's-fresh-list-is-silent", text_edit(repo, rest[0], rest[1], rest[2], 1), "C17-", silent=True),
        lambda rest=(A, "    return [itm for itm in sequence if itm is not None]", "    for i in range(len(sequence) - 1, -1, -1):\n        if sequence[i] is None:\n            del sequence[i]\n    return sequence",): Variant("compact-deletes-on-the-wrapper's-fresh-list-is-silent", text_edit(repo, rest[0], rest[1], rest[2], 1), "C17-", silent=True),
        v("node-caches-on-self", "liquid/builtin/output.py", "        return buffer.write(\n            to_liquid_string(self.expression.evaluate(context), context.autoescape)\n        )", "        self.last = to_liquid_string(self.expression.evaluate(context), context.autoescape)\n        return buffer.write(self.last)", "C17-AST"),
        v("node-flips-blank", "liquid/builtin/tags/if_tag.py", "        if self.condition.evaluate(context):\n            return self.consequence.render(context, buffer)", "        if self.condition.evaluate(context):\n            self.consequence.blank = False\n            return self.consequence.render(context, buffer)", "C17-AST"),
        v("cycle-state-on-node", "liquid/builtin/tags/cycle_tag.py", "        index = context.cycle(key, len(args))\n\n        if index >= len(args):\n            return 0\n\n        return buffer.write(\n            to_liquid_string(args[index], autoescape=context.autoescape)\n        )\n\n    async def", "        self.args.append(self.args.pop(0))\n        index = 0\n\n        return buffer.write(\n            to_liquid_string(args[index], autoescape=context.autoescape)\n        )\n\n    async def", "C17-AST"),
        v("module-level-counter", "liquid/builtin/tags/increment_tag.py", "        return buffer.write(str(context.increment(self.name)))", "        _SEEN.append(self.name)\n        return buffer.write(str(context.increment(self.name)))", "C17-MODULE").__class__ and (lambda: Variant("module-level-list", {"liquid/builtin/tags/increment_tag.py": next(m for m in repo.modules.values() if m.relpath == "liquid/builtin/tags/increment_tag.py").source.replace('TAG_INCREMENT = sys.intern("increment")', 'TAG_INCREMENT = sys.intern("increment")\n_SEEN = []').replace("        return buffer.write(str(context.increment(self.name)))", "        _SEEN.append(self.name)\n        return buffer.write(str(context.increment(self.name) + len(_SEEN)))")}, "C17-MODULE")),
        v("class-level-list", "liquid/extra/tags/macro_tag.py", "        macro_context = context.copy(\n            namespace=namespace,\n            disabled_tags=self.disabled_tags,\n            carry_loop_iterations=True,\n        )\n\n        return macro.block.render(macro_context, buffer)", "        self.disabled_tags.append(self.name)\n        macro_context = context.copy(\n            namespace=namespace,\n            disabled_tags=self.disabled_tags,\n            carry_loop_iterations=True,\n        )\n\n        return macro.block.render(macro_context, buffer)", "C17-"),
        v("render-reuses-args", "liquid/template.py", "            globals=self.make_globals(dict(*args, **kwargs)),\n        )\n        buf = self._get_buffer()\n        self.render_with_context(context, buf)", "            globals=self.make_globals(args[0] if args else kwargs),\n        )\n        buf = self._get_buffer()\n        self.render_with_context(context, buf)", "C17-FRESH"),
        v("evaluate-pops-path", "liquid/builtin/expressions/filtered.py", "        func = context.filter(self.name, token=self.token)\n        positional_args, keyword_args = self.evaluate_args(context)\n        try:\n            return func(left, *positional_args, **keyword_args)", "        func = context.filter(self.name, token=self.token)\n        positional_args, keyword_args = self.evaluate_args(context)\n        if isinstance(left, list):\n            left.append(None)\n        try:\n            return func(left, *positional_args, **keyword_args)", "C17-INPUT"),
    ]
