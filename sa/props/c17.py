"""C17 — rendering is pure and independent of history (enumerated state channels).

Full structural decision for the channels through which one render can influence a
later one, or modify its inputs:
  C17-MEMO    ``lru_cache`` / ``cache`` may memoise only configuration factories whose
              arguments are configuration (get_lexer, get_parser,
              get_implicit_environment); never anything reachable as a filter, tag,
              expression or context method (a memo keyed on render data serves an *equal
              but different* value — e.g. equal datetimes in different zones — from history).
  C17-INPUT   no registered filter, ``evaluate*``, ``render_to_output*`` or RenderContext
              method mutates a value aliased to a parameter or to the result of an
              expression evaluation: no in-place method (sort, reverse, append, extend,
              insert, pop, remove, clear, update, setdefault, popitem), no item/attribute
              store or ``del`` on it, no augmented assignment on a sequence parameter.
              Containers built locally are owned.
  C17-AST     outside ``__init__`` no method of a Node / Expression / BoundTemplate / Tag
              subclass stores to ``self.<attr>`` (or an item of it) or calls an in-place
              method on it; render-time functions store attributes only on exception
              objects they caught and per-render objects (context, forloop helpers).
  C17-MODULE  module- and class-level mutable containers of ``liquid/`` are never mutated
              from inside a function (only the reviewed memo tables / registries are).
  C17-FRESH   ``BoundTemplate.render*`` builds a new context from a *copy* of the render
              arguments (``dict(*args, **kwargs)``) on every call.
"""

from __future__ import annotations

import ast

from ..astutil import call_recv, attr_chain, callee_name, calls, handler_types, is_name, is_self_attr, names_in, text, unwrap_await
from ..core import Result
from ..model import AnchorMissing, Repo, walk_no_nested
from ..registry import Registry

PID = "C17"
MIN_OBLIGATIONS = 150
MEMO_NAMES = {"lru_cache", "cache", "cached_property"}
MEMO_ALLOWED = {
    "liquid.lex.get_lexer": "keyed on the six delimiter strings (configuration)",
    "liquid.parser.get_parser": "keyed on the Environment instance (identity hash: C11)",
    "liquid.environment.get_implicit_environment": "keyed on the full configuration of the implicit Environment",
}
MUTATORS = {"sort", "reverse", "append", "extend", "insert", "pop", "remove", "clear", "update", "setdefault", "popitem", "add", "discard", "appendleft", "popleft", "__setitem__", "__delitem__"}
OWNED_CALLS = {"list", "dict", "set", "tuple", "sorted", "reversed", "flatten", "chain", "ReadOnlyChainMap", "defaultdict", "deque", "OrderedDict"}
PER_RENDER_BASES = {"context", "ctx", "static_context", "macro_context", "forloop", "tablerow", "namespace", "buffer", "buf"}
REVIEWED_MODULE_MUTATION: dict[str, str] = {}
REVIEWED_SELF_STORE = {
    # class qual : reason  (objects that are per-render helpers, not part of the parsed template)
}


def _params(fn, star: bool = False) -> list[str]:
    """Named parameters.  ``*args`` / ``**kwargs`` are fresh containers built by the call
    itself (mutating them does not touch the caller's data), so they are only
    included when ``star`` is true."""
    a = fn.args
    out = [x.arg for x in a.posonlyargs + a.args + a.kwonlyargs]
    if star:
        if a.vararg:
            out.append(a.vararg.arg)
        if a.kwarg:
            out.append(a.kwarg.arg)
    return out


def _is_owned_expr(e: ast.AST) -> bool:
    e = unwrap_await(e)
    if isinstance(e, (ast.List, ast.Dict, ast.Set, ast.Tuple, ast.ListComp, ast.DictComp, ast.SetComp, ast.GeneratorExp, ast.JoinedStr, ast.Constant)):
        return True
    if isinstance(e, ast.Call) and callee_name(e) in OWNED_CALLS:
        return True
    if isinstance(e, ast.BinOp):
        return True  # a new object
    return False


def input_mutations(fn_node, tainted_params: set[str], first_seq_param: str | None):
    """Yield (node, description) for every in-place change of a tainted value."""
    tainted = set(tainted_params)
    owned: set[str] = set()
    # single forward pass over statements in source order (flow-insensitive aliasing is enough
    # for the repo's straight-line filters; a name is owned only if *every* binding is owned)
    bindings: dict[str, list[ast.AST]] = {}
    for n in walk_no_nested(fn_node):
        if isinstance(n, ast.Assign) and len(n.targets) == 1 and isinstance(n.targets[0], ast.Name):
            bindings.setdefault(n.targets[0].id, []).append(n.value)
        elif isinstance(n, ast.AnnAssign) and isinstance(n.target, ast.Name) and n.value is not None:
            bindings.setdefault(n.target.id, []).append(n.value)
        elif isinstance(n, (ast.For, ast.AsyncFor)) and isinstance(n.target, ast.Name):
            bindings.setdefault(n.target.id, []).append(n.iter)  # items of the iterable
    changed = True
    while changed:
        changed = False
        for name, vals in bindings.items():
            if name in tainted:
                continue
            for v in vals:
                v = unwrap_await(v)
                src = None
                if isinstance(v, ast.Name) and v.id in tainted:
                    src = v.id
                elif isinstance(v, ast.Call) and callee_name(v) in ("evaluate", "evaluate_async", "resolve", "get", "get_async"):
                    src = "evaluate()"
                elif isinstance(v, ast.Subscript) and isinstance(v.value, ast.Name) and v.value.id in tainted:
                    src = v.value.id
                elif isinstance(v, ast.Attribute) and isinstance(v.value, ast.Name) and v.value.id in tainted and name not in ("self",):
                    src = None  # attribute of a parameter: not followed
                if src is not None and not _is_owned_expr(v):
                    tainted.add(name)
                    changed = True
                    break
    # a parameter that is rebound to an owned value everywhere before use is still tainted
    # at entry; we flag only syntactic in-place operations on tainted names.
    for n in walk_no_nested(fn_node):
        if isinstance(n, ast.Call) and isinstance(n.func, ast.Attribute) and n.func.attr in MUTATORS:
            base = call_recv(n)
            if isinstance(base, ast.Name) and base.id in tainted and not _rebound_owned_before(fn_node, base.id, n, bindings):
                yield n, f"{base.id}.{n.func.attr}()"
        tgts = []
        if isinstance(n, ast.Assign):
            tgts = n.targets
        elif isinstance(n, ast.AugAssign):
            tgts = [n.target]
            if isinstance(n.target, ast.Name) and n.target.id == first_seq_param and n.target.id in tainted_params:
                yield n, f"{n.target.id} {type(n.op).__name__}= ... on the input sequence"
        elif isinstance(n, ast.Delete):
            tgts = n.targets
        for t in tgts:
            for tt in t.elts if isinstance(t, ast.Tuple) else [t]:
                if isinstance(tt, (ast.Subscript, ast.Attribute)):
                    base = tt.value
                    while isinstance(base, (ast.Subscript, ast.Attribute)):
                        base = base.value
                    if isinstance(base, ast.Name) and base.id in tainted and base.id not in ("self", "cls") and not _rebound_owned_before(fn_node, base.id, n, bindings):
                        yield n, f"store to {text(tt)[:40]}"


def _rebound_owned_before(fn_node, name, use, bindings) -> bool:
    """The name has been rebound to an owned container on an earlier line (e.g.
    ``val = flatten(val)`` / ``left = list(...)``) — then it no longer aliases the input."""
    for v in bindings.get(name, []):
        if getattr(v, "lineno", 10**9) < getattr(use, "lineno", 0) and _is_owned_expr(v):
            return True
    return False


def run(repo: Repo) -> Result:
    res = Result(PID)
    res.rules = ["C17-MEMO", "C17-INPUT", "C17-AST", "C17-MODULE", "C17-FRESH", "C17-MEMOKEY"]
    res.explanation = "who-may rules over the closed list of state channels: memo sites, input mutation, AST mutation, module/class containers, per-render context creation"
    res.assumptions = [
        "aliasing is tracked intra-procedurally; containers built locally are owned",
        "the current time and reloaded templates are excluded by the property itself",
    ]
    reg = Registry(repo)

    # ---- C17-MEMO ---------------------------------------------------------------
    n_memo = 0
    for f in repo.all_functions():
        for d in f.node.decorator_list:
            dn = d.func if isinstance(d, ast.Call) else d
            nm = text(dn).rsplit(".", 1)[-1]
            if nm in MEMO_NAMES:
                n_memo += 1
                res.ob(f"memo:{f.qual}")
                if f.qual not in MEMO_ALLOWED:
                    res.add(
                        "C17-MEMO",
                        f.qual,
                        nm,
                        f"{f.qual} is memoised with {nm}: results for equal-but-different arguments "
                        "(e.g. equal datetimes in different time zones, 1 vs True vs 1.0) are served from earlier renders",
                        f.file,
                        f.line,
                    )
        # lru_cache(...)(fn) applied as a call
        for c in calls(f.node, nested=True):
            if callee_name(c) in MEMO_NAMES and not (isinstance(c.func, ast.Name) and False):
                parent_is_decorator = any(c is (d.func if isinstance(d, ast.Call) else d) or c is d for g in repo.all_functions() for d in g.node.decorator_list)
                if not parent_is_decorator:
                    n_memo += 1
                    res.ob(f"memo-call:{f.qual}")
                    res.add("C17-MEMO", f.qual, f"call:{text(c)[:40]}", f"{f.qual} builds a memo with `{text(c)[:60]}`", f.file, c.lineno)
    for m in repo.modules.values():
        for name, v in m.assigns.items():
            if isinstance(v, ast.Call) and any(callee_name(x) in MEMO_NAMES for x in ast.walk(v) if isinstance(x, ast.Call)):
                n_memo += 1
                res.ob(f"memo-module:{m.name}.{name}")
                res.add("C17-MEMO", f"{m.name}.{name}", "module-level", f"{m.name}.{name} is a memoised callable", m.relpath, v.lineno)
    if n_memo < 3:
        raise AnchorMissing(f"only {n_memo} memo sites found; the three configuration factories are expected")

    # ---- C17-INPUT --------------------------------------------------------------
    n_funcs = 0
    for fi in reg.filter_functions():
        fn = fi.func
        params = [p for p in _params(fn.node) if p not in ("self", "cls", "context", "environment")]
        first = params[0] if params and any(d in ("sequence_filter", "array_filter") for d in fi.decorators) else None
        n_funcs += 1
        res.ob(f"input:{fn.qual}")
        for node, what in input_mutations(fn.node, set(params), first):
            res.add("C17-INPUT", fn.qual, what, f"filter {fi.name} ({fn.qual}) modifies its input in place: {what}", fn.file, node.lineno)
    for f in repo.all_functions():
        if f.cls is None:
            continue
        if f.name in ("evaluate", "evaluate_async", "render_to_output", "render_to_output_async", "evaluate_args", "evaluate_args_async") or (
            f.cls.qual == "liquid.context.RenderContext" and f.name in ("get", "get_async", "get_item", "get_item_async", "resolve", "_resolve")
        ):
            n_funcs += 1
            res.ob(f"input:{f.qual}")
            params = [p for p in _params(f.node) if p not in ("self", "cls", "context", "buffer", "_", "__", "_context", "_buffer", "token")]
            for node, what in input_mutations(f.node, set(params), None):
                res.add("C17-INPUT", f.qual, what, f"{f.qual} modifies render data in place: {what}", f.file, node.lineno)
    # the decorator wrappers themselves
    for wname in ("string_filter", "array_filter", "sequence_filter", "liquid_filter", "math_filter"):
        w = repo.func(f"liquid.filter.{wname}")
        for sub in ast.walk(w.node):
            if isinstance(sub, ast.FunctionDef) and sub.name == "wrapper":
                n_funcs += 1
                res.ob(f"input:{w.qual}.wrapper")
                for node, what in input_mutations(sub, {"val"}, "val"):
                    res.add("C17-INPUT", f"{w.qual}.wrapper", what, f"{w.qual} wrapper modifies the filter input in place: {what}", w.file, node.lineno)
    if n_funcs < 120:
        raise AnchorMissing(f"only {n_funcs} filter/evaluate/render functions analysed")

    # ---- C17-AST -----------------------------------------------------------------
    bases = ("liquid.ast.Node", "liquid.expression.Expression", "liquid.template.BoundTemplate", "liquid.tag.Tag")
    ast_classes = {}
    for b in bases:
        for c in repo.subclasses(b):
            ast_classes[c.qual] = c
    # argument helper classes that live in the tree
    for q in ("liquid.builtin.expressions.arguments.KeywordArgument", "liquid.builtin.expressions.arguments.PositionalArgument", "liquid.builtin.expressions.arguments.Parameter", "liquid.builtin.expressions.filtered.Filter"):
        try:
            ast_classes[q] = repo.cls(q)
        except AnchorMissing:
            pass
    if len(ast_classes) < 90:
        raise AnchorMissing(f"only {len(ast_classes)} parse-tree classes found")
    for c in ast_classes.values():
        for m in c.methods.values():
            if m.name in ("__init__", "__new__"):
                continue
            res.ob(f"ast:{m.qual}")
            for n in ast.walk(m.node):
                tgts = []
                if isinstance(n, ast.Assign):
                    tgts = n.targets
                elif isinstance(n, (ast.AugAssign, ast.AnnAssign)):
                    tgts = [n.target]
                elif isinstance(n, ast.Delete):
                    tgts = n.targets
                for t in tgts:
                    for tt in t.elts if isinstance(t, ast.Tuple) else [t]:
                        if isinstance(tt, (ast.Attribute, ast.Subscript)):
                            ch = attr_chain(tt.value if isinstance(tt, ast.Subscript) else tt)
                            base = tt
                            while isinstance(base, (ast.Attribute, ast.Subscript)):
                                base = base.value
                            if isinstance(base, ast.Name) and base.id == "self":
                                res.add("C17-AST", m.qual, f"store:{text(tt)[:40]}", f"{m.qual} stores to `{text(tt)[:50]}` on a parsed-template object outside __init__", m.file, n.lineno)
                if isinstance(n, ast.Call) and isinstance(n.func, ast.Attribute) and n.func.attr in MUTATORS:
                    base = call_recv(n)
                    while isinstance(base, (ast.Attribute, ast.Subscript)):
                        base = base.value
                    if isinstance(base, ast.Name) and base.id == "self" and call_recv(n) is not base:
                        res.add("C17-AST", m.qual, f"mutate:{text(n.func)[:40]}", f"{m.qual} mutates `{text(call_recv(n))[:40]}` of a parsed-template object in place", m.file, n.lineno)
    # attribute stores on other objects in render-time functions
    for f in repo.all_functions():
        if f.name not in ("render_to_output", "render_to_output_async", "evaluate", "evaluate_async", "render", "render_async", "render_with_context", "render_with_context_async"):
            continue
        handler_names = {h.name for h in ast.walk(f.node) if isinstance(h, ast.ExceptHandler) and h.name}
        res.ob(f"ast-foreign:{f.qual}")
        for n in ast.walk(f.node):
            tgts = n.targets if isinstance(n, ast.Assign) else ([n.target] if isinstance(n, (ast.AugAssign, ast.AnnAssign)) else [])
            for t in tgts:
                if isinstance(t, ast.Attribute):
                    base = t.value
                    while isinstance(base, (ast.Attribute, ast.Subscript)):
                        base = base.value
                    if isinstance(base, ast.Name) and base.id not in handler_names | PER_RENDER_BASES | {"self"}:
                        res.add("C17-AST", f.qual, f"foreign-store:{text(t)[:40]}", f"{f.qual} stores to `{text(t)[:50]}` at render time (only caught exceptions and per-render objects may be written)", f.file, n.lineno)

    # ---- C17-MODULE --------------------------------------------------------------
    mutable_globals: dict[str, set[str]] = {}
    from ..model import ClassInfo

    def _repo_container_ctor(mod, call) -> bool:
        """A call of a repo class that is itself a mutable container (defines __setitem__ /
        append / add somewhere in its MRO): LRUCache, ThreadSafeLRUCache, ..."""
        fn_ = call.func
        while isinstance(fn_, ast.Subscript):  # Cache[str, str](...)
            fn_ = fn_.value
        chain_ = attr_chain(fn_)
        if not chain_:
            return False
        r = repo.resolve_in(mod, ".".join(chain_))
        if not isinstance(r, ClassInfo):
            return False
        return any(repo.find_method(r, meth) is not None for meth in ("__setitem__", "append", "add", "push"))

    for m in repo.modules.values():
        names = set()
        for name, v in m.assigns.items():
            if isinstance(v, (ast.Dict, ast.List, ast.Set, ast.DictComp, ast.ListComp, ast.SetComp)) or (
                isinstance(v, ast.Call) and (callee_name(v) in ("dict", "list", "set", "defaultdict", "deque", "OrderedDict", "Counter", "WeakValueDictionary", "WeakKeyDictionary", "ChainMap", "bytearray") or _repo_container_ctor(m, v))
            ):
                names.add(name)
        mutable_globals[m.name] = names
    class_mutables: dict[str, set[str]] = {}
    for c in repo.all_classes():
        names = {a for a, v in c.attrs.items() if isinstance(v, (ast.Dict, ast.List, ast.Set)) or (isinstance(v, ast.Call) and callee_name(v) in ("dict", "list", "set", "defaultdict"))}
        if names:
            class_mutables[c.qual] = names
    n_glob = sum(len(v) for v in mutable_globals.values()) + sum(len(v) for v in class_mutables.values())
    for f in repo.all_functions():
        gl = mutable_globals.get(f.module.name, set())
        local_names = set(_params(f.node, star=True)) | {n.id for n in ast.walk(f.node) if isinstance(n, ast.Name) and isinstance(n.ctx, ast.Store)}
        for n in ast.walk(f.node):
            base = None
            what = None
            if isinstance(n, ast.Call) and isinstance(n.func, ast.Attribute) and n.func.attr in MUTATORS:
                base, what = call_recv(n), f".{n.func.attr}()"
            elif isinstance(n, (ast.Assign, ast.AugAssign, ast.Delete)):
                tgts = n.targets if isinstance(n, (ast.Assign, ast.Delete)) else [n.target]
                for t in tgts:
                    if isinstance(t, ast.Subscript):
                        base, what = t.value, "[...] ="
            if base is None:
                continue
            if isinstance(base, ast.Name) and base.id in gl and base.id not in local_names:
                key = f"{f.qual}:{base.id}"
                res.ob(f"module-mut:{key}")
                if key not in REVIEWED_MODULE_MUTATION:
                    res.add("C17-MODULE", f.qual, f"{base.id}{what}", f"{f.qual} mutates the module-level container {base.id} ({what}): state shared by all renders in the process", f.file, n.lineno)
            elif isinstance(base, ast.Attribute) and isinstance(base.value, ast.Name) and base.value.id in ("self", "cls") and f.cls is not None:
                for k in repo.mro_classes(f.cls):
                    if base.attr in class_mutables.get(k.qual, set()):
                        # instance attribute of the same name assigned in __init__ shadows the class one
                        init = repo.find_method(f.cls, "__init__")
                        shadowed = init is not None and any(isinstance(x, ast.Attribute) and x.attr == base.attr and isinstance(x.ctx, ast.Store) and is_name(x.value, "self") for x in ast.walk(init.node))
                        res.ob(f"class-mut:{f.qual}:{base.attr}")
                        if not shadowed:
                            res.add("C17-MODULE", f.qual, f"{k.name}.{base.attr}{what}", f"{f.qual} mutates the class-level container {k.qual}.{base.attr}: shared by every instance and render", f.file, n.lineno)
    # mutable default arguments and function attributes are the same channel in disguise
    n_def = 0
    for f in repo.all_functions():
        a = f.node.args
        pos = a.posonlyargs + a.args
        pairs = list(zip(pos[len(pos) - len(a.defaults):], a.defaults)) + [(k, d) for k, d in zip(a.kwonlyargs, a.kw_defaults) if d is not None]
        for arg, d in pairs:
            if isinstance(d, (ast.Dict, ast.List, ast.Set)) or (isinstance(d, ast.Call) and callee_name(d) in ("dict", "list", "set", "defaultdict", "deque", "OrderedDict")):
                n_def += 1
                for n in ast.walk(f.node):
                    hit = None
                    if isinstance(n, ast.Call) and isinstance(n.func, ast.Attribute) and n.func.attr in MUTATORS and is_name(call_recv(n), arg.arg):
                        hit = f".{n.func.attr}()"
                    elif isinstance(n, ast.Subscript) and isinstance(n.ctx, (ast.Store, ast.Del)) and is_name(n.value, arg.arg):
                        hit = "[...] ="
                    if hit:
                        res.add("C17-MODULE", f.qual, f"default:{arg.arg}{hit}", f"{f.qual} mutates its mutable default argument `{arg.arg}` ({hit}): the default object is shared by every call in the process", f.file, n.lineno)
        for n in ast.walk(f.node):
            if isinstance(n, ast.Attribute) and isinstance(n.ctx, ast.Store) and isinstance(n.value, ast.Name) and n.value.id in f.module.functions and n.value.id not in {x.id for x in ast.walk(f.node) if isinstance(x, ast.Name) and isinstance(x.ctx, ast.Store)}:
                res.add("C17-MODULE", f.qual, f"funcattr:{n.value.id}.{n.attr}", f"{f.qual} stores state on the function object {n.value.id}.{n.attr}", f.file, n.lineno)
    res.ob("mutable-defaults", max(n_def, 1))
    res.ob("module-containers", max(n_glob, 1))

    # ---- C17-FRESH ---------------------------------------------------------------
    for m in ("render", "render_async"):
        f = repo.own_method("liquid.template.BoundTemplate", m)
        res.ob(f"fresh:{f.qual}")
        ctor = [c for c in calls(f.node) if text(c.func) == "self.context_class"]
        if len(ctor) != 1 or "dict(*args, **kwargs)" not in text(ctor[0]):
            res.add("C17-FRESH", f.qual, "context", f"{f.qual} must build a new context from dict(*args, **kwargs) on every call", f.file, f.line)
    res.stats.update(memo_sites=n_memo, functions_checked_for_input_mutation=n_funcs, parse_tree_classes=len(ast_classes), module_level_containers=n_glob)
    # ---- C17-MEMOKEY ------------------------------------------------------------------------
    # The caching loaders memoise `load(name, namespace)`.  A key that loses a component for some
    # inputs (a falsy namespace value, a missing name) makes two different requests share a slot:
    # what a `render`/`include` of that partial outputs then depends on which request came first.
    from .c23 import check_namespace_key

    check_namespace_key(repo, res, "C17-MEMOKEY")
    return res


def selftest(repo: Repo):
    from ..selftest import Variant, text_edit

    def v(name, rel, old, new, expect, count=1):
        return lambda: Variant(name, text_edit(repo, rel, old, new, count), expect)

    A = "liquid/builtin/filters/array.py"
    return [
        v("module-lru-cache-memo", "liquid/utils/html.py", 'def strip_tags(value: str) -> str:\n    """Return the given value with all HTML tags removed."""\n', 'from .lru_cache import ThreadSafeLRUCache\n\n_STRIPPED: ThreadSafeLRUCache[str, str] = ThreadSafeLRUCache(capacity=512)\n\n\ndef strip_tags(value: str) -> str:\n    """Return the given value with all HTML tags removed."""\n    if value in _STRIPPED:\n        return _STRIPPED[value]\n    _STRIPPED[value] = value\n', "C17-MODULE"),
        v("default-arg-memo", "liquid/utils/html.py", 'def strip_tags(value: str) -> str:\n    """Return the given value with all HTML tags removed."""\n', 'def strip_tags(value: str, _memo: dict = {}) -> str:\n    """Return the given value with all HTML tags removed."""\n    if value in _memo:\n        return _memo[value]\n    _memo[value] = value\n', "C17-MODULE"),
        v("memo-on-filter", "liquid/builtin/filters/math.py", "@math_filter\ndef ceil(", "@functools.lru_cache(maxsize=32)\n@math_filter\ndef ceil(", "C17-MEMO"),
        v("memo-on-date", "liquid/builtin/filters/misc.py", "@with_environment\n@liquid_filter\ndef date(", "@with_environment\n@liquid_filter\n@functools.lru_cache(maxsize=10)\ndef date(", "C17-MEMO"),
        v("sort-in-place", A, "    try:\n        return sorted(sequence)\n    except TypeError as err:\n        raise FilterError(\"can't sort sequence\", token=None) from err", "    try:\n        sequence.sort()\n        return sequence\n    except TypeError as err:\n        raise FilterError(\"can't sort sequence\", token=None) from err", "C17-INPUT"),
        v("reverse-in-place", A, "    return list(reversed(array))", "    array.reverse()\n    return array", "C17-INPUT"),
        v("concat-extends-input", A, "    return list(chain(sequence, second_array))", "    sequence += list(second_array)\n    return sequence", "C17-INPUT"),
        v("compact-deletes", A, "    return [itm for itm in sequence if itm is not None]", "    for i in range(len(sequence) - 1, -1, -1):\n        if sequence[i] is None:\n            del sequence[i]\n    return sequence", "C17-INPUT"),
        v("node-caches-on-self", "liquid/builtin/output.py", "        return buffer.write(\n            to_liquid_string(self.expression.evaluate(context), context.autoescape)\n        )", "        self.last = to_liquid_string(self.expression.evaluate(context), context.autoescape)\n        return buffer.write(self.last)", "C17-AST"),
        v("node-flips-blank", "liquid/builtin/tags/if_tag.py", "        if self.condition.evaluate(context):\n            return self.consequence.render(context, buffer)", "        if self.condition.evaluate(context):\n            self.consequence.blank = False\n            return self.consequence.render(context, buffer)", "C17-AST"),
        v("cycle-state-on-node", "liquid/builtin/tags/cycle_tag.py", "        index = context.cycle(key, len(args))\n\n        if index >= len(args):\n            return 0\n\n        return buffer.write(\n            to_liquid_string(args[index], autoescape=context.autoescape)\n        )\n\n    async def", "        self.args.append(self.args.pop(0))\n        index = 0\n\n        return buffer.write(\n            to_liquid_string(args[index], autoescape=context.autoescape)\n        )\n\n    async def", "C17-AST"),
        v("module-level-counter", "liquid/builtin/tags/increment_tag.py", "        return buffer.write(str(context.increment(self.name)))", "        _SEEN.append(self.name)\n        return buffer.write(str(context.increment(self.name)))", "C17-MODULE").__class__ and (lambda: Variant("module-level-list", {"liquid/builtin/tags/increment_tag.py": next(m for m in repo.modules.values() if m.relpath == "liquid/builtin/tags/increment_tag.py").source.replace('TAG_INCREMENT = sys.intern("increment")', 'TAG_INCREMENT = sys.intern("increment")\n_SEEN = []').replace("        return buffer.write(str(context.increment(self.name)))", "        _SEEN.append(self.name)\n        return buffer.write(str(context.increment(self.name) + len(_SEEN)))")}, "C17-MODULE")),
        v("class-level-list", "liquid/extra/tags/macro_tag.py", "        macro_context = context.copy(\n            namespace=namespace,\n            disabled_tags=self.disabled_tags,\n            carry_loop_iterations=True,\n        )\n\n        return macro.block.render(macro_context, buffer)", "        self.disabled_tags.append(self.name)\n        macro_context = context.copy(\n            namespace=namespace,\n            disabled_tags=self.disabled_tags,\n            carry_loop_iterations=True,\n        )\n\n        return macro.block.render(macro_context, buffer)", "C17-"),
        v("render-reuses-args", "liquid/template.py", "            globals=self.make_globals(dict(*args, **kwargs)),\n        )\n        buf = self._get_buffer()\n        self.render_with_context(context, buf)", "            globals=self.make_globals(args[0] if args else kwargs),\n        )\n        buf = self._get_buffer()\n        self.render_with_context(context, buf)", "C17-FRESH"),
        v("evaluate-pops-path", "liquid/builtin/expressions/filtered.py", "        func = context.filter(self.name, token=self.token)\n        positional_args, keyword_args = self.evaluate_args(context)\n        try:\n            return func(left, *positional_args, **keyword_args)", "        func = context.filter(self.name, token=self.token)\n        positional_args, keyword_args = self.evaluate_args(context)\n        if isinstance(left, list):\n            left.append(None)\n        try:\n            return func(left, *positional_args, **keyword_args)", "C17-INPUT"),
    ]
