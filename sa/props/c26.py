"""C26 — null translations leave message text intact (clauses).

  C26-PERCENT every printf-style ``%`` applied to message text has a left operand in which every
              percent sign that does not start a ``%(name)s`` placeholder has been doubled on
              all paths: the filters double through ``re_percent.sub(...)`` in
              ``format_message``; the tag's message text is assembled in
              ``validate_message_block`` from ``node.text.replace("%", "%%")`` and
              ``f"%({var})s"`` pieces only.  (Otherwise a stray ``%`` raises ValueError or
              swallows the characters after it.)
  C26-VARS    placeholders are found with ``re_vars`` (``%(name)s`` not preceded by ``%``) and
              replaced by ``to_liquid_string(context.resolve(name))``; the right operand of
              ``%`` is that mapping.
  C26-COUNT   the plural count is never tested by truthiness or by membership in a tuple
              containing booleans (``0 in (None, False, True)`` is true): the tag chooses the
              plural when ``count is not None``, ``_count`` maps only ``None`` and ``bool`` to "no
              count", the ``t`` filter uses ``n is not None``; the count goes to
              ``ngettext``/``npgettext`` as the last argument.
  C26-NULL    tag and filters fall back to ``NullTranslations()`` and look the catalogue up under
              the configured ``translations`` name; the tag collapses whitespace with
              ``re_whitespace.sub(" ", msg.strip())`` only when ``trim_messages`` is set.
  C26-UNDOUBLE on every path of ``_format_message`` (text arrives doubled) and ``format_message`` (doubles
              itself) the returned text has been %-formatted exactly as often as its percent signs
              were doubled.
Trusted: gettext.NullTranslations (singular iff n == 1).
"""

from __future__ import annotations

import ast

from ..astutil import call_recv, attr_chain, callee_name, calls, is_name, is_self_attr, local_names, ltext, text
from ..core import Result
from ..flow import MustFlow
from ..model import AnchorMissing, Repo, walk_no_nested

PID = "C26"
MIN_OBLIGATIONS = 20
F = "liquid.extra.filters.translate"
T = "liquid.extra.tags.translate_tag"


def _doubling_levels(fn: ast.AST, start: dict) -> tuple[int, list]:
    """(returns of message text seen, [(return node, level != 0)]) over all paths of ``fn``.
    Level of an expression: a tracked name's level; ``Markup(x)`` / ``str(x)`` keep it;
    ``<re_percent>.sub(f, x)`` and ``x.replace("%", "%%")`` add one; ``x % y`` takes one off."""

    def level(e, env):
        if isinstance(e, ast.Name):
            return env.get(e.id)
        if isinstance(e, ast.Call):
            fn_ = callee_name(e)
            if fn_ in ("Markup", "str", "escape") and e.args:
                return level(e.args[0], env)
            if fn_ == "sub" and len(e.args) == 2 and "percent" in text(call_recv(e)):
                l_ = level(e.args[1], env)
                return None if l_ is None else l_ + 1
            if fn_ == "replace" and len(e.args) == 2 and all(isinstance(a, ast.Constant) for a in e.args) and e.args[0].value == "%" and e.args[1].value == "%%":
                l_ = level(call_recv(e), env)
                return None if l_ is None else l_ + 1
            return None
        if isinstance(e, ast.BinOp) and isinstance(e.op, ast.Mod):
            l_ = level(e.left, env)
            return None if l_ is None else l_ - 1
        if isinstance(e, ast.IfExp):
            a, b = level(e.body, env), level(e.orelse, env)
            return a if a == b else (max(x for x in (a, b) if x is not None) if (a is not None or b is not None) else None)
        return None

    n_ret = 0
    bad = []

    def block(body, envs):
        for st in body:
            if not envs:
                break
            nxt = []
            for env in envs:
                nxt += stmt(st, env)
            envs = nxt
        return envs

    def stmt(st, env):
        nonlocal n_ret
        if isinstance(st, ast.Return):
            l_ = level(st.value, env) if st.value is not None else None
            if l_ is not None:
                n_ret += 1
                if l_ != 0:
                    bad.append((st, l_))
            return []
        if isinstance(st, ast.Raise):
            return []
        if isinstance(st, ast.If):
            return block(st.body, [dict(env)]) + (block(st.orelse, [dict(env)]) if st.orelse else [dict(env)])
        if isinstance(st, (ast.With, ast.AsyncWith, ast.For, ast.AsyncFor, ast.While)):
            out = block(st.body, [dict(env)])
            return out + ([dict(env)] if isinstance(st, (ast.For, ast.AsyncFor, ast.While)) else [])
        if isinstance(st, ast.Try):
            out = block(st.body, [dict(env)])
            for h in st.handlers:
                out += block(h.body, [dict(env)])
            return out
        if isinstance(st, ast.Assign) and len(st.targets) == 1 and isinstance(st.targets[0], ast.Name):
            env = dict(env)
            l_ = level(st.value, env)
            if l_ is None:
                env.pop(st.targets[0].id, None)
            else:
                env[st.targets[0].id] = l_
            return [env]
        return [env]

    block(fn.body, [dict(start)])
    seen = set()
    uniq = []
    for node_, l_ in bad:
        if (node_.lineno, l_) not in seen:
            seen.add((node_.lineno, l_))
            uniq.append((node_, l_))
    return n_ret, uniq


def _plural_choice_ok(fn: ast.AST, both: set, neither: set) -> bool:
    """Path conditions of every catalogue lookup in ``fn``: the plural lookups (ngettext /
    npgettext) run only where every condition of ``both`` held when the branch was entered, the
    singular ones (gettext / pgettext) only where that is ruled out — whichever way round the
    branches are written."""
    from ..guards import canon as _c
    from ..guards import conditions as _conds
    from ..guards import conjuncts as _cj
    from ..guards import entry_conditions as _entry

    entry = _entry(fn)
    n_pl = n_sg = 0
    ok = True
    for st, cs in _conds(fn):
        if isinstance(st, (ast.If, ast.For, ast.While, ast.With, ast.Try)):
            continue
        cs = list(cs) + list(entry.get(id(st), []))
        have = {_c(c) for c in cs}
        for c in ast.walk(st):
            if isinstance(c, ast.Call) and isinstance(c.func, ast.Attribute) and isinstance(c.func.value, ast.Name) and c.func.value.id != "self":
                if callee_name(c) in ("ngettext", "npgettext"):
                    n_pl += 1
                    ok = ok and both <= have
                elif callee_name(c) in ("gettext", "pgettext"):
                    n_sg += 1
                    ruled_out = bool(have & neither) or any(
                        (isinstance(x, ast.BoolOp) and isinstance(x.op, ast.Or) and {_c(v) for v in x.values} == neither)
                        or (isinstance(x, ast.UnaryOp) and isinstance(x.op, ast.Not) and {_c(v) for v in _cj(x.operand)} == both)
                        for x in cs
                    )
                    ok = ok and ruled_out
    return ok and n_pl >= 1 and n_sg >= 1


def _mod_sites(fn):
    return [n for n in ast.walk(fn) if isinstance(n, ast.BinOp) and isinstance(n.op, ast.Mod)]


def run(repo: Repo) -> Result:
    res = Result(PID)
    res.rules = ["C26-PERCENT", "C26-VARS", "C26-COUNT", "C26-NULL", "C26-UNDOUBLE"]
    res.explanation = "taint rule: printf-formatting only of %-doubled message text; count tests by `is None`; null-translation fallbacks"
    res.assumptions = ["gettext.NullTranslations returns the singular iff n == 1"]

    # ---- C26-PERCENT / C26-VARS (filters) -------------------------------------------
    import copy as _copy

    from ..normalize import NFunc, propagate_aliases

    base = repo.cls(f"{F}.BaseTranslateFilter")
    # (`autoescape = context.env.autoescape` / `resolve = context.resolve` aliases propagated)
    fm = NFunc(base.methods["format_message"], propagate_aliases(_copy.deepcopy(base.methods["format_message"].node)))
    mods = _mod_sites(fm.node)

    def doubling_ok(fn_expr) -> bool:
        """the replacement function keeps a %(name)s placeholder (a match longer than one character)
        and turns every other match into '%%' — a lambda, or a method/function doing the same"""
        body = None
        if isinstance(fn_expr, ast.Lambda):
            param, body = fn_expr.args.args[0].arg if fn_expr.args.args else None, fn_expr.body
            env = {}
        else:
            nm = fn_expr.attr if isinstance(fn_expr, ast.Attribute) else fn_expr.id if isinstance(fn_expr, ast.Name) else None
            target = base.methods.get(nm) or repo.module(F).functions.get(nm) if nm else None
            if target is None:
                return False
            ps = [p_ for p_ in target.params() if p_ not in ("self", "cls")]
            param = ps[0] if ps else None
            env = {st.targets[0].id: st.value for st in walk_no_nested(target.node) if isinstance(st, ast.Assign) and len(st.targets) == 1 and isinstance(st.targets[0], ast.Name)}
            rets = [r.value for r in walk_no_nested(target.node) if isinstance(r, ast.Return) and r.value is not None]
            body = rets[0] if len(rets) == 1 else None
        def is_match_text0(e) -> bool:
            if isinstance(e, ast.Name) and e.id in env:
                e = env[e.id]
            return isinstance(e, ast.Call) and callee_name(e) == "group" and is_name(call_recv(e), param) and (not e.args or (isinstance(e.args[0], ast.Constant) and e.args[0].value == 0))

        if body is None and param is not None and not isinstance(fn_expr, ast.Lambda) and len(rets) == 2:
            # the same conditional written as statements: `if len(<match text>) > 1: return <match
            # text>` and `return "%%"` under its negation
            from ..guards import canon as _c26, exits as _exits26

            ex = [e_ for e_ in _exits26(target.node, resolve_locals=False) if e_.kind == "return"]
            keep = [e_ for e_ in ex if is_match_text0(e_.node.value)]
            dbl = [e_ for e_ in ex if isinstance(e_.node.value, ast.Constant) and e_.node.value.value == "%%"]

            def longer_cond(c) -> bool:
                return isinstance(c, ast.Compare) and len(c.ops) == 1 and isinstance(c.ops[0], ast.Gt) and isinstance(c.left, ast.Call) and is_name(c.left.func, "len") and is_match_text0(c.left.args[0]) and isinstance(c.comparators[0], ast.Constant) and c.comparators[0].value == 1

            def not_longer_cond(c) -> bool:
                return isinstance(c, ast.Compare) and len(c.ops) == 1 and isinstance(c.ops[0], ast.LtE) and isinstance(c.left, ast.Call) and is_name(c.left.func, "len") and is_match_text0(c.left.args[0]) and isinstance(c.comparators[0], ast.Constant) and c.comparators[0].value == 1

            return len(ex) == 2 and len(keep) == 1 and len(dbl) == 1 and any(longer_cond(c) for c in keep[0].conds) and any(not_longer_cond(c) or (isinstance(c, ast.UnaryOp) and longer_cond(c.operand)) for c in dbl[0].conds)
        if body is None or param is None or not isinstance(body, ast.IfExp):
            return False

        def is_match_text(e) -> bool:
            if isinstance(e, ast.Name) and e.id in env:
                e = env[e.id]
            return isinstance(e, ast.Call) and callee_name(e) == "group" and is_name(call_recv(e), param) and (not e.args or (isinstance(e.args[0], ast.Constant) and e.args[0].value == 0))

        t = body.test
        longer = isinstance(t, ast.Compare) and len(t.ops) == 1 and isinstance(t.ops[0], ast.Gt) and isinstance(t.left, ast.Call) and is_name(t.left.func, "len") and is_match_text(t.left.args[0]) and isinstance(t.comparators[0], ast.Constant) and t.comparators[0].value == 1
        return longer and is_match_text(body.body) and isinstance(body.orelse, ast.Constant) and body.orelse.value == "%%"

    res.ob(fm.qual, 3)
    if len(mods) != 1:
        res.add("C26-PERCENT", fm.qual, f"mod-sites:{len(mods)}", "format_message must apply exactly one printf-style % to the message", fm.file, fm.line)
    rp = base.attrs.get("re_percent")
    rv = base.attrs.get("re_vars")
    want_vars = r"(?<!%)%\((\w+)\)s"
    want_pct = r"(?<!%)%\(\w+\)s|%"
    if rv is None or not (isinstance(rv, ast.Call) and rv.args and isinstance(rv.args[0], ast.Constant) and rv.args[0].value == want_vars):
        res.add("C26-VARS", base.qual, "re_vars", f"BaseTranslateFilter.re_vars must be {want_vars!r}", base.file, base.node.lineno)
    if rp is None or not (isinstance(rp, ast.Call) and rp.args and isinstance(rp.args[0], ast.Constant) and rp.args[0].value == want_pct):
        res.add("C26-PERCENT", base.qual, "re_percent", f"BaseTranslateFilter.re_percent must be {want_pct!r} (a placeholder, or any other single percent sign)", base.file, base.node.lineno)
    for m in mods:
        left, right = m.left, m.right
        # left must be a local bound (on every path) from self.re_percent.sub(<doubling>, message_text)
        ok = False
        if isinstance(left, ast.Name):
            binds = [st for st in walk_no_nested(fm.node) if isinstance(st, ast.Assign) and is_name(st.targets[0], left.id)]
            doubled = [b for b in binds if isinstance(b.value, ast.Call) and callee_name(b.value) == "sub" and attr_chain(call_recv(b.value)) == ["self", "re_percent"] and len(b.value.args) == 2 and is_name(b.value.args[1], "message_text")]
            rewraps = [b for b in binds if isinstance(b.value, ast.Call) and callee_name(b.value) == "Markup" and b.value.args and is_name(b.value.args[0], left.id)]
            ok = len(doubled) == 1 and len(doubled) + len(rewraps) == len(binds) and all(b.lineno < m.lineno for b in binds)
            if doubled:
                lam = doubled[0].value.args[0]
                if not doubling_ok(lam):
                    res.add("C26-PERCENT", fm.qual, "doubling-lambda", "the substitution must keep placeholders and replace every other % by %%", fm.file, doubled[0].lineno)
        if not ok:
            res.add("C26-PERCENT", fm.qual, f"raw-format:{text(left)[:30]}", f"format_message formats `{text(left)[:40]} % ...` without first doubling the percent signs that are not %(name)s placeholders: '100%' raises ValueError and '100% sure' loses characters", fm.file, m.lineno)
        mapping_vars = {st.targets[0].id for st in ast.walk(fm.node) if isinstance(st, ast.Assign) and len(st.targets) == 1 and isinstance(st.targets[0], ast.Name) and isinstance(st.value, ast.DictComp) and any(callee_name(c_) == "findall" for c_ in ast.walk(st.value) if isinstance(c_, ast.Call))}
        if not (isinstance(right, ast.Name) and right.id in mapping_vars):
            res.add("C26-VARS", fm.qual, f"operand:{text(right)[:30]}", "the message must be formatted with the resolved placeholder mapping", fm.file, m.lineno)
    t = text(fm.node)
    if "for k in self.re_vars.findall(message_text)" not in t or "to_liquid_string(context.resolve(k), autoescape=context.env.autoescape)" not in t:
        res.add("C26-VARS", fm.qual, "vars", "placeholders must be found with re_vars and replaced by to_liquid_string(context.resolve(name))", fm.file, fm.line)
    if "with context.extend(namespace=message_vars):" not in t:
        res.add("C26-VARS", fm.qual, "scope", "filter keyword arguments must be visible as message variables", fm.file, fm.line)
    # no other % formatting of message text in the filter module
    for c in repo.module(F).classes.values():
        for f in c.methods.values():
            if f.qual == fm.qual:
                continue
            for m in _mod_sites(f.node):
                res.ob(f"mod:{f.qual}")
                res.add("C26-PERCENT", f.qual, f"mod:{text(m)[:40]}", f"{f.qual} applies % formatting to `{text(m.left)[:30]}` outside format_message", f.file, m.lineno)
    # each filter formats through format_message only when message_interpolation
    n_f = 0
    for c in repo.subclasses(f"{F}.BaseTranslateFilter", strict=True):
        f = c.methods.get("__call__")
        if f is None:
            continue
        n_f += 1
        res.ob(f"{c.qual}.__call__")
        from ..normalize import nfunc as _nf26

        fn_ = _nf26(repo, f, keep=("format_message", "_resolve_translations", "_count"))  # private helpers of the filter inlined
        t = ltext(fn_.node, local_names(fn_.node))  # local names written `_`
        if "self.format_message(context, _, kwargs)" not in t and "self.format_message(context, _, _)" not in t:
            res.add("C26-VARS", f.qual, "format", f"{f.qual} must interpolate with self.format_message(context, text, kwargs)", f.file, f.line)
    if n_f < 5:
        raise AnchorMissing(f"only {n_f} translate filters found")

    # ---- C26-PERCENT (tag) -------------------------------------------------------------
    node = repo.cls(f"{T}.TranslateNode")
    tag = repo.cls(f"{T}.TranslateTag")
    fmt = node.methods["_format_message"]
    res.ob(fmt.qual, 2)
    mods = _mod_sites(fmt.node)
    fmt_params = [p_ for p_ in fmt.params() if p_ != "self"]
    fmt_maps = {st.targets[0].id for st in ast.walk(fmt.node) if isinstance(st, ast.Assign) and len(st.targets) == 1 and isinstance(st.targets[0], ast.Name) and isinstance(st.value, (ast.DictComp, ast.Dict))}
    fmt_maps |= {st.target.id for st in ast.walk(fmt.node) if isinstance(st, ast.AnnAssign) and isinstance(st.target, ast.Name) and isinstance(st.value, (ast.DictComp, ast.Dict))}
    if len(mods) != 1 or not (isinstance(mods[0].left, ast.Name) and mods[0].left.id in fmt_params) or not (isinstance(mods[0].right, ast.Name) and mods[0].right.id in fmt_maps):
        res.add("C26-PERCENT", fmt.qual, "mod", "TranslateNode._format_message must be `message_text % _vars`", fmt.file, fmt.line)
    vb = tag.methods["validate_message_block"]
    res.ob(vb.qual, 3)
    # the list of pieces is the local that is joined into the message text (`"".join(<pieces>)`)
    piece_lists = {c.args[0].id for c in calls(vb.node) if callee_name(c) == "join" and c.args and isinstance(c.args[0], ast.Name)}
    appends = [c for c in calls(vb.node) if callee_name(c) == "append" and isinstance(call_recv(c), ast.Name) and call_recv(c).id in piece_lists]
    if len(appends) < 2:
        res.add("C26-PERCENT", vb.qual, "pieces", "validate_message_block must assemble the message from text and placeholder pieces", vb.file, vb.line)
    for a in appends:
        arg = a.args[0]
        ok = (
            isinstance(arg, ast.Call) and callee_name(arg) == "replace" and isinstance(call_recv(arg), ast.Attribute) and call_recv(arg).attr == "text" and isinstance(call_recv(arg).value, ast.Name) and [getattr(x, "value", None) for x in arg.args] == ["%", "%%"]
        ) or (isinstance(arg, ast.JoinedStr) and len(arg.values) == 3 and [getattr(v_, "value", None) for v_ in (arg.values[0], arg.values[2])] == ["%(", ")s"] and isinstance(arg.values[1], ast.FormattedValue) and isinstance(arg.values[1].value, ast.Name))
        if not ok:
            res.add("C26-PERCENT", vb.qual, f"piece:{text(arg)[:40]}", f"validate_message_block adds `{text(arg)[:50]}` to the message: only %-doubled text and %(var)s placeholders may be added (the text is printf-formatted at render time)", vb.file, a.lineno)
    # the message handed to gettext is that text
    gt = node.methods["gettext"]
    res.ob(gt.qual, 3)
    for c in calls(gt.node):
        if callee_name(c) in ("gettext", "ngettext", "pgettext", "npgettext") and is_name(call_recv(c), "translations"):
            for a in c.args:
                if text(a) not in ("self.singular_block.text", "self.plural_block.text", "message_context", "count"):
                    res.add("C26-PERCENT", gt.qual, f"arg:{text(a)[:30]}", f"TranslateNode.gettext passes `{text(a)}` to {callee_name(c)}", gt.file, c.lineno)
            if callee_name(c) in ("ngettext", "npgettext") and text(c.args[-1]) != "count":
                res.add("C26-COUNT", gt.qual, f"count-arg:{callee_name(c)}", "the count must be the last argument of ngettext/npgettext", gt.file, c.lineno)

    # ---- C26-COUNT ---------------------------------------------------------------------
    res.ob("count:tag", 2)
    if not _plural_choice_ok(gt.node, {"self.plural_block", "count is not None"}, {"not self.plural_block", "count is None"}):
        res.add("C26-COUNT", gt.qual, "plural-test", "the tag must choose ngettext exactly when there is a plural block and `count is not None` — testing the count for truthiness sends count=0 to the singular", gt.file, gt.line)
    cf = repo.func(f"{F}._count")
    res.ob(cf.qual, 2)
    first = [s for s in cf.node.body if not (isinstance(s, ast.Expr) and isinstance(s.value, ast.Constant))][0]
    if not (isinstance(first, ast.If) and text(first.test) == "val is None or isinstance(val, bool)"):
        res.add("C26-COUNT", cf.qual, f"none-test:{text(first.test) if isinstance(first, ast.If) else None}", "_count must map only None and booleans to 'no count' (`0 in (None, False, True)` is true)", cf.file, cf.line)
    for n in ast.walk(cf.node):
        if isinstance(n, ast.Compare) and isinstance(n.ops[0], (ast.In, ast.NotIn)) and isinstance(n.comparators[0], ast.Tuple) and any(isinstance(e, ast.Constant) and isinstance(e.value, bool) for e in n.comparators[0].elts):
            res.add("C26-COUNT", cf.qual, "bool-membership", "membership in a tuple containing booleans also matches 0 and 1", cf.file, n.lineno)
    tr = repo.own_method(f"{F}.Translate", "__call__")
    res.ob(tr.qual, 2)
    # the count is `_count(kwargs.get(<name of the count argument>))` and the plural form is chosen
    # exactly when both the plural text and that count are `is not None` (never by truthiness);
    # the argument names may be literals or class attributes of the filter
    from ..guards import canon as _canon
    from ..guards import conjuncts as _conjuncts

    n_vars = [st.targets[0].id for st in walk_no_nested(tr.node) if isinstance(st, ast.Assign) and len(st.targets) == 1 and isinstance(st.targets[0], ast.Name) and isinstance(st.value, ast.Call) and callee_name(st.value) == "_count" and st.value.args and isinstance(st.value.args[0], ast.Call) and callee_name(st.value.args[0]) == "get" and is_name(call_recv(st.value.args[0]), "kwargs")]
    p_vars = [st.targets[0].id for st in walk_no_nested(tr.node) if isinstance(st, ast.Assign) and len(st.targets) == 1 and isinstance(st.targets[0], ast.Name) and isinstance(st.value, ast.Call) and callee_name(st.value) == "pop" and is_name(call_recv(st.value), "kwargs")]
    ok_pl = False
    if len(n_vars) == 1 and len(p_vars) >= 1:
        # path conditions: the plural lookups run exactly where both are `is not None`, the singular
        # lookups exactly where that is ruled out (whichever way round the branches are written)
        from ..guards import conditions as _conds26
        from ..guards import entry_conditions as _entry_conds26

        _entry26 = _entry_conds26(tr.node)
        both = {f"{p_vars[0]} is not None", f"{n_vars[0]} is not None"}
        neither = {f"{p_vars[0]} is None", f"{n_vars[0]} is None"}
        n_pl = n_sg = 0
        ok_pl = True
        for st26, cs26 in _conds26(tr.node):
            if isinstance(st26, (ast.If, ast.For, ast.While, ast.With, ast.Try)):
                continue
            # which branch the call sits in (the values tested at the branch, not what `plural` is
            # after it has been stringified inside the branch)
            cs26 = list(cs26) + list(_entry26.get(id(st26), []))
            have = {_canon(c) for c in cs26}
            for c26 in ast.walk(st26):
                if isinstance(c26, ast.Call) and isinstance(c26.func, ast.Attribute) and isinstance(c26.func.value, ast.Name) and c26.func.value.id != "self":
                    if callee_name(c26) in ("ngettext", "npgettext"):
                        n_pl += 1
                        ok_pl = ok_pl and both <= have
                    elif callee_name(c26) in ("gettext", "pgettext"):
                        n_sg += 1
                        ruled_out = bool(have & neither) or any(
                            (isinstance(c, ast.BoolOp) and isinstance(c.op, ast.Or) and {_canon(v) for v in c.values} == neither)
                            or (isinstance(c, ast.UnaryOp) and isinstance(c.op, ast.Not) and {_canon(v) for v in _conjuncts(c.operand)} == both)
                            for c in cs26
                        )
                        ok_pl = ok_pl and ruled_out
        ok_pl = ok_pl and n_pl >= 1 and n_sg >= 1
    if not ok_pl:
        res.add("C26-COUNT", tr.qual, "plural-test", "the t filter must choose the plural form when `plural is not None and n is not None`", tr.file, tr.line)
    for c in calls(tr.node):
        if callee_name(c) in ("ngettext", "npgettext") and not (n_vars and is_name(c.args[-1], n_vars[0])):
            res.add("C26-COUNT", tr.qual, f"count-arg:{callee_name(c)}", "the count must be the last argument of ngettext/npgettext", tr.file, c.lineno)
    for cq, cnt in ((f"{F}.NGetText", "__count"), (f"{F}.NPGetText", "__count")):
        f = repo.own_method(cq, "__call__")
        res.ob(f.qual)
        tt = text(f.node)
        if f"{cnt} = int_arg({cnt}, default=1)" not in tt:
            res.add("C26-COUNT", f.qual, "count-conversion", f"{f.qual} must convert its count with int_arg(count, default=1)", f.file, f.line)
        for c in calls(f.node):
            if callee_name(c) in ("ngettext", "npgettext") and is_name(call_recv(c), "translations") and text(c.args[-1]) != cnt:
                res.add("C26-COUNT", f.qual, "count-arg", "the count must be the last argument", f.file, c.lineno)
    rc = node.methods["resolve_count"]
    res.ob(rc.qual)
    if "block_scope.get(self.message_count_var, 1)" not in text(rc.node):
        res.add("C26-COUNT", rc.qual, "default", "the tag's count defaults to 1 (singular) when not given", rc.file, rc.line)
    # truthiness tests of count variables anywhere in the two modules
    for modname in (F, T):
        m = repo.module(modname)
        funcs = list(m.functions.values()) + [x for c in m.classes.values() for x in c.methods.values()]
        for f in funcs:
            for n in ast.walk(f.node):
                tests = []
                if isinstance(n, (ast.If, ast.IfExp, ast.While)):
                    tests = [n.test]
                for tst in tests:
                    parts = tst.values if isinstance(tst, ast.BoolOp) else [tst]
                    for p in parts:
                        if isinstance(p, ast.UnaryOp) and isinstance(p.op, ast.Not):
                            p = p.operand
                        if isinstance(p, ast.Name) and p.id in ("count", "n", "__count"):
                            res.ob(f"truthiness:{f.qual}")
                            res.add("C26-COUNT", f.qual, f"truthiness:{p.id}", f"{f.qual} tests the plural count `{p.id}` for truthiness: zero is a count", f.file, n.lineno)

    # ---- C26-NULL -----------------------------------------------------------------------
    res.ob("null:tag")
    if text(node.attrs.get("default_translations")) != "NullTranslations()" or text(node.attrs.get("translations_var")) != "'translations'":
        res.add("C26-NULL", node.qual, "defaults", "TranslateNode must default to NullTranslations() under the name 'translations'", node.file, node.node.lineno)
    rt = node.methods["resolve_translations"]
    if "context.resolve(self.translations_var, default=self.default_translations)" not in text(rt.node):
        res.add("C26-NULL", rt.qual, "resolve", "translations must be resolved from the context with the null fallback", rt.file, rt.line)
    res.ob("null:filters")
    bi = base.methods["__init__"]
    if "self.default_translations = default_translations or NullTranslations()" not in text(bi.node):
        res.add("C26-NULL", bi.qual, "defaults", "filters must fall back to NullTranslations()", bi.file, bi.line)
    res.ob("null:whitespace")
    from ..normalize import nfunc as _nfunc26

    vb_n = _nfunc26(repo, vb, small_public=3)  # a small normalisation hook of the tag (`normalize_message`) inlined
    tv = ltext(vb_n.node, local_names(vb_n.node))  # local names written `_`
    if "if self.trim_messages:" not in tv or "_ = self.re_whitespace.sub(' ', _.strip())" not in tv:
        res.add("C26-NULL", vb.qual, "whitespace", "the tag collapses whitespace runs with re_whitespace.sub(' ', msg.strip()) only when trim_messages is set", vb.file, vb.line)
    # ---- C26-UNDOUBLE: doubled percent signs are halved again on every path ------------------------
    # The tag's message text reaches ``_format_message`` with every literal ``%`` doubled (by
    # ``validate_message_block``); the filters double inside ``format_message``.  The printf-style
    # ``%`` halves them again.  So on *every* path the returned text has been formatted exactly as
    # often as it was doubled ("doubling level" 0 at each return): an early return of the doubled
    # text emits ``100%% free``.
    for fq, start in ((f"{T}.TranslateNode._format_message", 1), (f"{F}.BaseTranslateFilter.format_message", 0)):
        cq, mn = fq.rsplit(".", 1)
        f_ = repo.own_method(cq, mn)
        msg = [p_ for p_ in f_.params() if p_ not in ("self", "context")]
        if not msg:
            raise AnchorMissing(f"{fq}: message parameter not found")
        n_ret, bad_ret = _doubling_levels(f_.node, {msg[0]: start})
        res.ob(f"undouble:{fq}", max(1, n_ret))
        if n_ret < 1:
            raise AnchorMissing(f"{fq}: no return of message text found")
        for node_, lvl in bad_ret:
            what = "still doubled" if lvl > 0 else "formatted more often than doubled"
            res.add("C26-UNDOUBLE", fq, f"return-level:{lvl}", f"{fq} can return message text whose literal percent signs are {what} (doubling level {lvl} at line {node_.lineno}): a message with a literal % and no placeholder comes out as '100%% free'" if lvl > 0 else f"{fq} returns text formatted with % more often than its percent signs were doubled (line {node_.lineno})", f_.file, node_.lineno)

    return res


def selftest(repo: Repo):
    from ..selftest import Variant, text_edit

    def v(name, rel, old, new, expect, count=1):
        return lambda: Variant(name, text_edit(repo, rel, old, new, count), expect)

    FP = "liquid/extra/filters/translate.py"
    TP = "liquid/extra/tags/translate_tag.py"
    return [
        v("filter-raw-format", FP, "        return escaped % _vars", "        return message_text % _vars", "C26-PERCENT"),
        v("doubling-everything", FP, 'lambda m: m.group() if len(m.group()) > 1 else "%%", message_text', 'lambda m: "%%", message_text', "C26-PERCENT"),
        v("re_percent-misses-bare", FP, 're_percent = re.compile(r"(?<!%)%\\(\\w+\\)s|%")', 're_percent = re.compile(r"(?<!%)%\\(\\w+\\)s|%(?=\\s)")', "C26-PERCENT"),
        v("tag-text-not-doubled", TP, 'message_text.append(node.text.replace("%", "%%"))', "message_text.append(node.text)", "C26-PERCENT"),
        v("tag-count-truthiness", TP, "        if self.plural_block and count is not None:", "        if self.plural_block and count:", "C26-COUNT"),
        v("count-bool-membership", FP, "    if val is None or isinstance(val, bool):", "    if val in (None, False, True):", "C26-COUNT"),
        v("t-count-truthiness", FP, "        if plural is not None and n is not None:", "        if plural is not None and n:", "C26-COUNT"),
        v("ngettext-default-zero", FP, "        __count = int_arg(__count, default=1)\n\n        translations = self._resolve_translations(context)\n        text = translations.ngettext(__left, __plural, __count)", "        __count = int_arg(__count, default=0)\n\n        translations = self._resolve_translations(context)\n        text = translations.ngettext(__left, __plural, __count)", "C26-COUNT"),
        v("tag-swaps-singular-plural", TP, "                self.singular_block.text,\n                self.plural_block.text,\n                count,\n            )\n\n        if message_context:", "                self.plural_block.text,\n                count,\n                self.singular_block.text,\n            )\n\n        if message_context:", "C26-COUNT"),
        v("vars-not-stringified", FP, "                k: to_liquid_string(\n                    context.resolve(k), autoescape=context.env.autoescape\n                )", "                k: context.resolve(k)", "C26-VARS"),
        v("tag-always-trims", TP, "        if self.trim_messages:\n            msg = self.re_whitespace.sub(\" \", msg.strip())", "        msg = self.re_whitespace.sub(\" \", msg.strip()).lower()", "C26-NULL"),
    ]
